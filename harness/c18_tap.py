"""C18 - TAP streams are interpreted per the TAP specification.

1. TLC model-checks specs/tap/TAP_MC: the operational parser state machine equals
   the declarative TAP rules on every stream over the abstract line alphabet up
   to N lines.
2. (A) every stream of that same space (alphabet exported by the TLC run) is
   rendered to concrete text, fed to the real ``TAPParser`` line by line, and
   the recorded per-line events are judged by ``TraceTAP`` (TLC).
3. (B) long random streams (numbers of every magnitude class, YAML-heavy)
   through the real ``TAPParser`` and through ``TestRunTAP`` (whole-test
   verdict for every exit status of the model's ``ExitDomain``), judged by the
   same trace spec; arbitrary text must never raise.
4. The verdict product: every stream of <= 2 lines, the number streams, the
   random streams and the class witnesses exported by the model, each with every
   exit status of ``ExitDomain`` (0, 1, 2, 77, 99, 126, 127, 255, signals)
   through ``TestRunTAP.parse`` + ``complete``; the witnesses x exit statuses
   also as real ``protocol: 'tap'`` tests of a ``--backend=none`` project run by
   ``meson test`` (result read from ``testlog.json``).

Numbers are abstract (TAP.tla: magnitude class * Scale + offset); this module
renders them to numerals (string arithmetic only: CPython refuses to convert
integers of more than 4300 digits to text) and projects the integers of the
real events back.
"""
from __future__ import annotations

import asyncio
import json
import os
import random
import subprocess
import sys
import time
import typing as T
from concurrent.futures import ProcessPoolExecutor, ThreadPoolExecutor

from . import common
from .common import Check, MachineryError, SPECS, run_tlc, scratch

PROP = 'C18'


# ---------------------------------------------------------------------------
# abstract numbers (TAP.tla: Num(c, o) = c * Scale + o means Base(c) + o)

SCALE = 10_000_000
HALF = SCALE // 2
_SMALL_BASES = {0: 0, 1: 2 ** 31, 2: 2 ** 63, 3: 10 ** 20}
_POW10 = {4: 4299, 5: 4300, 6: 4999}
_BASES = [0, 2 ** 31, 2 ** 63, 10 ** 20, 10 ** 4299, 10 ** 4300, 10 ** 4999]
CLASS_NAMES = ['', '2^31', '2^63', '1e20', '1e4299', '1e4300', '1e4999']


def num_class(code: int) -> T.Tuple[int, int]:
    c = (code + HALF) // SCALE
    return c, code - c * SCALE


def P(c: int, o: int = 0) -> int:
    return c * SCALE + o


def numeral(code: int, z: int = 0) -> str:
    """abstract number -> decimal numeral, padded with leading zeros to width z."""
    c, o = num_class(code)
    if c in _SMALL_BASES:
        v = _SMALL_BASES[c] + o
        if v < 0:
            raise MachineryError(f'negative abstract number {code}')
        txt = str(v)
    else:
        k = _POW10[c]
        if o >= 0:
            txt = '1' + str(o).zfill(k)
        else:
            m = len(str(-o))
            txt = '9' * (k - m) + str(10 ** m + o).zfill(m)
    return txt.zfill(z)


def code_of(v: T.Any) -> int:
    """integer of a real event -> abstract number (-2: not an integer, -3: outside every class)."""
    if not isinstance(v, int) or isinstance(v, bool):
        return -2
    for c, b in enumerate(_BASES):
        o = v - b
        if (0 <= o < HALF) if c == 0 else (-HALF < o < HALF):
            return c * SCALE + o
    return -3


def show_num(code: int, z: int) -> str:
    c, o = num_class(code)
    s = str(o) if c == 0 else CLASS_NAMES[c] + (f'{o:+d}' if o else '')
    return s + (f'z{z}' if z else '')


# ---------------------------------------------------------------------------
# rendering of abstract lines

def render(ln: T.Dict[str, T.Any], rnd: random.Random) -> T.Tuple[str, str]:
    """abstract line -> (text, expected subtest name)."""
    k = ln['k']
    name = ''
    if k == 'test':
        txt = 'ok' if ln['a'] == 1 else 'not ok'
        if ln['n'] or ln['z']:
            txt += rnd.choice([' ', '  ']) + numeral(ln['n'], ln['z'])
        name = rnd.choice(['', '- desc', 'some words here', '- it works: really', "-quote's"])
        if name:
            txt += ' ' + name
        d = ln['d']
        if d == 'skip':
            txt += rnd.choice([' # SKIP', ' # skip not today', '# Skipped: reason', ' #SKIP', '  #  sKiP x'])
        elif d == 'todo':
            txt += rnd.choice([' # TODO', ' # todo later', '#ToDo', ' # TODO: fix # me'])
        else:
            txt += rnd.choice(['', '', ' ', ' # just a note', ' # skipping is not a directive here'.replace('skipping', 'xskip')])
    elif k == 'plan':
        txt = '1..' + numeral(ln['a'], ln['z'])
        d = ln['d']
        if d == 'skip':
            txt += rnd.choice([' # SKIP', ' # skip everything', '# Skipped'])
        elif d == 'todo':
            txt += rnd.choice([' # TODO', ' # todo not allowed here'])
        else:
            txt += rnd.choice(['', '', ' '])
    elif k == 'bail':
        txt = rnd.choice(['Bail out!', 'Bail out! the sky is falling', 'Bail out!   '])
    elif k == 'version':
        txt = 'TAP version ' + numeral(ln['a'], ln['z'])
    elif k == 'ystart':
        txt = ' ' * ln['a'] + rnd.choice(['---', '--- ', '--- # yaml'])
    elif k == 'yend':
        txt = ' ' * ln['a'] + rnd.choice(['...', '... '])
    elif k == 'ibody':
        txt = ' ' * ln['a'] + rnd.choice(['message: "hello"', 'ok 1 - indented test', '- item', 'severity: fail', '1..3',
                                           '# Subtest: nested', 'not ok 2 - nested # TODO', 'pragma +strict',
                                           'Bail out! nested', 'TAP version 14'])
    elif k == 'comment':
        txt = rnd.choice(['# diagnostic', '#', '# ok 1 not a test', '#not ok', '# Subtest: nested', '# pragma +strict',
                          '# 1..0', '#Bail out!'])
    elif k == 'blank':
        txt = ''
    elif k == 'unknown':
        txt = rnd.choice(['garbage', 'Not TAP at all', '1..x', 'OK 1', 'TAP Version 13', 'bail out!', 'test 1 ok',
                          'pragma +strict', 'pragma -strict', 'Subtest: x', '2..3', '1...2', 'TAP version x'])
    else:
        raise MachineryError('unknown abstract line ' + repr(ln))
    return txt + rnd.choice(['\n', '\n', '\n', '\r\n']), name.strip()


# ---------------------------------------------------------------------------
# projection of real events

def _ev(k: str, n: int = 0, r: str = '', f: int = 0) -> T.Dict[str, T.Any]:
    return {'k': k, 'n': n, 'r': r, 'f': f}


def project(ev: T.Any, mt: T.Any, expect_name: str, lineno: int) -> T.Dict[str, T.Any]:
    P = mt.TAPParser
    if isinstance(ev, P.Test):
        f = 0 if ev.name == expect_name else 1
        return _ev('test', code_of(ev.number), ev.result.name, f)
    if isinstance(ev, P.Plan):
        return _ev('plan', code_of(ev.num_tests), '', 2 * int(bool(ev.late)) + int(bool(ev.skipped)))
    if isinstance(ev, P.Bailout):
        return _ev('bail')
    if isinstance(ev, P.Version):
        return _ev('version', code_of(ev.version))
    if isinstance(ev, P.Error):
        return _ev('error')
    if isinstance(ev, P.UnknownLine):
        return _ev('unknown', 0, '', 0 if ev.lineno == lineno else 1)
    return _ev('alien:' + type(ev).__name__)


def run_parser(mt: T.Any, lines: T.List[T.Dict[str, T.Any]], rnd: random.Random) -> T.Dict[str, T.Any]:
    """Drive the real parser line by line; returns the trace case (without id)."""
    p = mt.TAPParser()
    evs = []
    texts = []
    raised = False
    for idx, ln in enumerate(lines):
        txt, name = render(ln, rnd)
        texts.append(txt)
        try:
            got = list(p.parse_line(txt))
        except Exception as e:  # property: no input makes the parser raise
            evs.append([_ev('raised', 0, type(e).__name__)])
            raised = True
            break
        evs.append([project(e, mt, name, idx + 1) for e in got])
    else:
        try:
            evs.append([project(e, mt, '', 0) for e in p.parse_line(None)])
        except Exception as e:
            evs.append([_ev('raised', 0, type(e).__name__)])
            raised = True
    return {'s': lines, 'ev': evs, 'vs': [], 'text': texts, 'raised': raised}


class _StubHarness:
    def log_subtest(self, *a: T.Any, **k: T.Any) -> None:
        pass


_TS: T.Any = None
_LOOP: T.Optional[asyncio.AbstractEventLoop] = None


def classify(mt: T.Any, res: T.Any) -> str:
    if res.is_bad():
        return 'BAD'
    if res is mt.TestResult.SKIP:
        return 'SKIP'
    if res is mt.TestResult.OK:
        return 'OK'
    return 'OTHER:' + res.name


def run_testrun(mt: T.Any, texts: T.List[str], exitcode: int) -> str:
    """Whole-test classification through the real TestRunTAP (parse + complete)."""
    global _TS, _LOOP
    if _TS is None:
        from mesonbuild.backend.backends import TestSerialisation, TestProtocol
        from mesonbuild.utils.core import EnvironmentVariables
        _TS = TestSerialisation('t', 'p', ['s'], ['/bin/true'], False, None, False, True, [], EnvironmentVariables(),
                                False, None, 30, None, [], TestProtocol.TAP, 0, False, False, [], '1.0', False, '/bin/true')
    if _LOOP is None:
        _LOOP = asyncio.new_event_loop()
    run = mt.TestRun(_TS, {}, 't', 30, True, False, False)
    run.start(['/bin/true'])

    async def lines() -> T.AsyncIterator[str]:
        for t in texts:
            yield t

    _LOOP.run_until_complete(run.parse(_StubHarness(), lines()))
    run.returncode = exitcode
    run.complete()
    return classify(mt, run.res)


def verdicts(mt: T.Any, case: T.Dict[str, T.Any], exits: T.Sequence[int]) -> None:
    """Fill case['vs'] with the whole-test classification for each exit status (a fresh TestRunTAP each)."""
    if case['raised']:
        return
    for x in exits:
        try:
            case['vs'].append({'x': x, 'c': run_testrun(mt, case['text'], x), 'r': ''})
        except Exception as e:
            case['vs'].append({'x': x, 'c': 'raised', 'r': type(e).__name__})


def _exits_for(rnd: random.Random, exits: T.Sequence[int], how: str) -> T.Sequence[int]:
    if how == 'all':
        return exits
    if how == 'two':
        return [0, rnd.choice([x for x in exits if x != 0])]
    return []


# ---------------------------------------------------------------------------

def _worker_enum(args: T.Tuple[str, T.List[T.Dict[str, T.Any]], int, int, int, int, T.List[int], str]) -> T.List[T.Dict[str, T.Any]]:
    tag, alphabet, n, lo, hi, sd, exits, how = args
    common.use_repo_meson()
    from mesonbuild import mtest as mt
    out = []
    k = len(alphabet)
    for code in range(lo, hi):
        idxs = []
        c = code
        for _ in range(n):
            idxs.append(c % k)
            c //= k
        lines = [alphabet[j] for j in idxs]
        rnd = random.Random(sd * 1000003 + code * 7 + n + (0 if tag == 'A' else 104729))
        case = run_parser(mt, lines, rnd)
        case['id'] = f'{tag}{n}:{code}'
        verdicts(mt, case, _exits_for(rnd, exits, how))
        out.append(case)
    return out


def _L(k: str, a: int = 0, n: int = 0, d: str = 'none', z: int = 0) -> T.Dict[str, T.Any]:
    return {'k': k, 'a': a, 'n': n, 'd': d, 'z': z}


def _rand_stream(rnd: random.Random) -> T.List[T.Dict[str, T.Any]]:
    n = rnd.randint(3, 40)
    lines: T.List[T.Dict[str, T.Any]] = []
    # magnitude of the numbers of this stream: mostly small; else everything sits around one big base, so that the
    # plan / number / count comparisons happen at that magnitude; now and then one stray number of another class
    big = rnd.random() < 0.3
    base = P(rnd.choice([1, 2, 3, 4, 5, 5, 6]), rnd.choice([0, 0, -1, -2, 1])) if big else 0

    def stray() -> int:
        return P(rnd.choice([1, 2, 3, 4, 5, 6]), rnd.choice([-1, 0, 0, 1]))

    def width(code: int) -> int:
        r = rnd.random()
        if r < 0.9:
            return 0
        if r < 0.95:
            return rnd.choice([1, 2, 3, 5])
        return rnd.choice([4300, 4301, 5000]) if num_class(code)[0] <= 3 else 0

    if rnd.random() < 0.6:
        v = rnd.choice([12, 13, 13, 13, 14])
        if rnd.random() < 0.08:
            v = rnd.choice([0, 1, stray()])
        lines.append(_L('version', v, z=width(v)))
    planned = rnd.random() < 0.5
    ntests = rnd.randint(0, 12)
    if planned:
        a = max(0, base + ntests + rnd.choice([0, 0, 0, 0, -1, 1]))
        lines.append(_L('plan', a, d=rnd.choice(['none'] * 6 + ['skip', 'todo']), z=width(a)))
    num = base
    while len(lines) < n:
        r = rnd.random()
        if r < 0.55:
            num += 1
            explicit = rnd.random() < 0.6
            nn = num if rnd.random() < 0.9 else base + rnd.randint(0 if base else 1, 15)
            if rnd.random() < 0.03:
                nn = stray()
            z = width(nn) if explicit else 0
            if explicit and nn == 0 and z == 0:
                z = 1            # an explicit `0`
            lines.append(_L('test', rnd.choice([1, 1, 1, 0]), nn if explicit else 0, rnd.choice(['none'] * 5 + ['skip', 'todo']), z))
            if explicit:
                num = nn
            if rnd.random() < 0.3:
                ind = rnd.choice([1, 2])
                lines.append(_L('ystart', ind))
                for _ in range(rnd.randint(0, 3)):
                    kk = rnd.choice(['ibody', 'ibody', 'ibody', 'ystart', 'blank', 'comment', 'unknown'])
                    lines.append(_L(kk, 0 if kk in ('blank', 'comment', 'unknown') else rnd.choice([1, 2, 2])))
                if rnd.random() < 0.8:
                    lines.append(_L('yend', 2))
        elif r < 0.65:
            lines.append(_L('comment'))
        elif r < 0.72:
            lines.append(_L('blank'))
        elif r < 0.78:
            lines.append(_L('unknown'))
        elif r < 0.83:
            lines.append(_L(rnd.choice(['ibody', 'ystart', 'yend']), 2))
        elif r < 0.88:
            a = base + rnd.randint(0, 14) if rnd.random() < 0.95 else stray()
            lines.append(_L('plan', a, d=rnd.choice(['none'] * 4 + ['skip', 'todo']), z=width(a)))
        elif r < 0.91:
            lines.append(_L('bail'))
        elif r < 0.94:
            lines.append(_L('version', rnd.choice([12, 13])))
        else:
            num += 1
            lines.append(_L('test', 1))
    if not planned and rnd.random() < 0.6:
        cnt = sum(1 for ln in lines if ln['k'] == 'test')
        a = max(0, (base if rnd.random() < 0.3 else 0) + cnt + rnd.choice([0, 0, 0, -1, 1]))
        lines.append(_L('plan', a, z=width(a)))
    return lines


def _skippy_stream(rnd: random.Random) -> T.List[T.Dict[str, T.Any]]:
    """Streams that amount to little: only skipped subtests, `1..0` plans, diagnostics - the classes in which the
    stream alone says SKIP and the exit status has the last word."""
    lines: T.List[T.Dict[str, T.Any]] = []
    if rnd.random() < 0.5:
        lines.append(_L('version', rnd.choice([13, 13, 14])))
    shape = rnd.choice(['allskip', 'allskip', 'plan0', 'plan0skip', 'diag', 'empty', 'oneok'])

    def noise() -> T.List[T.Dict[str, T.Any]]:
        return [_L(rnd.choice(['comment', 'blank', 'unknown', 'comment'])) for _ in range(rnd.randint(0, 2))]

    if shape == 'empty':
        return [] if rnd.random() < 0.5 else lines
    lines += noise()
    if shape in ('allskip', 'oneok'):
        cnt = rnd.randint(1, 6)
        early = rnd.random() < 0.5
        if early:
            lines.append(_L('plan', cnt))
        odd = rnd.randrange(cnt) if shape == 'oneok' else -1
        v13 = bool(lines) and lines[0]['k'] == 'version'
        for j in range(cnt):
            lines.append(_L('test', 1, (j + 1) if rnd.random() < 0.7 else 0, 'none' if j == odd else 'skip'))
            if v13 and rnd.random() < 0.2:
                lines += [_L('ystart', 2), _L('ibody', 2), _L('yend', 2)]
            lines += noise()
        if not early and rnd.random() < 0.7:
            lines.append(_L('plan', cnt))
    elif shape in ('plan0', 'plan0skip'):
        lines.append(_L('plan', 0, d='skip' if shape == 'plan0skip' else 'none', z=rnd.choice([0, 0, 0, 2])))
        lines += noise()
    return lines


def _worker_rand(args: T.Tuple[int, int, int, T.List[int]]) -> T.List[T.Dict[str, T.Any]]:
    lo, hi, sd, exits = args
    common.use_repo_meson()
    from mesonbuild import mtest as mt
    out = []
    for j in range(lo, hi):
        rnd = random.Random(sd * 7919 + j)
        lines = _skippy_stream(rnd) if j % 5 == 4 else _rand_stream(rnd)
        case = run_parser(mt, lines, rnd)
        case['id'] = f'B:{j}'
        verdicts(mt, case, exits)
        out.append(case)
    return out


def _worker_fuzz(args: T.Tuple[int, int, int]) -> T.List[str]:
    lo, hi, sd = args
    common.use_repo_meson()
    from mesonbuild import mtest as mt
    # (numerals beyond CPython's conversion limit are the business of the structured generators above, where the
    # position of the numeral is known to the specification)
    frags = ['ok', 'not ok', ' ', '1', '..', '#', 'SKIP', 'TODO', 'Bail out!', 'TAP version ', '13', '---', '...', '\t',
             '\x00', 'é', '  ', '9999999999999999999999', 'skip', '\r', '- ', 'x', '1..', '\\', '\x0c', '\x1f', ' ',
             '0', '00000000000000000000', 'pragma +', '# Subtest: ', '    ', '٣', '１', '-1', '+1', '1e3', '0x1f']
    bad = []
    for j in range(lo, hi):
        rnd = random.Random(sd * 31337 + j)
        lines = [''.join(rnd.choice(frags) for _ in range(rnd.randint(0, 8))) + rnd.choice(['\n', '', '\r\n'])
                 for _ in range(rnd.randint(0, 12))]
        try:
            evs = list(mt.TAPParser().parse(iter(lines)))
            for e in evs:
                if not isinstance(e, (mt.TAPParser.Test, mt.TAPParser.Plan, mt.TAPParser.Bailout, mt.TAPParser.Version,
                                      mt.TAPParser.Error, mt.TAPParser.UnknownLine)):
                    bad.append(json.dumps({'lines': lines, 'alien': repr(e)}))
        except Exception as e:
            bad.append(json.dumps({'lines': lines, 'raised': type(e).__name__ + ': ' + str(e)}))
    return bad


# ---------------------------------------------------------------------------
# the class witnesses x exit statuses as real tests run by `meson test`

_RUN_SH = """#!/bin/sh
# usage: run.sh <file with the TAP stream> <exit status; negative = die of the signal named by $3>
ulimit -c 0 2>/dev/null
cat "$1"
if [ "$2" -lt 0 ]; then
    kill -s "$3" $$
    sleep 5
fi
exit "$2"
"""
_SIGNAMES = {-6: 'ABRT', -9: 'KILL', -11: 'SEGV', -15: 'TERM'}


def run_cli(seed: int, witnesses: T.List[T.Dict[str, T.Any]], exits: T.List[int]) -> T.Tuple[T.List[T.Dict[str, T.Any]], int, int]:
    """One language-less project, one protocol:'tap' test per (witness stream, exit status); the classification
    of every test is read from meson-logs/testlog.json.  Returns (cases, number of tests, exit status of meson test)."""
    common.use_repo_meson()
    from mesonbuild import mtest as mt
    cases = []
    with scratch('c18cli-') as d:
        src = d / 'src'
        bld = d / 'bld'
        src.mkdir()
        (src / 'run.sh').write_text(_RUN_SH)
        mb = ["project('tapverdict')", "sh = find_program('/bin/sh')"]
        rnd = random.Random(seed * 65537 + 18)
        names: T.Dict[str, T.Tuple[T.Dict[str, T.Any], int]] = {}
        for wi, w in enumerate(witnesses):
            case = run_parser(mt, w['s'], rnd)
            case['id'] = f"M:{w['cls']}:{wi}"
            (src / f'w{wi}.tap').write_text(''.join(case['text']))
            for x in exits:
                if x < 0 and x not in _SIGNAMES:
                    raise MachineryError(f'no signal name for exit status {x} of the model')
                name = f'w{wi}x{x}'.replace('-', 'm')
                names[name] = (case, x)
                mb.append(f"test('{name}', sh, args: [meson.current_source_dir() / 'run.sh', "
                          f"meson.current_source_dir() / 'w{wi}.tap', '{x}', '{_SIGNAMES.get(x, 'none')}'], "
                          f"protocol: 'tap', timeout: 600)")
            cases.append(case)
        (src / 'meson.build').write_text('\n'.join(mb) + '\n')
        env = dict(os.environ, PYTHONDONTWRITEBYTECODE='1', MESON_TESTTHREADS=str(min(32, 2 * common.NCPU)))
        meson = [common.PYTHON, str(common.REPO / 'meson.py')]
        p = subprocess.run(meson + ['setup', '--backend=none', str(bld), str(src)], env=env, stdout=subprocess.PIPE,
                           stderr=subprocess.STDOUT, text=True, timeout=900)
        if p.returncode != 0:
            raise MachineryError('meson setup of the TAP verdict project failed:\n' + p.stdout[-1500:])
        p = subprocess.run(meson + ['test', '-C', str(bld), '--no-rebuild'], env=env, stdout=subprocess.PIPE,
                           stderr=subprocess.STDOUT, text=True, timeout=1800)
        log = bld / 'meson-logs' / 'testlog.json'
        if not log.exists():
            raise MachineryError('meson test wrote no testlog.json:\n' + p.stdout[-1500:])
        seen = set()
        for line in log.read_text().splitlines():
            rec = json.loads(line)
            name = rec['name'].split()[-1].split(':')[-1]
            if name not in names:
                raise MachineryError('unexpected test in testlog.json: ' + rec['name'])
            case, x = names[name]
            if rec.get('returncode') != x:
                # the environment model (how run.sh produces an exit status) disagrees: not a verdict on meson
                raise MachineryError(f"test {name}: program was to exit with {x}, testlog.json has {rec.get('returncode')}")
            res = rec['result']
            cls = 'BAD' if res in ('FAIL', 'ERROR', 'TIMEOUT', 'INTERRUPT', 'UNEXPECTEDPASS') else res
            case['vs'].append({'x': x, 'c': cls, 'r': ''})
            seen.add(name)
        if seen != set(names):
            raise MachineryError(f'testlog.json lacks {len(set(names) - seen)} of {len(names)} tests:\n' + p.stdout[-1500:])
        return cases, len(names), p.returncode


# ---------------------------------------------------------------------------

def judge(chk: Check, cases: T.List[T.Dict[str, T.Any]], label: str) -> None:
    """Validate recorded executions against the spec with TLC (TraceTAP)."""
    by_id = {c['id']: c for c in cases}
    # batches are bounded by the size of the JSON text (every TLC worker parses the whole file; a 124 MB batch of
    # long random streams made the JSON module fail under memory pressure), not only by the number of cases
    batches: T.List[T.Tuple[T.List[T.Dict[str, T.Any]], str]] = []
    cur: T.List[T.Dict[str, T.Any]] = []
    cur_txt: T.List[str] = []
    cur_size = 0
    for c in cases:
        t = json.dumps({k: c[k] for k in ('id', 's', 'ev', 'vs')}, separators=(',', ':'))
        if cur and (cur_size + len(t) > 24_000_000 or len(cur) >= 150000):
            batches.append((cur, '[' + ','.join(cur_txt) + ']'))
            cur, cur_txt, cur_size = [], [], 0
        cur.append(c)
        cur_txt.append(t)
        cur_size += len(t) + 1
    if cur:
        batches.append((cur, '[' + ','.join(cur_txt) + ']'))
    for part_no, (part, text) in enumerate(batches):
        with scratch('c18-') as d:
            tf = d / 'cases.json'
            tf.write_text(text)
            res = run_tlc(SPECS / 'tap', 'TraceTAP', env={'TRACE_FILE': str(tf)}, timeout=3600, heap='8g')
            bad = res.json_lines()
            if not res.clean:
                raise MachineryError('TraceTAP did not complete cleanly:\n' + res.stdout[-1500:])
            if res.distinct != 2 * len(part):
                raise MachineryError(f'TraceTAP judged {res.distinct // 2} of {len(part)} cases')
            if bad:
                # re-run single-threaded so that the report is not interleaved
                res1 = run_tlc(SPECS / 'tap', 'TraceTAP', env={'TRACE_FILE': str(tf)}, timeout=3600, workers=1, heap='8g')
                bad = res1.json_lines()
        chk.add_tlc(f'TraceTAP[{label}#{part_no}]', res, model=False)
        chk.traces += len(part)
        _PHASES[f'judge[{label}#{part_no}]'] = round(res.wall, 1)
        for v in bad:
            c = by_id.get(v['id'], {})
            sig = signature(c, v)
            chk.violation(sig, {'verdict': v, 'abstract_lines': c.get('s'), 'text': c.get('text'),
                                'events_observed': c.get('ev'), 'verdicts_observed': c.get('vs')})


def line_sig(ln: T.Dict[str, T.Any]) -> str:
    if ln['k'] == 'test':
        return f"test/{ln['a']}/{show_num(ln['n'], ln['z'])}/{ln['d']}"
    if ln['k'] in ('plan', 'version'):
        return f"{ln['k']}/{show_num(ln['a'], ln['z'])}/{ln['n']}/{ln['d']}"
    return f"{ln['k']}/{ln['a']}/{ln['n']}/{ln['d']}"


def signature(c: T.Dict[str, T.Any], v: T.Dict[str, T.Any]) -> str:
    """Stable signature.  The parser raised: the exception, the kind of line it raised on and whether the number
    it had to convert is within CPython's limit - not the stream (every stream with such a line raises).  Else:
    clause (+ exit status for the verdict) + abstract stream up to the failing line."""
    if v.get('clause') == 'NoRaise':
        exc = ''
        for e in v.get('got') or []:
            if e.get('k') == 'raised':
                exc = e.get('r', '')
        return f"NoRaise:{exc}@{v.get('what')}"
    lines = c.get('s', [])
    upto = v.get('line') or len(lines)
    short = ';'.join(line_sig(ln) for ln in lines[:upto])
    clause = v.get('clause')
    if clause == 'Verdict':
        clause = f"Verdict/exit{v.get('x')}"
    return f"{clause}@{short}"


_PHASES: T.Dict[str, float] = {}


def _mc_cfg(n: int, profile: str) -> str:
    return ('SPECIFICATION Spec\nCONSTANTS MaxLen = %d\n MaxNum = 3\n MaxPlan = 2\n Profile = "%s"\n'
            'INVARIANT OperationalEqualsDeclarative\nINVARIANT RunIsIncremental\nINVARIANT OneSubtestPerTestLine\n'
            'INVARIANT BadStaysBad\nINVARIANT VerdictOverExitDomain\n%sINVARIANT TypeOK\nCHECK_DEADLOCK FALSE\n'
            'POSTCONDITION Export\n' % (n, profile, 'INVARIANT UnrepresentableIsIgnored\n' if profile == 'numbers' else ''))


def main(chk: Check) -> None:
    quick = chk.tier == 'quick'
    n_mc = 3 if quick else 4
    n_impl = 3 if quick else 4
    n_num = 2 if quick else 3
    n_rand = 3000 if quick else 60000
    n_fuzz = 5000 if quick else 200000
    chk.rule = ('A: every stream of <= N abstract TAP lines over the alphabet exported by the TLC model (44 line forms), '
                'each rendered to concrete text with a seeded choice of spelling; N: every stream of <= M lines over the '
                'number alphabet (51 line forms: numbers of every magnitude class in test-number, plan and version '
                'position); B: seeded random streams of 3-40 lines; whole-test verdict through TestRunTAP for every exit '
                'status of the model\'s ExitDomain (A <= 2 lines, B, witnesses; two statuses for the rest) and through '
                '`meson test` for the class witnesses x ExitDomain; fuzz: arbitrary text must not raise. Non-trivial = the '
                'expected events contain at least one error, bail-out, plan or YAML transition (distinct abstract streams).')
    t0 = time.time()
    with ThreadPoolExecutor(max_workers=2) as tex:
        f1 = tex.submit(run_tlc, SPECS / 'tap', 'TAP_MC', cfg_text=_mc_cfg(n_mc, 'lines'),
                        collect=['alphabet.json', 'exits.json', 'witnesses.json'], timeout=3600, allow_violation=False,
                        heap='4g' if quick else '8g')
        f2 = tex.submit(run_tlc, SPECS / 'tap', 'TAP_MC', cfg_text=_mc_cfg(n_num, 'numbers'),
                        collect=['alphabet.json'], timeout=3600, allow_violation=False, heap='3g' if quick else '6g')
        res = f1.result()
        res2 = f2.result()
    _PHASES['model'] = round(time.time() - t0, 1)
    chk.add_tlc(f'TAP_MC[lines,MaxLen={n_mc}]', res)
    chk.add_tlc(f'TAP_MC[numbers,MaxLen={n_num}]', res2)
    alphabet = json.loads(res.collected['alphabet.json'])
    numbers = json.loads(res2.collected['alphabet.json'])
    exits = sorted(json.loads(res.collected['exits.json']), key=lambda x: (x != 0, abs(x), x))
    witnesses = json.loads(res.collected['witnesses.json'])
    for w in witnesses:
        w['s'] = list(w['s'])
    if 0 not in exits or not {77, 99, 1} <= set(exits) or not any(x < 0 for x in exits):
        raise MachineryError('ExitDomain of the model lacks 0 / 1 / 77 / 99 / a signal: ' + repr(exits))
    chk.extra['alphabet_size'] = len(alphabet)
    chk.extra['number_alphabet_size'] = len(numbers)
    chk.extra['exit_domain'] = exits
    chk.extra['class_witnesses'] = len(witnesses)
    chk.extra['model_bound_lines'] = n_mc
    chk.extra['impl_exhaustive_bound_lines'] = n_impl
    chk.extra['number_streams_bound_lines'] = n_num

    with ProcessPoolExecutor(max_workers=common.NCPU) as ex:
        # the `meson test` sample runs beside the in-process work (as a job of the pool: no thread may be alive in
        # this process while the pool forks its workers)
        if True:
            t0 = time.time()
            fcli = ex.submit(run_cli, chk.seed, witnesses, exits)
            # (A) exhaustive streams through the real parser; the verdict for every exit status up to 2 lines
            for tag, alpha, bound in (('A', alphabet, n_impl), ('N', numbers, n_num)):
                k = len(alpha)
                for n in range(0, bound + 1):
                    t1 = time.time()
                    total = k ** n
                    how = 'all' if (n <= 2 and tag == 'A') else 'two'
                    step = max(1, min(20000, total // (common.NCPU * 2) + 1))
                    jobs = [(tag, alpha, n, lo, min(total, lo + step), chk.seed, exits, how) for lo in range(0, total, step)]
                    cases: T.List[T.Dict[str, T.Any]] = []
                    for part in ex.map(_worker_enum, jobs):
                        cases.extend(part)
                        if len(cases) >= 300000:
                            _account(chk, cases)
                            judge(chk, cases, f'{tag}{n}')
                            cases = []
                    if cases:
                        _account(chk, cases)
                        judge(chk, cases, f'{tag}{n}')
                    _PHASES[f'{tag}{n}'] = round(time.time() - t1, 1)
            # (B) random streams + verdict for every exit status
            t1 = time.time()
            step = max(1, n_rand // (common.NCPU * 2))
            jobs3 = [(lo, min(n_rand, lo + step), chk.seed, exits) for lo in range(0, n_rand, step)]
            cases = []
            for part in ex.map(_worker_rand, jobs3):
                cases.extend(part)
            _account(chk, cases)
            judge(chk, cases, 'B')
            _PHASES['B'] = round(time.time() - t1, 1)
            # the class witnesses: in-process for every exit status, and what `meson test` reported
            t1 = time.time()
            common.use_repo_meson()
            from mesonbuild import mtest as mt
            rnd = random.Random(chk.seed * 4099 + 5)
            wcases = []
            for wi, w in enumerate(witnesses):
                case = run_parser(mt, w['s'], rnd)
                case['id'] = f"W:{w['cls']}:{wi}"
                verdicts(mt, case, exits)
                wcases.append(case)
            mcases, ncli, cli_exit = fcli.result()
            _PHASES['cli_done_after'] = round(time.time() - t0, 1)
            chk.extra['cli_tests'] = ncli
            chk.extra['cli_meson_test_exit'] = cli_exit
            _account(chk, wcases + mcases)
            judge(chk, wcases + mcases, 'W')
            chk.extra['verdict_product'] = {'in_process': sum(len(c['vs']) for c in wcases),
                                            'meson_test': sum(len(c['vs']) for c in mcases)}
            _PHASES['W'] = round(time.time() - t1, 1)
        # fuzz: no exception, only known event types
        t1 = time.time()
        step = max(1, n_fuzz // (common.NCPU * 2))
        for bad in ex.map(_worker_fuzz, [(lo, min(n_fuzz, lo + step), chk.seed) for lo in range(0, n_fuzz, step)]):
            for b in bad:
                chk.violation('raise@' + b[:200], json.loads(b))
        chk.evaluations += n_fuzz
        _PHASES['fuzz'] = round(time.time() - t1, 1)
    chk.extra['phase_seconds'] = dict(_PHASES)
    chk.exhaustive = True
    chk.assumptions += [
        'abstract line alphabet: indentation levels 1 and 2 only; descriptions never contain "#" before the directive',
        'error events are compared by presence and count per line, never by message text',
        'TAP 14 subtests (indented streams, "# Subtest:") and pragmas: neither Unit-tests.md nor unittests/taptests.py says '
        'what meson does with them beyond "a line that is no TAP 13 syntax is an unknown line, a # line is a diagnostic"; '
        'they are generated only as spellings of those two classes (indented lines, "pragma +strict", "# Subtest: x"), '
        'never as a nested stream with a verdict of its own',
        'the duplicate/missing-number rule is the end-of-stream rule "highest number differs from count"',
        'numerals longer than the interpreter can convert (CPython: 4300 digits, PYTHONINTMAXSTRDIGITS unset): the TAP '
        'specification is silent; the spec accepts either exact reading or "one error event, line otherwise ignored" '
        '(consistently for the whole stream), never an exception',
        '"okay" / "ok1" style lines (no blank after ok) are not generated: TAP leaves them open, meson reads them as test lines',
        'the exit status of `meson test` itself is recorded (extra.cli_meson_test_exit) but not judged; the per-test '
        'result of testlog.json is',
    ]


def _account(chk: Check, cases: T.List[T.Dict[str, T.Any]]) -> None:
    chk.evaluations += len(cases) + sum(len(c['vs']) for c in cases)
    for c in cases:
        flat = [e for g in c['ev'] for e in g]
        if any(e['k'] in ('error', 'bail', 'plan') for e in flat) or any(ln['k'] in ('ystart', 'yend') for ln in c['s']):
            chk.nontriv(';'.join(f"{ln['k']}{ln['a']}{ln['n']}{ln['d']}{ln['z'] or ''}" for ln in c['s']))
    for c in cases[:: max(1, len(cases) // 3)][:3]:
        chk.sample({'id': c['id'], 'text': [x if len(x) < 200 else x[:60] + f'...({len(x)} chars)' for x in c['text']],
                    'events': c['ev'], 'verdicts': c['vs']}, limit=9)


def replay(chk: Check, data: T.Dict[str, T.Any]) -> None:
    """Re-run the recorded concrete text through the current parser and judge it again."""
    common.use_repo_meson()
    from mesonbuild import mtest as mt
    det = data['detail']
    if 'text' not in det:
        list(mt.TAPParser().parse(iter(det['lines'])))
        return
    p = mt.TAPParser()
    evs = []
    raised = False
    for idx, txt in enumerate(list(det['text']) + [None]):
        try:
            evs.append([project(e, mt, '', idx + 1 if txt is not None else 0) for e in p.parse_line(txt)])
        except Exception as e:
            evs.append([_ev('raised', 0, type(e).__name__)])
            raised = True
            break
    for g in evs:
        for e in g:
            if e['k'] == 'test':
                e['f'] = 0
    case = {'id': 'replay', 's': det['abstract_lines'], 'ev': evs, 'vs': [], 'text': det['text'], 'raised': raised}
    verdicts(mt, case, [v['x'] for v in det.get('verdicts_observed') or []])
    judge(chk, [case], 'replay')


if __name__ == '__main__':
    sys.exit(common.run_check(main, PROP, replay=replay))
