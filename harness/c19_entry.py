"""C19 helper: the ENTRY POINTS through which version constraints are evaluated (specs/version/VersionEntry.tla).

Only drives the real code and renders abstract inputs; every verdict is TLC's (TraceVersion, case kind "entry").

* ``alphabet_around(own, rnd, per_class)`` - version texts below / equal to / above a receiver version; the classes are
  *claims* that TLC checks (VersionEntry_MC: ClassesAsClaimed; TraceVersion: generator-class).
* ``Driver`` - one per worker process: asks an entry point of the real interpreter one question
  (receiver version, constraint list) -> bool.
* ``cli_entries`` - the same questions inside one generated project configured by ``meson setup``.
"""
from __future__ import annotations

import contextlib
import io
import itertools
import os
import random
import re
import subprocess
import typing as T

from . import common
from .common import MachineryError, scratch

cp = common.codepoints

# entry points that can be asked in-process / only through a configured project
INPROC = ['str', 'meson', 'many', 'dep', 'depver', 'pkg', 'cfgtool', 'prog', 'subproject', 'subproject2', 'project']
SPELLINGS = ['>=', '<=', '>', '<', '==', '=', '!=', '']

TOK = re.compile(r'[0-9]+|[A-Za-z]+')
SEPS_ANY = ['.', '.', '.', '-', '_', '+', '~', ':', ' ', '..', '/']
SEPS_SAFE = ['.', '.', '.', '-', '_', '+', '~', ':']     # no blanks: pkg-config files, program output


def parts_of(v: str) -> T.List[str]:
    return TOK.findall(v)


def join_parts(parts: T.List[str], rnd: T.Optional[random.Random], seps: T.List[str] = SEPS_ANY) -> str:
    out = ''
    for n, p in enumerate(parts):
        if n:
            glue = rnd is not None and (parts[n - 1][-1].isdigit() != p[0].isdigit()) and rnd.random() < 0.3
            out += '' if glue else ('.' if rnd is None else rnd.choice(seps))
        out += p
    return out


def _below(parts: T.List[str]) -> T.List[T.List[str]]:
    out: T.List[T.List[str]] = []
    if not parts:
        return out
    head, last = parts[:-1], parts[-1]
    out.append(head)                                     # a proper prefix
    if last.isdigit():
        if int(last) > 0:
            out.append(head + [str(int(last) - 1)])
            out.append(head + [str(int(last) - 1), '99'])
        out.append(head + ['rc'])                        # letters rank below numbers
        out.append(head + ['rc', '1'])
    else:
        if len(last) > 1:
            out.append(head + [last[:-1]])               # a proper prefix of the letters
        if last[0] > 'A':
            out.append(head + ['A'])
    if parts[0].isdigit() and int(parts[0]) > 0 and len(parts) > 1:
        out.append([str(int(parts[0]) - 1), '999'])
    return out


def _above(parts: T.List[str]) -> T.List[T.List[str]]:
    out = [parts + ['0'], parts + ['a']]
    if parts:
        head, last = parts[:-1], parts[-1]
        if last.isdigit():
            out.append(head + [str(int(last) + 1)])
            out.append(head + [str(int(last) + 1), 'rc'])
        else:
            out.append(head + ['0'])                     # numbers rank above letters
            out.append(head + [last + 'a'])
        if parts[0].isdigit():
            out.append([str(int(parts[0]) + 1)])
            out.append([str(int(parts[0]) + 1), '0', '0'])
        else:
            out.append(['0'])
    return out


def _same(own: str, parts: T.List[str], rnd: random.Random) -> T.List[str]:
    out = [own.strip() or own]
    for _ in range(6):
        ps = [('0' * rnd.randint(1, 2) + p) if (p.isdigit() and rnd.random() < 0.4) else p for p in parts]
        t = join_parts(ps, rnd)
        if rnd.random() < 0.25:
            t = rnd.choice([' ', '.', '-']) + t
        if rnd.random() < 0.25:
            t += rnd.choice([' ', '.', '+'])
        out.append(t)
    return out


def alphabet_around(own: str, rnd: random.Random, per_class: int) -> T.Dict[str, T.Any]:
    """Texts claimed to be below / equal to / above `own` (TLC verifies the claims)."""
    parts = parts_of(own)

    def pick(cands: T.List[str]) -> T.List[str]:
        uniq: T.List[str] = []
        for c in cands:
            if c not in uniq and (not c or c[0] not in '<>=!') and "'" not in c and '\\' not in c:
                uniq.append(c)
        rnd.shuffle(uniq)
        return uniq[:per_class]
    below = pick([join_parts(p, rnd) for p in _below(parts)])
    above = pick([join_parts(p, rnd) for p in _above(parts)])
    same = pick(_same(own, parts, rnd))
    taken: T.Set[str] = set()
    res: T.Dict[str, T.Any] = {'own': own}
    for name, lst in (('below', below), ('same', same), ('above', above)):
        res[name] = [t for t in lst if t not in taken]
        taken.update(res[name])
    return res


def alphabet_json(a: T.Dict[str, T.Any]) -> T.Dict[str, T.Any]:
    return {'own': cp(a['own']), 'below': [cp(t) for t in a['below']], 'same': [cp(t) for t in a['same']],
            'above': [cp(t) for t in a['above']]}


def symbols(a: T.Dict[str, T.Any]) -> T.List[T.Tuple[str, int]]:
    """The step alphabet of VersionEntry_MC: (constraint text, claimed class)."""
    out = []
    for cls, name in ((-1, 'below'), (0, 'same'), (1, 'above')):
        for t in a[name]:
            for sp in SPELLINGS:
                out.append((sp + t, cls))
    return out


def lists_over(syms: T.List[T.Tuple[str, int]], exhaustive_to: int, sampled: T.Dict[int, int], rnd: random.Random,
               min_len: int = 0) -> T.List[T.List[T.Tuple[str, int]]]:
    """All lists up to a length, plus seeded samples of longer ones."""
    out: T.List[T.List[T.Tuple[str, int]]] = []
    for n in range(min_len, exhaustive_to + 1):
        out.extend(list(x) for x in itertools.product(syms, repeat=n))
    for n, k in sorted(sampled.items()):
        if n > exhaustive_to and n >= min_len:
            out.extend([rnd.choice(syms) for _ in range(n)] for _ in range(k))
    return out


def receiver_ok(e: str, v: str) -> bool:
    """Receiver versions an entry point can carry unchanged (a restriction of the driver, not of the law)."""
    if "'" in v or '\\' in v or '\n' in v:
        return False
    if e in ('dep', 'depver', 'subproject', 'subproject2', 'pkg'):
        if not v.strip() or v == 'undefined' or v != v.strip():
            return False
    if e == 'pkg':
        return re.fullmatch(r'[0-9A-Za-z.\-_+~:]+', v) is not None
    if e in ('prog', 'cfgtool'):      # "only the first occurrence of numbers separated by dots is kept"
        return re.fullmatch(r'[0-9]+(\.[0-9]+)+', v) is not None
    return True


def make_case(e: str, v: str, lst: T.List[T.Tuple[str, int]], claim: bool = True, bare: bool = False) -> T.Dict[str, T.Any]:
    return {'k': 'entry', 'e': e, 'v': cp(v), 'cs': [cp(c) for c, _ in lst], 'pos': [p for _, p in lst] if claim else [],
            'bare': bool(bare and len(lst) == 1)}


# ---------------------------------------------------------------------------
# the real interpreter, in-process

def q(s: str) -> str:
    if "'" in s or '\\' in s or '\n' in s:
        raise MachineryError('string not representable in the generated meson code: ' + repr(s))
    return "'" + s + "'"


def arr(cs: T.List[str], bare: bool = False) -> str:
    if bare and len(cs) == 1:
        return q(cs[0])
    return '[' + ', '.join(q(c) for c in cs) + ']'


CFGTOOL = ('libgcrypt', 'libgcrypt-config')      # a dependency whose only probe is `<tool> --version`


def write_config_tool(path: str, v: str) -> None:
    with open(path + '.new', 'w', encoding='utf-8') as f:
        f.write(f'#!/bin/sh\ncase "$1" in --version) echo "{v}";; *) echo "";; esac\n')
    os.chmod(path + '.new', 0o755)
    os.replace(path + '.new', path)


class Driver:
    def __init__(self) -> None:
        from . import c19_version as base
        self.base = base
        self.intr = base.interpreter()
        common.use_repo_meson()
        from mesonbuild import mesonlib, coredata
        from mesonbuild.wrap.wrap import PackageDefinition
        from mesonbuild.interpreterbase import decorators
        self.feature_classes = [decorators.FeatureNew, decorators.FeatureDeprecated, decorators.FeatureBroken]
        self.mesonlib = mesonlib
        self.coredata = coredata
        self.PackageDefinition = PackageDefinition
        try:
            mesonlib.get_meson_command()
        except Exception:
            mesonlib.set_meson_command(str(common.REPO / 'meson.py'))
        self.src = self.intr.environment.source_dir
        self.top = os.path.dirname(self.src)
        self.pc = os.path.join(self.top, 'pc')
        self.bin = os.path.join(self.top, 'bin')
        os.makedirs(self.pc, exist_ok=True)
        os.makedirs(self.bin, exist_ok=True)
        os.makedirs(os.path.join(self.src, 'subprojects'), exist_ok=True)
        os.environ['PKG_CONFIG_LIBDIR'] = self.pc
        os.environ.pop('PKG_CONFIG_PATH', None)
        if self.bin not in os.environ.get('PATH', '').split(os.pathsep):
            os.environ['PATH'] = self.bin + os.pathsep + os.environ.get('PATH', '')
        self.n = 0
        self.deps: T.Dict[str, str] = {}
        self.progs: T.Dict[str, str] = {}
        self.subs: T.Dict[str, str] = {}
        self.singles: T.Dict[T.Tuple[str, str, str], bool] = {}

    # -- helpers
    def fresh(self, stem: str) -> str:
        self.n += 1
        return f'{stem}{self.n}'

    def run(self, code: str) -> T.Any:
        from mesonbuild import mparser
        intr = self.intr
        intr.variables.pop('x', None)
        ast = mparser.Parser(code, 'c19entry').parse()
        try:
            with contextlib.redirect_stderr(io.StringIO()), contextlib.redirect_stdout(io.StringIO()):
                intr.evaluate_codeblock(ast)
        finally:
            # the registries of the end-of-configuration feature report grow with every generated call site
            for fc in self.feature_classes:
                fc.feature_registry.clear()
        r = intr.variables['x']
        r = getattr(r, 'held_object', r)
        if not isinstance(r, bool):
            raise RuntimeError('the entry point did not answer with a bool: ' + repr(r))
        return r

    def subproject_dir(self, name: str, body: str) -> None:
        d = os.path.join(self.src, 'subprojects', name)
        os.makedirs(d)
        with open(os.path.join(d, 'meson.build'), 'w', encoding='utf-8') as f:
            f.write(body)
        r = self.intr.environment.wrap_resolver
        w = self.PackageDefinition.from_directory(d)      # what load_wraps() does for a directory found at start-up
        r.wraps[w.name] = w
        r.add_wrap(w)

    def dep_for(self, v: str) -> str:
        if v not in self.deps:
            name = self.fresh('c19dep')
            self.run(f"meson.override_dependency({q(name)}, declare_dependency(version: {q(v)}))\nx = true\n")
            self.deps[v] = name
        return self.deps[v]

    def prog_for(self, v: str) -> str:
        if v not in self.progs:
            name = 'c19prog' + 'abcdefghij'[len(self.progs) % 10] * (1 + len(self.progs) // 10)   # no digits in the name
            p = os.path.join(self.bin, name)
            with open(p, 'w', encoding='utf-8') as f:
                f.write(f'#!/bin/sh\necho "{name} version {v} (c19)"\n')
            os.chmod(p, 0o755)
            self.progs[v] = name
        return self.progs[v]

    def loaded_subproject(self, v: str) -> str:
        if v not in self.subs:
            name = self.fresh('c19sq')
            self.subproject_dir(name, f"project({q(name)}, version: {q(v)})\n")
            if not self.run(f"x = subproject({q(name)}).found()\n"):
                raise MachineryError('a trivial subproject was not found')
            self.subs[v] = name
        return self.subs[v]

    @contextlib.contextmanager
    def patched(self, obj: T.Any, attr: str, value: T.Any) -> T.Iterator[None]:
        old = getattr(obj, attr)
        setattr(obj, attr, value)
        try:
            yield
        finally:
            setattr(obj, attr, old)

    # -- the questions
    def ask(self, e: str, v: str, cs: T.List[str], bare: bool = False, form: int = 0) -> bool:
        args = ', '.join(q(c) for c in cs)
        if e == 'compiler':     # only met when a recorded `meson setup` case is replayed: a compiler version is a plain string
            e = 'str'
        if e == 'many':
            arg: T.Any = cs[0] if (bare and len(cs) == 1) else list(cs)
            return self.mesonlib.version_compare_many(v, arg)[0] is True
        if e in ('str', 'meson', 'depver'):
            recv = {'str': q(v), 'meson': 'meson.version()'}.get(e) or f"dependency({q(self.dep_for(v))}).version()"
            call = f"{recv}.version_compare({args})"
            code = [f"x = {call}\n",
                    f"x = false\nif {call}\n  x = true\nendif\n",
                    f"x = true\nif not {call}\n  x = false\nendif\n",
                    f"r = {recv}\nx = r.version_compare({args})\n"][form % 4]
            if e == 'meson':      # the version of the running meson is the receiver: an input of the question
                with self.patched(self.intr.coredata, 'version', v):
                    return self.run(code)
            return self.run(code)
        if e == 'dep':
            return self.run(f"x = dependency({q(self.dep_for(v))}, version: {arr(cs, bare)}, required: false).found()\n")
        if e == 'pkg':
            name = self.fresh('c19pkg')
            with open(os.path.join(self.pc, name + '.pc'), 'w', encoding='utf-8') as f:
                f.write(f'Name: {name}\nDescription: c19\nVersion: {v}\n')
            return self.run(f"x = dependency({q(name)}, method: 'pkg-config', version: {arr(cs, bare)}, required: false).found()\n")
        if e == 'cfgtool':      # a dependency answered by its <name>-config tool (found on PATH)
            write_config_tool(os.path.join(self.bin, CFGTOOL[1]), v)
            try:
                return self.run(f"x = dependency({q(CFGTOOL[0])}, method: 'config-tool', version: {arr(cs, bare)}, required: false).found()\n")
            finally:
                # the next question must not be answered from what this configuration remembers about the dependency
                self.intr.coredata.deps.host.clear()
                ov = self.intr.build.dependency_overrides.host
                for key in [k for k in ov if dict(k).get('name') == CFGTOOL[0]]:
                    del ov[key]
        if e == 'prog':
            return self.run(f"x = find_program({q(self.prog_for(v))}, dirs: [{q(self.bin)}], version: {arr(cs, bare)}, required: false).found()\n")
        if e == 'subproject':
            name = self.fresh('c19sp')
            self.subproject_dir(name, f"project({q(name)}, version: {q(v)})\n")
            return self.run(f"x = subproject({q(name)}, version: {arr(cs, bare)}, required: false).found()\n")
        if e == 'subproject2':      # a subproject that is already configured: the check is made again, and it raises
            name = self.loaded_subproject(v)
            try:
                return self.run(f"x = subproject({q(name)}, version: {arr(cs, bare)}, required: false).found()\n")
            except Exception as ex:
                if type(ex).__name__ == 'InterpreterException' and ' version is ' in str(ex) and ' required' in str(ex):
                    return False
                raise
        if e == 'project':
            name = self.fresh('c19mv')
            self.subproject_dir(name, f"project({q(name)}, meson_version: {q(cs[0])})\n")
            with self.patched(self.coredata, 'stable_version', v):
                return self.run(f"x = subproject({q(name)}, required: false).found()\n")
        raise MachineryError('unknown entry point ' + e)

    def execute(self, c: T.Dict[str, T.Any]) -> None:
        txt = self.base.txt
        e, v, cs = c['e'], txt(c['v']), [txt(x) for x in c['cs']]
        form = sum(len(x) for x in cs) + len(cs)
        c['got'] = self.ask(e, v, cs, bool(c.get('bare')), form)
        each: T.List[bool] = []
        if len(cs) > 1:
            for x in cs:
                key = (e, v, x)
                if key not in self.singles:
                    self.singles[key] = self.ask(e, v, [x], False, 0)
                each.append(self.singles[key])
        c['each'] = each


_DRIVER: T.Optional[Driver] = None


def driver() -> Driver:
    global _DRIVER
    if _DRIVER is None:
        _DRIVER = Driver()
    return _DRIVER


# ---------------------------------------------------------------------------
# case generation

OWN_POOL = ['0.64.1', '1.0.0', '1.0.0rc1', '2.0', '1.9.0', '0.99.99', '1.10', '10.1.0', '1.2.3', '0.10', '2024.1.15', '1.02.3',
            '3.0.0.0', '1.4.0']
ODD_POOL = ['1.0.0rc1', '1.2a', 'a.b', '1.0-beta.2', '2.0~git', '1_2_3', '0.46.0.rc1', '1.2.3-4', 'v1.5', '1.0+dev']


def receivers(e: str, rnd: random.Random, n: int, real: str, stable: str) -> T.List[str]:
    """Receiver versions for an entry point: the real one where the entry point has one, then seeded others."""
    first = {'meson': [real], 'project': [stable]}.get(e, [])
    pool = [v for v in OWN_POOL + ODD_POOL if receiver_ok(e, v) and v not in first]
    rnd.shuffle(pool)
    return (first + pool)[:max(n, len(first))]


def model_cases(rnd: random.Random, real: str, stable: str, quick: bool,
                alphabets: T.Dict[str, T.Dict[str, T.Any]]) -> T.List[T.Dict[str, T.Any]]:
    """(A) the step alphabet of VersionEntry_MC, rendered around each receiver, through every in-process entry point."""
    cases: T.List[T.Dict[str, T.Any]] = []
    for e in INPROC:
        heavy = e in ('pkg', 'prog', 'cfgtool')                      # these spawn a process per question
        for rno, v in enumerate(receivers(e, rnd, 2 if quick else 3, real, stable)):
            a = alphabets.get(v)
            if a is None:
                a = alphabets[v] = alphabet_around(v, rnd, 1)
            syms = symbols(a)
            wide = len(syms) > 24 and not (e == 'meson' and rno == 0)     # a model alphabet with several texts per class
            if e == 'project':
                lists = lists_over(syms, 1, {}, rnd, min_len=1)
            elif e == 'meson' and rno == 0:       # the real version of the meson under test: the alphabet of the model run
                lists = lists_over(syms, 2 if quick else 3, {3: 1500, 4: 600} if quick else {4: 10000}, rnd, min_len=1)
            elif quick:
                first = rno == 0 and not heavy and e != 'many'
                lists = lists_over(syms, 2 if (first or e == 'many') else 1,
                                   {} if e == 'many' else {3: 300, 4: 150} if first else {2: 150, 3: 100, 4: 50}, rnd,
                                   min_len=1 if e in ('str', 'meson', 'depver') else 0)
            else:
                deep = not heavy and not wide and rno == 0
                lists = lists_over(syms, 3 if deep else 2,
                                   {3: 800, 4: 800} if heavy else {4: 3000} if deep else {3: 6000, 4: 3000}, rnd,
                                   min_len=1 if e in ('str', 'meson', 'depver') else 0)
            for lst in lists:
                cases.append(make_case(e, v, lst, bare=rnd.random() < 0.5))
    return cases


# ---------------------------------------------------------------------------
# the same questions through `meson setup`

def cc_version_hint() -> str:
    for cmd in (['cc', '-dumpfullversion'], ['cc', '-dumpversion'], ['gcc', '-dumpfullversion']):
        try:
            out = subprocess.run(cmd, stdout=subprocess.PIPE, stderr=subprocess.DEVNULL, text=True, timeout=30).stdout.strip()
        except Exception:
            continue
        if re.fullmatch(r'[0-9]+(\.[0-9]+)*', out):
            return out
    return '12.2.0'


def cli_entries(rnd: random.Random, n: int, real: str, stable: str) -> T.List[T.Dict[str, T.Any]]:
    """One generated project asking every entry point (real receivers: the running meson, the C compiler, a pkg-config
    file, a program, subprojects); the receiver versions are read back from what meson reports."""
    with scratch('c19-cli-') as d:
        src, bld, pc, bindir = d / 's', d / 'b', d / 'pc', d / 'bin'
        for x in (src, pc, bindir, src / 'subprojects'):
            x.mkdir(parents=True)
        lines = ["project('c19entries', 'c', version: '1.0')",
                 "cc = meson.get_compiler('c')",
                 "message('C19V cc [@0@]'.format(cc.version()))",
                 "message('C19V meson [@0@]'.format(meson.version()))"]
        cases: T.List[T.Dict[str, T.Any]] = []
        recv_var: T.Dict[int, str] = {}        # case index -> name of the reported receiver, when meson decides it
        nsub = 0

        def add(e: str, v: str, lst: T.List[T.Tuple[str, int]], expr: str, claim: bool, reported: T.Optional[str] = None) -> None:
            i = len(cases)
            cases.append(make_case(e, v, lst, claim=claim))
            cases[-1]['each'] = []
            if reported:
                recv_var[i] = reported
            lines.append(f"message('C19E @0@ @1@'.format({i}, {expr}))")

        per = max(6, n // 10)
        # meson.version(), the compiler's version: receivers decided by the tools
        for e, hint, recv in (('meson', real, 'meson.version()'), ('compiler', cc_version_hint(), 'cc.version()')):
            syms = symbols(alphabet_around(hint, rnd, 2))
            for lst in lists_over(syms, 0, {1: per, 2: per * 2, 3: per * 2, 4: per}, rnd, min_len=1):
                args = ', '.join(q(c) for c, _ in lst)
                call = f"{recv}.version_compare({args})"
                add(e, hint, lst, call, claim=(e == 'meson'), reported='cc' if e == 'compiler' else 'meson')
        # receivers chosen by the project
        for e in ('str', 'dep', 'depver', 'pkg', 'cfgtool', 'prog', 'subproject', 'project'):
            for v in receivers(e, rnd, 2, real, stable):
                if e == 'project' and v != stable:
                    continue
                syms = symbols(alphabet_around(v, rnd, 2))
                name = f'c19x{len(cases)}'
                if e in ('dep', 'depver'):
                    lines.append(f"meson.override_dependency({q(name)}, declare_dependency(version: {q(v)}))")
                elif e == 'pkg':
                    (pc / (name + '.pc')).write_text(f'Name: {name}\nDescription: c19\nVersion: {v}\n')
                elif e == 'prog':
                    name = 'c19prog' + 'abcdefghij'[len(cases) % 10] + 'klmnopqrst'[(len(cases) // 10) % 10]
                    (bindir / name).write_text(f'#!/bin/sh\necho "{name} version {v} (c19)"\n')
                    (bindir / name).chmod(0o755)
                elif e == 'cfgtool':
                    if (bindir / CFGTOOL[1]).exists():       # one tool, one version per configuration
                        continue
                    write_config_tool(str(bindir / CFGTOOL[1]), v)
                sizes = {1: per // 2} if e == 'project' else {0: 1, 1: per // 2, 2: per, 3: per, 4: per // 2}
                for lst in lists_over(syms, -1, sizes, rnd, min_len=1 if e in ('str', 'depver', 'project') else 0):
                    cs = [c for c, _ in lst]
                    args = ', '.join(q(c) for c in cs)
                    if e == 'str':
                        expr = f"{q(v)}.version_compare({args})"
                    elif e == 'dep':
                        expr = f"dependency({q(name)}, version: {arr(cs)}, required: false).found()"
                    elif e == 'depver':
                        expr = f"dependency({q(name)}).version().version_compare({args})"
                    elif e == 'pkg':
                        expr = f"dependency({q(name)}, method: 'pkg-config', version: {arr(cs)}, required: false).found()"
                    elif e == 'cfgtool':
                        expr = f"dependency({q(CFGTOOL[0])}, method: 'config-tool', version: {arr(cs)}, required: false).found()"
                    elif e == 'prog':
                        expr = f"find_program({q(name)}, dirs: [{q(str(bindir))}], version: {arr(cs)}, required: false).found()"
                    else:
                        nsub += 1
                        sp = f'c19s{nsub}'
                        (src / 'subprojects' / sp).mkdir()
                        body = f"project({q(sp)}, version: {q(v)})\n" if e == 'subproject' else f"project({q(sp)}, meson_version: {q(cs[0])})\n"
                        (src / 'subprojects' / sp / 'meson.build').write_text(body)
                        expr = (f"subproject({q(sp)}, version: {arr(cs)}, required: false).found()" if e == 'subproject'
                                else f"subproject({q(sp)}, required: false).found()")
                    add(e, v, lst, expr, claim=True)
        (src / 'meson.build').write_text('\n'.join(lines) + '\n')
        env = {**os.environ, 'PYTHONDONTWRITEBYTECODE': '1', 'PKG_CONFIG_LIBDIR': str(pc),
               'PATH': str(bindir) + os.pathsep + os.environ.get('PATH', '')}
        env.pop('PKG_CONFIG_PATH', None)
        p = subprocess.run([common.PYTHON, str(common.REPO / 'meson.py'), 'setup', '--backend=none', str(bld), str(src)],
                           stdout=subprocess.PIPE, stderr=subprocess.STDOUT, text=True, timeout=900, env=env)
        got = {int(m.group(1)): m.group(2) == 'true' for m in re.finditer(r'C19E (\d+) (true|false)', p.stdout)}
        rep = {m.group(1): m.group(2) for m in re.finditer(r'C19V (\w+) \[([^\]\n]*)\]', p.stdout)}
        if p.returncode != 0 or len(got) != len(cases) or set(rep) != {'cc', 'meson'}:
            raise MachineryError(f'meson setup of the entry-point project failed (rc={p.returncode}, {len(got)}/{len(cases)} results):\n'
                                 + p.stdout[-2500:])
    for i, c in enumerate(cases):
        c['got'] = got[i]
        if i in recv_var:
            c['v'] = cp(rep[recv_var[i]])
    return cases
