"""C19 helper: the meson_version feature-check state machine (specs/version/VersionFeature.tla).

A *program* is project(meson_version: p) followed by nested if / elif / else blocks whose conditions are
``meson.version().version_compare(...)`` lists, with feature uses (FeatureNew / FeatureDeprecated at a given version) and
probes of the target range inside.  This module only generates programs, renders them, drives the real interpreter
(in-process with probe functions that call the real FeatureNew / FeatureDeprecated, and through ``meson setup`` with real
features of known versions) and records what was observed per event; TraceVersion (case kind "feat") judges.
"""
from __future__ import annotations

import contextlib
import io
import os
import random
import re
import subprocess
import typing as T

from . import common
from . import c19_entry as entry
from .common import MachineryError, scratch

cp = common.codepoints
q = entry.q
OPS = ['>=', '<=', '>', '<', '==', '!=', '=', '']


# ---------------------------------------------------------------------------
# the space handed to VersionFeature_MC and replayed afterwards

def space_around(own: str, stable: str, rnd: random.Random, ngroups: int) -> T.Dict[str, T.Any]:
    """Running version, project constraints, condition lists, feature versions and probe versions around `own`."""
    parts = entry.parts_of(own)
    below = [entry.join_parts(p, None) for p in entry._below(parts) if p]
    above = [entry.join_parts(p, None) for p in entry._above(parts)]
    rnd.shuffle(below)
    rnd.shuffle(above)
    lo2, lo1 = (below + ['0.1', '0'])[:2]
    hi1, hi2 = (above + ['99'])[:2]
    ends = [lo2, lo1, own, hi1]
    projects = [f'>={lo2}', f'>{lo2}', f'>= {lo1}', f'<{hi2}', f'!={hi1}', f'=={stable}', f'<={stable}']
    rnd.shuffle(projects)
    projects = [f'>={lo2}'] + [p for p in projects if p != f'>={lo2}'][:3]

    def constraint() -> str:
        return rnd.choice(OPS) + rnd.choice(['', '', ' ']) + rnd.choice(ends + [hi2])
    groups: T.List[T.List[str]] = [[f'>={lo1}'], [f'>={own}'], [f'<{own}'], [f'>{lo2}', f'<={hi1}'], [f'!={lo1}'],
                                   [f'>={lo1}', f'!={hi1}', f'<{hi2}'], [f'!={hi1}', f'>={lo1}'], [f'>={lo2}', f'<{hi2}', f'!={own}']]
    while len(groups) < ngroups:
        g = [constraint() for _ in range(rnd.choice([1, 1, 2, 2, 3, 4]))]
        if g not in groups:
            groups.append(g)
    features = [lo2, lo1, lo1 + '.0', own, hi1]
    probes = set(ends + [hi2, lo1 + '.0', lo1 + '.a', own + '.0', hi1 + '.1', '', '0', '99999'])
    probes |= {constraint_version(c) for c in projects} | {constraint_version(c) for g in groups[:ngroups] for c in g}
    probes = sorted(probes)
    return {'own': own, 'projects': projects, 'groups': groups[:ngroups], 'features': features, 'probes': probes}


def constraint_version(c: str) -> str:
    """The version text of a constraint (the laws need every end point among the versions they quantify over)."""
    return c.lstrip('<>=!').strip()


def space_json(sp: T.Dict[str, T.Any]) -> T.Dict[str, T.Any]:
    return {'own': cp(sp['own']), 'projects': [cp(x) for x in sp['projects']],
            'groups': [[cp(c) for c in g] for g in sp['groups']],
            'features': [cp(x) for x in sp['features']], 'probes': [cp(x) for x in sp['probes']]}


def body(rnd: random.Random, features: T.List[str], n_use: int) -> T.List[T.Dict[str, T.Any]]:
    evs: T.List[T.Dict[str, T.Any]] = [{'op': 'probe'}]
    for _ in range(n_use):
        evs.append({'op': 'use', 'kind': rnd.choice(['new', 'deprecated']), 'f': rnd.choice(features)})
    return evs


def gen_block(rnd: random.Random, groups: T.List[T.List[str]], features: T.List[str], depth: int, n_use: int) -> T.List[T.Dict[str, T.Any]]:
    """One if / elif* / else? / end block with bodies; nested blocks up to `depth`."""
    evs: T.List[T.Dict[str, T.Any]] = []
    for n in range(rnd.choice([1, 1, 2, 3])):
        evs.append({'op': 'if' if n == 0 else 'elif', 'cs': list(rnd.choice(groups))})
        evs += body(rnd, features, n_use)
        if depth > 1 and rnd.random() < 0.6:
            evs += gen_block(rnd, groups, features, depth - 1, n_use)
            if rnd.random() < 0.4:
                evs += body(rnd, features, 1)          # after the inner block: its narrowing must be gone
    if rnd.random() < 0.5:
        evs.append({'op': 'else'})
        evs += body(rnd, features, n_use)
        if depth > 1 and rnd.random() < 0.3:
            evs += gen_block(rnd, groups, features, depth - 1, n_use)
    evs.append({'op': 'end'})
    return evs


def programs_from_space(sp: T.Dict[str, T.Any], rnd: random.Random, n_random: int, maxdepth: int,
                        systematic: bool = True) -> T.List[T.Dict[str, T.Any]]:
    """(A) every project x condition list as `if g ... else ... end` with every feature both ways, then seeded nestings."""
    progs = []
    for p in sp['projects'] if systematic else []:
        for g in sp['groups']:
            evs: T.List[T.Dict[str, T.Any]] = [{'op': 'if', 'cs': list(g)}, {'op': 'probe'}]
            uses = [{'op': 'use', 'kind': k, 'f': f} for f in sp['features'] for k in ('new', 'deprecated')]
            evs += uses + [{'op': 'else'}, {'op': 'probe'}] + [dict(u) for u in uses] + [{'op': 'end'}, {'op': 'probe'}]
            progs.append({'own': sp['own'], 'p': p, 'ev': evs})
    for _ in range(n_random):
        evs = []
        for _ in range(rnd.choice([1, 1, 2])):
            evs += gen_block(rnd, sp['groups'], sp['features'], maxdepth, 2)
        evs += body(rnd, sp['features'], 1)
        progs.append({'own': sp['own'], 'p': rnd.choice(sp['projects']), 'ev': evs})
    return progs


def to_case(prog: T.Dict[str, T.Any]) -> T.Dict[str, T.Any]:
    evs = []
    for e in prog['ev']:
        e2 = dict(e)
        if 'cs' in e2:
            e2['cs'] = [cp(c) for c in e2['cs']]
        if 'f' in e2:
            e2['f'] = cp(e2['f'])
        evs.append(e2)
    return {'k': 'feat', 'own': cp(prog['own']), 'p': cp(prog['p']), 'ev': evs}


# ---------------------------------------------------------------------------
# in-process: the real interpreter, the real FeatureNew / FeatureDeprecated, probe functions

ALWAYS_RE = re.compile(r":(\d+): WARNING: Conditional on version '[^'\n]*' always evaluates to (true|false)")
USE_RE = re.compile(r":(\d+): WARNING: Project (?:targets '[^'\n]*'|does not target a minimum version) but uses feature (introduced in|deprecated since) '([^'\n]*)': (c19f\d+)\.")


class FeatureDriver:
    def __init__(self) -> None:
        self.d = entry.driver()
        intr = self.d.intr
        common.use_repo_meson()
        from mesonbuild import mesonlib, mlog
        from mesonbuild.interpreterbase import decorators
        self.mesonlib, self.mlog, self.dec = mesonlib, mlog, decorators
        self.ran: T.Set[int] = set()
        self.shown: T.Dict[int, T.Any] = {}

        def unh(x: T.Any) -> T.Any:
            return getattr(x, 'held_object', x)

        def mark(node: T.Any, args: T.Any, kwargs: T.Any) -> None:
            self.ran.add(int(unh(args[0])))

        def probe(node: T.Any, args: T.Any, kwargs: T.Any) -> None:
            i = int(unh(args[0]))
            self.ran.add(i)
            self.shown[i] = mesonlib.project_meson_versions[intr.subproject]

        def use(node: T.Any, args: T.Any, kwargs: T.Any) -> None:
            i, kind, ver = int(unh(args[0])), str(unh(args[1])), str(unh(args[2]))
            self.ran.add(i)
            cls = decorators.FeatureNew if kind == 'new' else decorators.FeatureDeprecated
            cls.single_use(f'c19f{i}', ver, intr.subproject, location=node)
        intr.funcs['c19mark'] = mark
        intr.funcs['c19show'] = probe
        intr.funcs['c19use'] = use

    def run(self, c: T.Dict[str, T.Any], domv: T.List[T.Any]) -> None:
        from mesonbuild import mparser
        txt = self.d.base.txt
        intr, m = self.d.intr, self.mesonlib
        lines: T.List[str] = []
        at: T.Dict[int, int] = {}          # line number -> event index
        ind = 0
        for i, e in enumerate(c['ev']):
            op = e['op']
            if op in ('if', 'elif'):
                if op == 'elif':
                    ind -= 1
                lines.append('  ' * ind + f"{op} meson.version().version_compare({', '.join(q(txt(x)) for x in e['cs'])})")
                at[len(lines)] = i
                ind += 1
                lines.append('  ' * ind + f'c19mark({i})')
            elif op == 'else':
                ind -= 1
                lines.append('  ' * ind + 'else')
                ind += 1
                lines.append('  ' * ind + f'c19mark({i})')
            elif op == 'end':
                ind -= 1
                lines.append('  ' * ind + 'endif')
            elif op == 'use':
                lines.append('  ' * ind + f"c19use({i}, {q(e['kind'])}, {q(txt(e['f']))})")
                at[len(lines)] = i
            elif op == 'probe':
                lines.append('  ' * ind + f'c19show({i})')
            else:
                raise MachineryError('unknown event ' + op)
        code = '\n'.join(lines) + '\n'
        self.ran.clear()
        self.shown.clear()
        saved = m.project_meson_versions.get(intr.subproject)
        out = io.StringIO()
        logger = self.mlog._logger
        quiet = logger.log_disable_stdout
        try:
            m.project_meson_versions[intr.subproject] = m.version_check_to_range([txt(c['p'])])   # what project() does
            for fc in self.d.feature_classes:
                fc.feature_registry.clear()
            ast = mparser.Parser(code, 'c19feat').parse()
            logger.log_disable_stdout = False
            with self.d.patched(intr.coredata, 'version', txt(c['own'])), contextlib.redirect_stdout(out), \
                    contextlib.redirect_stderr(io.StringIO()):
                intr.evaluate_codeblock(ast)
        finally:
            logger.log_disable_stdout = quiet
            for fc in self.d.feature_classes:
                fc.feature_registry.clear()
            if saved is not None:
                m.project_meson_versions[intr.subproject] = saved
        text = re.sub(r'\x1b\[[0-9;]*m', '', out.getvalue())
        always = {at[int(mm.group(1))]: mm.group(2) for mm in ALWAYS_RE.finditer(text) if int(mm.group(1)) in at}
        warned = {int(mm.group(4)[4:]) for mm in USE_RE.finditer(text)}
        if text.count('WARNING:') != len(ALWAYS_RE.findall(text)) + len(USE_RE.findall(text)) + text.count('multiple arguments'):
            raise MachineryError('a warning of the feature-check program was not understood:\n' + repr(text[-1500:]) + '\n' + code)
        for i, e in enumerate(c['ev']):
            op = e['op']
            if op in ('if', 'elif'):
                e['ran'] = i in self.ran
                e['ans'] = {'true': 'T', 'false': 'F'}.get(always.get(i, ''), 'N')
            elif op == 'else':
                e['ran'] = i in self.ran
            elif op == 'use':
                e['ran'] = i in self.ran
                e['warned'] = i in warned
            elif op == 'probe':
                e['ran'] = i in self.ran
                r = self.shown.get(i)
                e['m'] = [j + 1 for j, v in enumerate(domv) if v in r] if r is not None else []


_FD: T.Optional[FeatureDriver] = None


def feature_driver() -> FeatureDriver:
    global _FD
    if _FD is None:
        _FD = FeatureDriver()
    return _FD


# ---------------------------------------------------------------------------
# meson setup: real project(), real features of known versions

REAL_FEATURES = [   # kind, version, name in the warning, statement ({i} = unique number)
    ('new', '0.53.0', 'summary', "summary('c19k{i}', 'v')"),
    ('new', '0.54.0', 'meson.override_dependency', "meson.override_dependency('c19o{i}', declare_dependency())"),
    ('new', '0.55.0', 'meson.can_run_host_binaries', "c19v{i} = meson.can_run_host_binaries()"),
    ('deprecated', '0.55.0', 'meson.has_exe_wrapper', "c19v{i} = meson.has_exe_wrapper()"),
    ('new', '0.56.0', 'meson.project_source_root', "c19v{i} = meson.project_source_root()"),
    ('deprecated', '0.56.0', 'meson.source_root', "c19v{i} = meson.source_root()"),
    ('deprecated', '0.56.0', 'meson.build_root', "c19v{i} = meson.build_root()"),
    ('new', '0.58.0', 'str.replace', "c19v{i} = 'a'.replace('a', 'b')"),
    ('new', '0.58.0', 'range', "c19v{i} = range(2)"),
    ('deprecated', '0.58.0', 'meson.get_cross_property', "c19v{i} = meson.get_cross_property('c19none', 'x')"),
    ('new', '1.1.0', 'meson.build_options', "c19v{i} = meson.build_options()"),
]
REAL_ENDS = ['0.50', '0.53', '0.53.0', '0.54', '0.54.0', '0.55', '0.55.0', '0.56', '0.56.0', '0.57.2', '0.58', '0.58.0', '0.59', '0.60.0',
             '1.0', '1.1', '1.1.0', '1.2']
CLI_USE_RE = re.compile(r"subprojects/(c19fp\d+)/meson\.build:(\d+): WARNING: Project (?:targets '[^'\n]*'|does not target a minimum version) but uses feature "
                        r"(introduced in|deprecated since) '([^'\n]*)': ([\w.]+)\.")
CLI_ALWAYS_RE = re.compile(r"subprojects/(c19fp\d+)/meson\.build:(\d+): WARNING: Conditional on version '[^'\n]*' always evaluates to (true|false)")


def cli_programs(rnd: random.Random, n: int, real: str, stable: str) -> T.Tuple[T.List[str], T.List[T.Dict[str, T.Any]]]:
    """n subprojects with a real project(meson_version:), real if-blocks and real features; observed from the warnings of
    one `meson setup`.  Conditions are chosen freely: blocks the running meson does not enter are simply skipped."""
    mlb = entry.driver().mesonlib
    groups: T.List[T.List[str]] = []

    def constraint() -> str:
        # mostly conditions a current meson satisfies (lower bounds on old releases, upper bounds on future ones), so that
        # the blocks are entered; the others exercise the skipped paths
        r = rnd.random()
        if r < 0.6:
            return rnd.choice(['>=', '>=', '>', '!=', '>= ']) + rnd.choice(REAL_ENDS)
        if r < 0.8:
            return rnd.choice(['<', '<=', '!=', '< ']) + rnd.choice(['99', '99.0', '2.0', real + '.1'])
        return rnd.choice(OPS) + rnd.choice(['', ' ']) + rnd.choice(REAL_ENDS + [real, '99'])
    for _ in range(30):
        groups.append([constraint() for _ in range(rnd.choice([1, 1, 2, 2, 3]))])
    feats = sorted({f[1] for f in REAL_FEATURES})
    cases: T.List[T.Dict[str, T.Any]] = []
    with scratch('c19-feat-') as d:
        src, bld = d / 's', d / 'b'
        (src / 'subprojects').mkdir(parents=True)
        top = ["project('c19feat')"]
        maps: T.List[T.Tuple[T.Dict[int, int], T.Dict[int, int]]] = []
        for pn in range(n):
            for _ in range(200):
                pc = rnd.choice(['>=', '>=', '>=', '>', '>= ', '<', '!=', '==', '']) + rnd.choice(REAL_ENDS + [stable])
                if mlb.version_compare(stable, pc):          # project() refuses anything else
                    break
            else:
                raise MachineryError('no acceptable project constraint')
            evs: T.List[T.Dict[str, T.Any]] = []
            for _ in range(rnd.choice([1, 2])):
                evs += gen_block(rnd, groups, feats, 2, 2)
            evs += body(rnd, feats, 1)
            name = f'c19fp{pn}'
            lines = [f"project({q(name)}, meson_version: {q(pc)})"]
            at_clause: T.Dict[int, int] = {}
            at_use: T.Dict[int, int] = {}
            ind = 0
            kept: T.List[T.Dict[str, T.Any]] = []
            for e in evs:
                op = e['op']
                if op == 'probe':
                    continue                                  # the range itself cannot be shown from a build definition
                i = len(kept)
                kept.append(e)
                if op in ('if', 'elif'):
                    if op == 'elif':
                        ind -= 1
                    lines.append('  ' * ind + f"{op} meson.version().version_compare({', '.join(q(x) for x in e['cs'])})")
                    at_clause[len(lines)] = i
                    ind += 1
                    lines.append('  ' * ind + f"message('C19M {name} {i}')")
                elif op == 'else':
                    ind -= 1
                    lines.append('  ' * ind + 'else')
                    ind += 1
                    lines.append('  ' * ind + f"message('C19M {name} {i}')")
                elif op == 'end':
                    ind -= 1
                    lines.append('  ' * ind + 'endif')
                elif op == 'use':
                    cands = [f for f in REAL_FEATURES if f[0] == e['kind'] and f[1] == e['f']] or \
                            [f for f in REAL_FEATURES if f[1] == e['f']]
                    f = rnd.choice(cands)
                    e['kind'], e['name'] = f[0], f[2]
                    lines.append('  ' * ind + f"message('C19M {name} {i}')")
                    lines.append('  ' * ind + f[3].format(i=f'{pn}x{i}'))
                    at_use[len(lines)] = i
            (src / 'subprojects' / name).mkdir()
            (src / 'subprojects' / name / 'meson.build').write_text('\n'.join(lines) + '\n')
            top.append(f"subproject({q(name)})")
            cases.append(to_case({'own': real, 'p': pc, 'ev': kept}))
            maps.append((at_clause, at_use))
        (src / 'meson.build').write_text('\n'.join(top) + '\n')
        p = subprocess.run([common.PYTHON, str(common.REPO / 'meson.py'), 'setup', '--backend=none', str(bld), str(src)],
                           stdout=subprocess.PIPE, stderr=subprocess.STDOUT, text=True, timeout=900,
                           env={**os.environ, 'PYTHONDONTWRITEBYTECODE': '1'})
        text = re.sub(r'\x1b\[[0-9;]*m', '', p.stdout)
        if p.returncode != 0:
            raise MachineryError(f'meson setup of the feature-check project failed (rc={p.returncode}):\n' + text[-2500:])
    ran = {(mm.group(1), int(mm.group(2))) for mm in re.finditer(r'C19M (c19fp\d+) (\d+)', text)}
    always = {(mm.group(1), int(mm.group(2))): mm.group(3) for mm in CLI_ALWAYS_RE.finditer(text)}
    used = {(mm.group(1), int(mm.group(2))): (mm.group(3), mm.group(4), mm.group(5)) for mm in CLI_USE_RE.finditer(text)}
    for pn, c in enumerate(cases):
        name = f'c19fp{pn}'
        at_clause, at_use = maps[pn]
        clause_line = {i: ln for ln, i in at_clause.items()}
        use_line = {i: ln for ln, i in at_use.items()}
        for i, e in enumerate(c['ev']):
            op = e['op']
            if op in ('if', 'elif'):
                e['ran'] = (name, i) in ran
                e['ans'] = {'true': 'T', 'false': 'F'}.get(always.get((name, clause_line[i]), ''), 'N')
            elif op == 'else':
                e['ran'] = (name, i) in ran
            elif op == 'use':
                e['ran'] = (name, i) in ran
                w = used.get((name, use_line[i]))
                if w is not None and (w[2] != e['name'] or w[1] != common_text(e['f']) or (w[0] == 'introduced in') != (e['kind'] == 'new')):
                    raise MachineryError(f'warning {w} does not belong to the feature used at {name}:{use_line[i]} ({e})')
                e['warned'] = w is not None
    probes = set(REAL_ENDS + [real, stable, '99', '0', '0.49', '0.53.1', '0.55.a', '0.56.0.0', '0.58.1', '1.1.1'])
    probes |= {constraint_version(common_text(c['p'])) for c in cases}
    probes |= {constraint_version(common_text(x)) for c in cases for e in c['ev'] if 'cs' in e for x in e['cs']}
    return sorted(probes), cases


def common_text(cps: T.List[int]) -> str:
    return ''.join(chr(x) for x in cps)
