"""C19 - version comparison is a consistent order and constraint logic is sound.

1. TLC model-checks specs/version:
   * VersionOrder_MC - the order axioms (trichotomy, mutual consistency of the six relations,
     transitivity, equal <=> same key, numeric above alphabetic, numbers as numbers, longer prefix
     greater, operational walk = declarative first-difference rule) on every triple of a bounded
     domain of component sequences; exports the domain;
   * VersionTok_MC - the tokenisation rule (maximal digit/letter runs, separators dropped) and the
     operator prefixes on every string up to a bound;
   * VersionRange_MC - the interval design obeys the membership laws (intersect iff both, checks ->
     range bracket, always() justified, condition-with-min justified) for all range pairs / check
     lists over boundary versions; exports the range descriptions;
   * VersionEntry_MC - constraint lists built one constraint at a time (eight operator spellings x versions below /
     equal to / above the receiver) against the version of the meson under test: list holds iff each holds, the
     incremental evaluators agree with the meaning, order / split of the list is irrelevant, operator table,
     meson.version() proposes a narrowing iff no `!=` was seen; exports the step alphabet.
2. (A) the exported domain is rendered to several concrete spellings per version and the full pair
   table (six relations + hash) is taken from the real ``mesonlib.Version``; the exported range space
   (all pairs) goes through the real ``Range.__contains__/intersect/always``, all check lists through
   ``version_check_to_range`` and ``version_compare_condition_with_min``; results are observed through
   membership over the version domain only and judged by TLC (TraceVersion.tla).
3. (B) seeded random long versions (big numbers, leading zeros, odd separators): triples, constraint
   strings through ``version_compare``/``version_compare_many``/the real interpreter's
   ``str.version_compare()`` (in-process and a ``meson setup`` CLI sample), random ranges and check
   lists, and the ``if meson.version().version_compare()`` narrowing observed from inside the block.
5. Feature checks (c19_feature.py, VersionFeature.tla): VersionFeature_MC proves the target-range machine (project range,
   if / elif / else narrowing and restoring, FeatureNew / FeatureDeprecated, always-true/false reports) against the set
   laws on every program up to a bound; programs over the same space run in the real interpreter (probe functions calling
   the real FeatureNew / FeatureDeprecated) and, with real features of known versions, through ``meson setup``; every
   event's observation is judged by folding the machine over the recorded events (TraceVersion, kind "feat").
4. Entry points (c19_entry.py, VersionEntry.tla): the step alphabet of VersionEntry_MC rendered around each receiver
   goes through ``'v'.version_compare``, ``meson.version().version_compare`` (real and substituted own version),
   ``dependency(version:)`` (override and pkg-config), ``dep.version().version_compare``, ``find_program(version:)``,
   ``subproject(version:)`` (first and repeated use), ``project(meson_version:)`` and ``version_compare_many`` in the
   in-process interpreter (all lists up to a bound + samples up to length 4, each constraint also asked alone), and
   through one ``meson setup`` project that adds the C compiler's version.
"""
from __future__ import annotations

import itertools
import json
import os
import random
import re
import subprocess
import sys
import typing as T
from concurrent.futures import ProcessPoolExecutor

from . import common
from . import c19_entry as entry
from . import c19_feature as feat
from .common import Check, MachineryError, SPECS, run_tlc, scratch

PROP = 'C19'
FAM = SPECS / 'version'
cp = common.codepoints


def txt(cps: T.Sequence[int]) -> str:
    return ''.join(chr(c) for c in cps)


# ---------------------------------------------------------------------------
# rendering abstract component sequences (exported by the TLC model) to version strings

SEPS = ['.', '.', '.', '-', '_', '+', '~', ':', ' ', '..', '.-', '/']


def comp_text(c: T.Dict[str, T.Any]) -> str:
    s = txt(c['s'])
    return (s or '0') if c['k'] == 'n' else s


def render(comps: T.List[T.Dict[str, T.Any]], rnd: T.Optional[random.Random]) -> str:
    """rnd None: canonical dotted form; else a seeded choice of separators / leading zeros / glued runs."""
    if rnd is None:
        return '.'.join(comp_text(c) for c in comps)
    out = ''
    if rnd.random() < 0.15:
        out += rnd.choice(['.', '-', ' ', '_'])
    for n, c in enumerate(comps):
        if n:
            glue = comps[n - 1]['k'] != c['k'] and rnd.random() < 0.4
            out += '' if glue else rnd.choice(SEPS)
        t = comp_text(c)
        if c['k'] == 'n' and rnd.random() < 0.3:
            t = '0' * rnd.randint(1, 3) + t
        out += t
    if rnd.random() < 0.15:
        out += rnd.choice(['.', '-', ' ', '+'])
    return out


# ---------------------------------------------------------------------------
# executing cases against the real code (the only place the implementation is called)

_ML: T.Any = None


def ml() -> T.Any:
    global _ML
    if _ML is None:
        common.use_repo_meson()
        from mesonbuild import mesonlib
        _ML = mesonlib
    return _ML


def rel_code(x: T.Any, y: T.Any) -> int:
    try:
        return ((x < y) is True) * 1 + ((x <= y) is True) * 2 + ((x > y) is True) * 4 + ((x >= y) is True) * 8 \
            + ((x == y) is True) * 16 + ((x != y) is True) * 32 + (hash(x) == hash(y)) * 64
    except Exception:
        return 127


def mk_range(d: T.Dict[str, T.Any], dom: T.List[str]) -> T.Any:
    m = ml()
    kw: T.Dict[str, T.Any] = {}
    if d['lo']:
        kw['min'] = m.Version(dom[d['lo'] - 1])
        kw['min_eq'] = bool(d['loEq'])
    if d['hi']:
        kw['max'] = m.Version(dom[d['hi'] - 1])
        kw['max_eq'] = bool(d['hiEq'])
    return m.Range(**kw)


def members(r: T.Any, domv: T.List[T.Any]) -> T.List[int]:
    return [j + 1 for j, v in enumerate(domv) if v in r]


def domv_of(dom: T.List[str]) -> T.List[T.Any]:
    return [ml().Version(s) for s in dom]


def execute(c: T.Dict[str, T.Any], dom: T.List[str], dv: T.Optional[T.List[T.Any]] = None) -> T.Dict[str, T.Any]:
    """Run one case (inputs only) through the real code and add the observations.
    dv: the Version objects of dom (built once per batch by the caller)."""
    m = ml()
    if dv is None:
        dv = domv_of(dom)
    k = c['k']
    c = dict(c)
    try:
        if k == 'row':
            a = m.Version(dom[c['a'] - 1])
            c['codes'] = [rel_code(a, b) for b in dv]
        elif k == 'tri':
            a, b, d = (m.Version(txt(s)) for s in c['s'])
            c['codes'] = [rel_code(a, b), rel_code(b, a), rel_code(b, d), rel_code(d, b), rel_code(a, d), rel_code(d, a)]
        elif k == 'vc':
            c['got'] = m.version_compare(txt(c['v']), txt(c['c'])) is True
        elif k == 'vcm':
            cs = [txt(x) for x in c['cs']]
            arg: T.Any = cs[0] if (len(cs) == 1 and c.get('single')) else cs
            ok, nf, f = m.version_compare_many(txt(c['v']), arg)
            c['ok'] = ok is True
            c['nf'] = [cp(x) for x in nf]
            c['f'] = [cp(x) for x in f]
        elif k == 'meson':
            c['got'] = interp_version_compare(txt(c['v']), [txt(x) for x in c['cs']])
        elif k == 'entry':
            entry.driver().execute(c)
        elif k == 'feat':
            feat.feature_driver().run(c, dv)
        elif k == 'in':
            c['m'] = members(mk_range(c['r'], dom), dv)
        elif k == 'isect':
            a = mk_range(c['a'], dom)
            b = mk_range(c['b'], dom)
            r = a.intersect(b)
            c['m'] = members(r, dv)
            c['ma'] = members(a, dv)
        elif k == 'always':
            got = mk_range(c['a'], dom).always(mk_range(c['b'], dom))
            c['got'] = 'T' if got is True else 'F' if got is False else 'N' if got is None else 'X'
        elif k == 'checks':
            r = m.version_check_to_range([txt(x) for x in c['cs']], mk_range(c['start'], dom))
            c['m'] = members(r, dv)
        elif k == 'cms':
            c['got'] = m.version_compare_condition_with_min(txt(c['c']), dom[c['min'] - 1]) is True
        elif k == 'cmr':
            c['got'] = m.version_compare_condition_with_min(mk_range(c['r'], dom), dom[c['min'] - 1]) is True
        elif k == 'ifn':
            c['m'] = interp_if_narrowing(txt(c['p']), [[txt(x) for x in grp] for grp in c['groups']], dv)
        else:
            raise MachineryError('unknown case kind ' + k)
    except MachineryError:
        raise
    except Exception as e:  # the real code raised: an observation the spec never allows
        c['k'] = 'raised'
        c['exc'] = f'{type(e).__name__}: {e}'
    return c


# ---- the real interpreter, in-process ------------------------------------------------

_INTR: T.Any = None
_PROBE: T.List[T.Any] = []


def interpreter() -> T.Any:
    """One real Interpreter per process, built from a trivial project (backend none)."""
    global _INTR
    if _INTR is not None:
        return _INTR
    import argparse
    import tempfile
    import atexit
    import shutil
    common.use_repo_meson()
    from mesonbuild import environment, build, interpreter as interp, mlog, cmdline
    from mesonbuild.msetup import add_arguments
    base = os.environ.get('VERIF_TMPDIR') or os.environ.get('TMPDIR') or '/tmp'
    d = tempfile.mkdtemp(prefix='c19-intr-', dir=base)
    atexit.register(shutil.rmtree, d, True)
    src, bld = os.path.join(d, 's'), os.path.join(d, 'b')
    os.makedirs(src)
    os.makedirs(bld)
    with open(os.path.join(src, 'meson.build'), 'w') as f:
        f.write("project('c19')\n")
    p = argparse.ArgumentParser()
    add_arguments(p)
    opts = p.parse_args(['--backend=none', src, bld])
    cmdline.parse_cmd_line_options(opts)
    mlog.set_quiet()
    mlog._logger.log_disable_stdout = True
    env = environment.Environment(src, bld, opts)
    b = build.Build(env)
    intr = interp.Interpreter(b, user_defined_options=opts)
    intr.run()

    def probe(node: T.Any, args: T.Any, kwargs: T.Any) -> None:
        _PROBE.append(ml().project_meson_versions[intr.subproject])
    intr.funcs['c19probe'] = probe
    _INTR = intr
    return intr


def q(s: str) -> str:
    if "'" in s or '\\' in s or '\n' in s:
        raise MachineryError('string not representable in the generated meson code: ' + repr(s))
    return "'" + s + "'"


def interp_eval(code: str) -> T.Any:
    from mesonbuild import mparser
    intr = interpreter()
    intr.variables.pop('x', None)
    ast = mparser.Parser(code, 'c19').parse()
    intr.evaluate_codeblock(ast)
    return intr


def interp_version_compare(v: str, cs: T.List[str]) -> bool:
    intr = interp_eval(f"x = {q(v)}.version_compare({', '.join(q(c) for c in cs)})\n")
    r = intr.variables['x']
    r = getattr(r, 'held_object', r)
    if not isinstance(r, bool):
        raise RuntimeError('version_compare() did not return a bool: ' + repr(r))
    return r


def interp_if_narrowing(pv: str, groups: T.List[T.List[str]], domv: T.List[T.Any]) -> T.List[int]:
    """project(meson_version: pv) then nested `if meson.version().version_compare(group)`: members of the
    target-version range seen by feature checks inside the innermost block."""
    m = ml()
    intr = interpreter()
    saved = m.project_meson_versions.get(intr.subproject)
    try:
        m.project_meson_versions[intr.subproject] = m.version_check_to_range([pv])   # what project() does
        code = ''
        for g in groups:
            code += f"if meson.version().version_compare({', '.join(q(c) for c in g)})\n"
        code += 'c19probe()\n' + 'endif\n' * len(groups)
        del _PROBE[:]
        interp_eval(code)
        if len(_PROBE) != 1:
            raise MachineryError('if-block was not entered (the generator must pick conditions the running meson satisfies): ' + code)
        return members(_PROBE[0], domv)
    finally:
        if saved is not None:
            m.project_meson_versions[intr.subproject] = saved


# ---------------------------------------------------------------------------
# workers

def _w_exec(args: T.Tuple[T.List[T.Dict[str, T.Any]], T.List[str]]) -> T.List[T.Dict[str, T.Any]]:
    cases, dom = args
    dv = domv_of(dom)
    return [execute(c, dom, dv) for c in cases]


def run_cases(ex: ProcessPoolExecutor, cases: T.List[T.Dict[str, T.Any]], dom: T.List[str]) -> T.List[T.Dict[str, T.Any]]:
    step = max(1, min(400, len(cases) // (common.NCPU * 3) + 1))
    out: T.List[T.Dict[str, T.Any]] = []
    for part in ex.map(_w_exec, [(cases[i:i + step], dom) for i in range(0, len(cases), step)]):
        out.extend(part)
    return out



def verdict_lines(res: T.Any) -> T.Tuple[T.List[T.Dict[str, T.Any]], int]:
    """Verdicts printed by the trace spec and the number of verdict-looking lines that did not parse
    (lines of different workers can interleave)."""
    good, broken = [], 0
    for line in res.stdout.splitlines():
        line = line.strip()
        if line.startswith('"{') or line.startswith('"\\"'):
            try:
                v = json.loads(json.loads(line))
                if isinstance(v, dict) and 'clause' in v and 'id' in v:
                    good.append(v)
                    continue
            except Exception:
                pass
            broken += 1
        elif '\\"clause\\"' in line:
            broken += 1
    return good, broken


# ---------------------------------------------------------------------------
# judging with TLC

def describe(c: T.Dict[str, T.Any], dom: T.List[str], v: T.Dict[str, T.Any]) -> T.Tuple[str, T.Dict[str, T.Any]]:
    """Human-readable inputs of a case; signature = clause @ normalised inputs."""
    def rng(d: T.Dict[str, T.Any]) -> str:
        lo = ('[' if d['loEq'] else '(') + (dom[d['lo'] - 1] if d['lo'] else '-inf')
        hi = (dom[d['hi'] - 1] if d['hi'] else '+inf') + (']' if d['hiEq'] else ')')
        return lo + ',' + hi
    k = c['k']
    w = v.get('witness', 0)
    info: T.Dict[str, T.Any] = {'kind': k}
    if k == 'row':
        info.update(a=dom[c['a'] - 1], b=dom[w - 1] if w else None, code=c['codes'][w - 1] if w else None)
        s = f"{info['a']!r} vs {info['b']!r}"
    elif k == 'tri':
        info.update(strings=[txt(x) for x in c['s']], codes=c['codes'])
        s = ' | '.join(repr(x) for x in info['strings'])
    elif k in ('vc',):
        info.update(v=txt(c['v']), c=txt(c['c']), got=c.get('got'))
        s = f"{info['v']!r} {info['c']!r}"
    elif k in ('vcm', 'meson'):
        info.update(v=txt(c['v']), cs=[txt(x) for x in c['cs']], got=c.get('got', c.get('ok')))
        s = f"{info['v']!r} {info['cs']!r}"
    elif k == 'feat':
        def ev_text(e: T.Dict[str, T.Any]) -> str:
            if e['op'] in ('if', 'elif'):
                return e['op'] + ' ' + ','.join(txt(x) for x in e['cs'])
            if e['op'] == 'use':
                return f"use {e['kind']} {txt(e['f'])}"
            return str(e['op'])
        prog = [ev_text(e) for e in c['ev'][:w]]
        # the context of the failing event: the clauses still open at it
        stack: T.List[str] = []
        for t in prog[:-1]:
            if t.startswith('if '):
                stack.append(t)
            elif t.startswith('elif ') or t == 'else':
                stack[-1] = t
            elif t == 'end':
                stack.pop()
        info.update(own=txt(c['own']), project=txt(c['p']), event=w, program=prog, observed=c['ev'][w - 1] if w else None)
        s = f"project {txt(c['p'])!r} [{' / '.join(stack)}] {prog[-1] if prog else ''}"
    elif k == 'entry':
        info.update(entry=c['e'], receiver=txt(c['v']), cs=[txt(x) for x in c['cs']], got=c.get('got'), each=c.get('each'),
                    constraint=txt(c['cs'][w - 1]) if w else None)
        s = f"{c['e']} {info['receiver']!r} {info['cs']!r}"
    elif k == 'in':
        info.update(range=rng(c['r']), version=dom[w - 1] if w else None)
        s = f"{info['range']} ? {info['version']!r}"
    elif k in ('isect', 'always'):
        info.update(a=rng(c['a']), b=rng(c['b']), version=dom[w - 1] if w else None, got=c.get('got'))
        s = f"{info['a']} & {info['b']} ? {info['version']!r}"
    elif k == 'checks':
        info.update(checks=[txt(x) for x in c['cs']], start=rng(c['start']), version=dom[w - 1] if w else None)
        s = f"{info['checks']!r} from {info['start']} ? {info['version']!r}"
    elif k == 'ifn':
        info.update(project=txt(c['p']), groups=[[txt(x) for x in g] for g in c['groups']], version=dom[w - 1] if w else None)
        s = f"{info['project']!r} {info['groups']!r} ? {info['version']!r}"
    elif k == 'cms':
        info.update(condition=txt(c['c']), minimum=dom[c['min'] - 1], got=c.get('got'), version=dom[w - 1] if w else None)
        s = f"{info['condition']!r} min {info['minimum']!r}"
    elif k == 'cmr':
        info.update(condition=rng(c['r']), minimum=dom[c['min'] - 1], got=c.get('got'), version=dom[w - 1] if w else None)
        s = f"{info['condition']} min {info['minimum']!r}"
    else:
        s = json.dumps(c, sort_keys=True)[:200]
    return f"{v.get('clause')}@{s}", info


INPUT_KEYS = {'row': ['a'], 'tri': ['s'], 'vc': ['v', 'c'], 'vcm': ['v', 'cs', 'single'], 'meson': ['v', 'cs'], 'in': ['r'],
              'isect': ['a', 'b'], 'always': ['a', 'b'], 'checks': ['cs', 'start'], 'cms': ['c', 'min'], 'cmr': ['r', 'min'],
              'ifn': ['p', 'groups'], 'entry': ['e', 'v', 'cs', 'pos', 'bare'], 'feat': ['own', 'p', 'ev']}


def judge(chk: Check, cases: T.List[T.Dict[str, T.Any]], dom: T.List[str], label: str) -> None:
    """Validate recorded executions against the spec with TLC (TraceVersion)."""
    if not cases:
        return
    for n, c in enumerate(cases):
        c['id'] = f'{label}:{n}'
    by_id = {c['id']: c for c in cases}
    raised = [c for c in cases if c['k'] == 'raised']
    for c in raised:
        chk.violation(f"Raised@{c.get('exc', '')[:120]}", {'case': c, 'dom': dom if len(dom) <= 50 else None})
    live = [c for c in cases if c['k'] != 'raised']
    with scratch('c19-') as d:
        tf = d / 'cases.json'
        tf.write_text(json.dumps({'dom': [cp(s) for s in dom], 'cases': live}))
        res = run_tlc(FAM, 'TraceVersion', env={'TRACE_FILE': str(tf)}, timeout=3600)
        bad, broken = verdict_lines(res)
        if not res.clean:
            raise MachineryError('TraceVersion did not complete cleanly:\n' + res.stdout[-2000:])
        if res.distinct != 2 * len(live):
            raise MachineryError(f'TraceVersion judged {res.distinct // 2} of {len(live)} cases')
        if broken:      # interleaved output: judge again single-threaded
            res1 = run_tlc(FAM, 'TraceVersion', env={'TRACE_FILE': str(tf)}, timeout=3600, workers=1)
            bad, broken = verdict_lines(res1)
            if broken:
                raise MachineryError('unreadable verdict lines from TraceVersion')
    chk.add_tlc(f'TraceVersion[{label}]', res, model=False)
    chk.traces += len(cases)
    per_class: T.Dict[T.Tuple[str, str], int] = {}
    for v in bad:
        c = by_id.get(v['id'], {})
        if c.get('k') in ('entry', 'feat'):       # one broken entry point fails thousands of lists: keep the first 20 per clause
            key = (str(v.get('clause')), str(c.get('e')))
            per_class[key] = per_class.get(key, 0) + 1
            if per_class[key] > 20:
                continue
        if str(v.get('clause', '')).startswith('generator-'):
            raise MachineryError(f"the case generator broke its own contract ({v['clause']}): " + json.dumps(c)[:600])
        sig, info = describe(c, dom, v)
        keep = {k: c[k] for k in ['k'] + INPUT_KEYS.get(c['k'], []) if k in c}
        chk.violation(sig, {'verdict': v, 'inputs': info, 'case': keep, 'observed': {k: c[k] for k in c if k not in keep and k != 'codes'},
                            'dom': dom})


# ---------------------------------------------------------------------------
# generators

LETTERS = ['a', 'b', 'z', 'A', 'B', 'Z', 'rc', 'pre', 'alpha', 'beta', 'p', 'git', 'dev', 'aa', 'ab', 'Rc']


def rand_comp(rnd: random.Random) -> str:
    r = rnd.random()
    if r < 0.55:
        n = rnd.choice([0, 1, 2, 3, 9, 10, 11, 19, 20, 99, 100, 101, 999, 1000, 2024, 20140320, 4294967296, 99999999999,
                        rnd.randint(0, 50), rnd.randint(0, 10 ** rnd.randint(1, 14))])
        s = str(n)
        if rnd.random() < 0.2:
            s = '0' * rnd.randint(1, 3) + s
        return s
    if r < 0.9:
        return rnd.choice(LETTERS)
    return ''.join(rnd.choice('abyzABYZ') for _ in range(rnd.randint(1, 4)))


def join_comps(parts: T.List[str], rnd: random.Random) -> str:
    out = ''
    for n, p in enumerate(parts):
        if n:
            prev = parts[n - 1]
            glue = (prev[-1].isdigit() != p[0].isdigit()) and rnd.random() < 0.35
            out += '' if glue else rnd.choice(SEPS)
        out += p
    return out


def rand_parts(rnd: random.Random) -> T.List[str]:
    return [rand_comp(rnd) for _ in range(rnd.choice([0, 1, 1, 2, 2, 3, 3, 3, 4, 5, 6]))]


def neighbour(parts: T.List[str], rnd: random.Random) -> T.List[str]:
    p = list(parts)
    r = rnd.random()
    if not p or r < 0.2:
        return p + [rand_comp(rnd)]
    i = rnd.randrange(len(p))
    if r < 0.35:
        return p[:i]
    if r < 0.5:
        return p[:i + 1]
    if r < 0.75 and p[i].isdigit():
        p[i] = str(max(0, int(p[i]) + rnd.choice([-1, 1, 10, -10, 0])))
        if rnd.random() < 0.3:
            p[i] = '0' + p[i]
        return p
    p[i] = rand_comp(rnd)
    return p


OPS_SPELLED = ['>=', '<=', '>', '<', '==', '=', '!=', '']


def spell_constraint(op: str, ver: str, rnd: random.Random) -> str:
    if op == '' and (not ver or not ver[0].isalnum()):
        op = '=='
    return op + rnd.choice(['', '', ' ', '  ']) + ver + rnd.choice(['', '', '', ' '])


def gen_random(rnd: random.Random, n: int) -> T.Tuple[T.List[str], T.List[T.Dict[str, T.Any]]]:
    """(B) free-form cases: a random version domain with neighbours and cases over it."""
    base = [rand_parts(rnd) for _ in range(25)]
    parts = list(base)
    for b in base:
        parts.append(neighbour(b, rnd))
        parts.append(neighbour(b, rnd))
    dom = [join_comps(p, rnd) for p in parts] + [join_comps(p, rnd) for p in parts[:20]]
    nd = len(dom)
    pick = lambda: rnd.randrange(nd) + 1   # noqa: E731

    def rdesc() -> T.Dict[str, T.Any]:
        d = {'lo': 0, 'loEq': False, 'hi': 0, 'hiEq': False}
        if rnd.random() < 0.7:
            d['lo'], d['loEq'] = pick(), rnd.random() < 0.5
        if rnd.random() < 0.7:
            d['hi'], d['hiEq'] = pick(), rnd.random() < 0.5
            if d['lo'] and rnd.random() < 0.25:
                d['hi'] = d['lo']
        return d

    def constraint() -> str:
        return spell_constraint(rnd.choice(OPS_SPELLED), dom[pick() - 1].strip(), rnd)

    cases: T.List[T.Dict[str, T.Any]] = []
    for _ in range(n):
        r = rnd.random()
        if r < 0.22:
            a = rand_parts(rnd)
            b = neighbour(a, rnd)
            c = neighbour(rnd.choice([a, b]), rnd)
            trip = [a, b, c]
            rnd.shuffle(trip)
            cases.append({'k': 'tri', 's': [cp(join_comps(p, rnd)) for p in trip]})
        elif r < 0.32:
            cases.append({'k': 'vc', 'v': cp(dom[pick() - 1]), 'c': cp(constraint())})
        elif r < 0.42:
            cs = [constraint() for _ in range(rnd.choice([1, 1, 2, 3, 4]))]
            cases.append({'k': 'vcm', 'v': cp(dom[pick() - 1]), 'cs': [cp(x) for x in cs], 'single': rnd.random() < 0.5})
        elif r < 0.52:
            cs = [constraint() for _ in range(rnd.choice([1, 1, 2, 3]))]
            cases.append({'k': 'meson', 'v': cp(dom[pick() - 1]), 'cs': [cp(x) for x in cs]})
        elif r < 0.6:
            cases.append({'k': 'in', 'r': rdesc()})
        elif r < 0.72:
            cases.append({'k': 'isect', 'a': rdesc(), 'b': rdesc()})
        elif r < 0.82:
            cases.append({'k': 'always', 'a': rdesc(), 'b': rdesc()})
        elif r < 0.92:
            cs = [constraint() for _ in range(rnd.choice([0, 1, 2, 2, 3, 4]))]
            cases.append({'k': 'checks', 'cs': [cp(x) for x in cs], 'start': rdesc() if rnd.random() < 0.6 else
                          {'lo': 0, 'loEq': False, 'hi': 0, 'hiEq': False}})
        elif r < 0.96:
            cases.append({'k': 'cms', 'c': cp(constraint()), 'min': pick()})
        else:
            cases.append({'k': 'cmr', 'r': rdesc(), 'min': pick()})
    return dom, cases


def gen_random_entries(rnd: random.Random, dom: T.List[str], n: int, real: str, stable: str) -> T.List[T.Dict[str, T.Any]]:
    """(B) free-form questions to the entry points: receivers and constraint versions from the random domain."""
    cases: T.List[T.Dict[str, T.Any]] = []
    dotted = ['.'.join(str(rnd.choice([0, 1, 2, 9, 10, 11, 99, 100])) for _ in range(rnd.choice([2, 3, 3, 4]))) for _ in range(12)]
    for _ in range(n):
        e = rnd.choice(entry.INPROC)
        pool = dotted if e == 'prog' else [real] + dom if e == 'meson' else [stable] + dom if e == 'project' else dom
        for _ in range(50):
            v = rnd.choice(pool)
            if entry.receiver_ok(e, v):
                break
        else:
            continue
        near = entry.symbols(entry.alphabet_around(v, rnd, 2)) if rnd.random() < 0.5 else []
        lo = 1 if e in ('str', 'meson', 'depver', 'project') else 0
        ln = 1 if e == 'project' else rnd.choice([lo, 1, 2, 2, 3, 3, 4])
        lst = []
        for _ in range(ln):
            if near and rnd.random() < 0.6:
                lst.append(rnd.choice(near))
            else:
                lst.append((spell_constraint(rnd.choice(OPS_SPELLED), rnd.choice(dom).strip(), rnd), 0))
        cases.append(entry.make_case(e, v, lst, claim=False, bare=rnd.random() < 0.5))
    return cases


def gen_if_narrowing(rnd: random.Random, n: int, current: str, stable: str) -> T.Tuple[T.List[str], T.List[T.Dict[str, T.Any]]]:
    """Conditions the running meson version satisfies (so that the blocks are entered), around real meson versions."""
    m = re.match(r'(\d+)\.(\d+)\.(\d+)', stable)
    if not m:
        raise MachineryError('cannot read the version of the meson under test: ' + current)
    maj, mnr, pat = (int(x) for x in m.groups())
    pool = sorted({'0.46.0', '0.46', '0.50', '0.50.0', '0.50.1', '0.55.3', '0.60', '0.63.99', '1.0', '1.0.0', '1', '1.1',
                   '1.8.0', f'{maj}.{mnr}', f'{maj}.{mnr}.0', f'{maj}.{mnr}.{pat}', f'{maj}.{mnr + 1}', f'{maj}.{mnr + 1}.0',
                   f'{maj + 1}.0', f'{maj + 1}', current, '0.46.0.rc1', '0.50.a', '1.0.0.0', '99', '0', ''})
    dom = list(pool) + [p + '.0' for p in pool[:12]] + [p + '.a' for p in pool[:12]] + ['0.49.99', '0.50rc1', '1.0rc2']
    mlb = ml()

    def holds(c: str) -> bool:
        return mlb.version_compare(current, c)

    def cond() -> str:
        for _ in range(200):
            c = spell_constraint(rnd.choice(['>=', '>=', '>=', '>', '<', '<=', '==', '!=', '=']), rnd.choice(pool), rnd)
            if holds(c):
                return c
        raise MachineryError('no satisfiable condition found')

    cases: T.List[T.Dict[str, T.Any]] = []
    for _ in range(n):
        for _ in range(200):
            pv = spell_constraint(rnd.choice(['>=', '>=', '>=', '>', '<', '<=', '==', '']), rnd.choice(pool), rnd)
            if mlb.version_compare(stable, pv):     # project() refuses a meson_version the running meson does not satisfy
                break
        else:
            raise MachineryError('no satisfiable project version found')
        groups = [[cp(cond()) for _ in range(rnd.choice([1, 1, 1, 2, 3]))] for _ in range(rnd.choice([1, 1, 2, 3]))]
        cases.append({'k': 'ifn', 'p': cp(pv), 'groups': groups})
    return dom, cases


# ---------------------------------------------------------------------------
# CLI sample: the same question asked through `meson setup`

def cli_sample(chk: Check, rnd: random.Random, n: int) -> T.Tuple[T.List[str], T.List[T.Dict[str, T.Any]]]:
    dom, cases = gen_random(rnd, n * 12)
    cases = [c for c in cases if c['k'] == 'meson'][:n]
    with scratch('c19-cli-') as d:
        src, bld = d / 's', d / 'b'
        src.mkdir()
        lines = ["project('c19cli')"]
        for i, c in enumerate(cases):
            lines.append(f"message('C19R @0@ @1@'.format({i}, {q(txt(c['v']))}.version_compare({', '.join(q(txt(x)) for x in c['cs'])})))")
        (src / 'meson.build').write_text('\n'.join(lines) + '\n')
        p = subprocess.run([common.PYTHON, str(common.REPO / 'meson.py'), 'setup', '--backend=none', str(bld), str(src)],
                           stdout=subprocess.PIPE, stderr=subprocess.STDOUT, text=True, timeout=600,
                           env={**os.environ, 'PYTHONDONTWRITEBYTECODE': '1'})
        got = {int(mm.group(1)): mm.group(2) == 'true' for mm in re.finditer(r'C19R (\d+) (true|false)', p.stdout)}
        if p.returncode != 0 or len(got) != len(cases):
            raise MachineryError(f'meson setup of the CLI sample failed (rc={p.returncode}, {len(got)}/{len(cases)} results):\n' + p.stdout[-1500:])
    for i, c in enumerate(cases):
        c['got'] = got[i]
    return dom, cases


# ---------------------------------------------------------------------------

def mc_cfg(invariants: T.List[str], consts: str, post: str = '') -> str:
    return ('SPECIFICATION Spec\nCONSTANTS\n' + consts + ''.join(f'INVARIANT {i}\n' for i in invariants) +
            'CHECK_DEADLOCK FALSE\n' + (f'POSTCONDITION {post}\n' if post else ''))


ORDER_INV = ['Trichotomy', 'RelationsConsistent', 'Reflexive', 'Transitive', 'EqualIffSameKey', 'OperationalEqualsDeclarative',
             'FirstDifferenceDecides', 'LongerIsGreater', 'RoundTrip']
TOK_INV = ['ScanEqualsRuns', 'WellFormed', 'SeparatorsDropped', 'SeparatorsRepeat', 'CutsBetweenComponents', 'OperatorPrefix']
FEATURE_INV = ['TargetBracket', 'TargetIsMay', 'ExactWithoutNe', 'OwnInside', 'LiveIsReachable', 'Restored', 'OuterChain',
               'UsesJustified', 'ClausesJustified', 'ClausesAnswer']
ENTRY_INV = ['ReadOnce', 'ListIffEach', 'EmptyListHolds', 'EvaluatorsAgree', 'OrderIrrelevant', 'SplitIrrelevant',
             'OperatorsAgreeWithOrder', 'SpellingRead', 'Partition', 'MesonEntry', 'Arity']
RANGE_INV = ['IntersectSoundComplete', 'IntersectCommutes', 'EmptinessSound', 'AlwaysJustified', 'AlwaysAnswers', 'ChecksSound',
             'ChecksExact', 'CondMinJustified', 'PinnedTableAgrees']


def main(chk: Check) -> None:
    quick = chk.tier == 'quick'
    rnd = random.Random(chk.seed * 1000003 + 19)
    chk.rule = ('A: full pair table over the version domain exported by the TLC model (all component sequences up to 3 '
                'components over {0,1,(2,)10,a,(B,)rc}), each version in 2-3 concrete spellings; every pair of the exported '
                'range space, every check list up to 2 over the boundary versions. B: seeded random versions with 0-6 '
                'components (numbers up to 15 digits, leading zeros, glued digit/letter runs, odd separators). Non-trivial = '
                'distinct compared pairs whose versions differ in spelling but not necessarily in order, plus distinct '
                'range/check/constraint cases whose result is neither the full nor the empty domain. Entry points: the step '
                'alphabet of VersionEntry_MC (8 operator spellings x versions below / equal to / above the receiver, rendered '
                'around every receiver) as lists of length 0..4 through 11 in-process entry points and one configured project; '
                'non-trivial = distinct (entry point, receiver, list) with at least two constraints. Feature checks: programs of '
                'nested if / elif / else (depth <= 3) over the space of VersionFeature_MC with FeatureNew / FeatureDeprecated '
                'uses and range probes; non-trivial = distinct executed feature uses and clauses reported as always true / false.')
    # ---- 1. model checking
    alph = 'Small' if quick else 'Full'
    res = run_tlc(FAM, 'VersionOrder_MC', cfg_text=mc_cfg(ORDER_INV, f' MaxLen = 3\n Numbers <- Numbers{alph}\n Words <- Words{alph}\n', 'EmitDomain'),
                  collect=['domain.json'], timeout=3000, allow_violation=False)
    chk.add_tlc(f'VersionOrder_MC[MaxLen=3,{alph}]', res)
    domain = json.loads(res.collected['domain.json'])
    res = run_tlc(FAM, 'VersionTok_MC', cfg_text=mc_cfg(TOK_INV, f' MaxStr = {5 if quick else 6}\n Chars = {{48, 49, 57, 97, 66, 46, 45}}\n'),
                  timeout=3000, allow_violation=False)
    chk.add_tlc('VersionTok_MC', res)
    res = run_tlc(FAM, 'VersionRange_MC',
                  cfg_text=mc_cfg(RANGE_INV, f' MaxLen = 2\n Numbers <- Numbers{alph}\n Words <- Words{alph}\n Ends <- Ends{'Tiny' if quick else 'Full'}\n'
                                  f' MaxChecks = 2\n', 'EmitRanges'),
                  collect=['ranges.json'], timeout=3000, allow_violation=False)
    chk.add_tlc(f'VersionRange_MC[{alph}]', res)
    rspace = json.loads(res.collected['ranges.json'])
    # the entry points: constraint lists built step by step around the version of the meson under test
    ml()
    from mesonbuild import coredata
    real, stable = coredata.version, coredata.stable_version
    ernd = random.Random(chk.seed * 104729 + 1919)
    alphabets: T.Dict[str, T.Dict[str, T.Any]] = {}
    owns = [real] if quick else [real, stable, '1.0.0rc1', 'a.b']
    for own in owns:
        alph_e = entry.alphabet_around(own, ernd, 1 if quick else 2)
        res = run_tlc(FAM, 'VersionEntry_MC', cfg_text=mc_cfg(ENTRY_INV, ' Alphabet <- AlphabetFromFile\n MaxList = 3\n', 'EmitAlphabet'),
                      files={'entry_alphabet.json': json.dumps(entry.alphabet_json(alph_e))}, collect=['entry.json'],
                      timeout=3000, allow_violation=False)
        chk.add_tlc(f'VersionEntry_MC[own={own},MaxList=3]', res)
        exported = json.loads(res.collected['entry.json'])
        if sorted(txt(x) for x in exported['spellings']) != sorted(entry.SPELLINGS) or \
                set(exported['entries']) - {'compiler'} != set(entry.INPROC):
            raise MachineryError('the step alphabet exported by VersionEntry_MC is not the one the driver renders')
        alphabets[own] = {'own': txt(exported['own']), **{k: [txt(x) for x in exported[k]] for k in ('below', 'same', 'above')}}
    # the feature-check state machine over a space around the version of the meson under test
    frnd = random.Random(chk.seed * 15485863 + 77)
    fspace = feat.space_around(real, stable, frnd, 10 if quick else 16)
    res = run_tlc(FAM, 'VersionFeature_MC',
                  cfg_text=mc_cfg(FEATURE_INV, f' Space <- SpaceFromFile\n MaxDepth = {2 if quick else 3}\n MaxEvents = {3 if quick else 5}\n', 'EmitSpace'),
                  files={'feature_space.json': json.dumps(feat.space_json(fspace))}, collect=['feature.json'],
                  timeout=3000, allow_violation=False)
    chk.add_tlc('VersionFeature_MC', res)
    fexp = json.loads(res.collected['feature.json'])
    fspace = {'own': txt(fexp['own']), 'projects': [txt(x) for x in fexp['projects']], 'groups': [[txt(x) for x in g] for g in fexp['groups']],
              'features': [txt(x) for x in fexp['features']], 'probes': [txt(x) for x in fexp['probes']]}
    chk.extra['model_domain_versions'] = len(domain)
    chk.extra['model_range_descriptions'] = len(rspace['ranges'])

    with ProcessPoolExecutor(max_workers=common.NCPU) as ex:
        # ---- 2. (A) the model's domain through the real Version: full pair table
        spellings = 2 if quick else 3
        dom = []
        for comps in domain:
            dom.append(render(comps, None))
            for _ in range(spellings - 1):
                dom.append(render(comps, rnd))
        rows = run_cases(ex, [{'k': 'row', 'a': a + 1} for a in range(len(dom))], dom)
        chk.evaluations += len(dom) * len(dom)
        for c in rows[:: max(1, len(rows) // 3)][:3]:
            chk.sample({'kind': 'row', 'a': dom[c['a'] - 1], 'against': dom[:6], 'codes(lt1 le2 gt4 ge8 eq16 ne32 hash64)': c['codes'][:6]})
        for a, b in itertools.islice(((a, b) for a in range(0, len(dom), 7) for b in range(0, len(dom), 5)), 20000):
            if dom[a] != dom[b]:
                chk.nontriv(dom[a] + '|' + dom[b])
        judge(chk, rows, dom, 'A-pairs')

        # ---- (A) the model's range space through the real Range / check functions; probes: canonical domain + ends
        ends = [txt(e) for e in rspace['ends']]
        rdom = ends + [render(comps, None) for comps in domain if render(comps, None) not in ends]
        if not quick:
            rdom = rdom[:len(ends)] + rdom[len(ends)::2]     # every other domain version keeps the batch small
        pos = {s: n + 1 for n, s in enumerate(rdom)}

        def desc(d: T.Dict[str, T.Any]) -> T.Dict[str, T.Any]:
            return {'lo': pos[txt(d['lo'])] if d['hasLo'] else 0, 'loEq': bool(d['loEq']) and bool(d['hasLo']),
                    'hi': pos[txt(d['hi'])] if d['hasHi'] else 0, 'hiEq': bool(d['hiEq']) and bool(d['hasHi'])}
        rdescs = [desc(d) for d in rspace['ranges']]
        rdescs = [json.loads(s) for s in sorted({json.dumps(d, sort_keys=True) for d in rdescs})]
        cases: T.List[T.Dict[str, T.Any]] = [{'k': 'in', 'r': r} for r in rdescs]
        for a in rdescs:
            for b in rdescs:
                cases.append({'k': 'isect', 'a': a, 'b': b})
                cases.append({'k': 'always', 'a': a, 'b': b})
        ops = ['>=', '<=', '>', '<', '==', '!=', '=', '']
        checks = [spell_constraint(op, e, rnd) for op in ops for e in ends if not (op == '' and not e)]
        starts = rdescs if quick else rdescs[::3]
        for st in starts[:: (2 if quick else 1)]:
            cases.append({'k': 'checks', 'cs': [], 'start': st})
            for c1 in checks:
                cases.append({'k': 'checks', 'cs': [cp(c1)], 'start': st})
        full = {'lo': 0, 'loEq': False, 'hi': 0, 'hiEq': False}
        some_starts = [full] + [rnd.choice(rdescs) for _ in range(3 if quick else 6)]
        for st in some_starts:
            for c1 in checks:
                for c2 in checks:
                    cases.append({'k': 'checks', 'cs': [cp(c1), cp(c2)], 'start': st})
        for mn in range(1, len(ends) + 1):
            for c1 in checks:
                cases.append({'k': 'cms', 'c': cp(c1), 'min': mn})
            for r in rdescs:
                cases.append({'k': 'cmr', 'r': r, 'min': mn})
        done = run_cases(ex, cases, rdom)
        chk.evaluations += len(done)
        _account(chk, done, rdom)
        judge(chk, done, rdom, 'A-ranges')

        # ---- 3. (B) random
        n_rand = 4000 if quick else 40000
        batches = 2 if quick else 10
        for bno in range(batches):
            brnd = random.Random(chk.seed * 7919 + bno)
            bdom, bcases = gen_random(brnd, n_rand // batches)
            done = run_cases(ex, bcases, bdom)
            chk.evaluations += len(done)
            _account(chk, done, bdom)
            judge(chk, done, bdom, f'B{bno}')
        # if-block narrowing of the target meson version, observed from inside the block
        idom, icases = gen_if_narrowing(rnd, 300 if quick else 3000, coredata.version, coredata.stable_version)
        done = run_cases(ex, icases, idom)
        chk.evaluations += len(done)
        _account(chk, done, idom)
        judge(chk, done, idom, 'B-if')
        # ---- 4. the entry points (A: the model's step alphabet around each receiver; B: free-form)
        ecases = entry.model_cases(ernd, real, stable, quick, alphabets)
        done = run_cases(ex, ecases, [])
        chk.evaluations += len(done)
        _account(chk, done, [])
        for part in range(0, len(done), 60000):       # TLC reads a batch as one JSON value: keep it moderate
            judge(chk, done[part:part + 60000], [], f'A-entry{part // 60000}' if len(done) > 60000 else 'A-entry')
        chk.extra['entry_cases_per_entry_point'] = {e: sum(1 for c in done if c.get('e') == e) for e in entry.INPROC}
        # ---- 5. feature-check programs (A: the space of VersionFeature_MC; B: other running versions, free-form ends)
        progs = feat.programs_from_space(fspace, frnd, 250 if quick else 3000, 2 if quick else 3)
        fdom_all = list(fspace['probes'])
        for own in entry.receivers('meson', frnd, 3 if quick else 8, real, stable)[1:]:
            sp2 = feat.space_around(own, own, frnd, 10)
            progs += feat.programs_from_space(sp2, frnd, 120 if quick else 1000, 3, systematic=not quick)
            fdom_all += [x for x in sp2['probes'] if x not in fdom_all]
        done = run_cases(ex, [feat.to_case(p) for p in progs], fdom_all)
        chk.evaluations += sum(len(c['ev']) for c in done if 'ev' in c)
        _account(chk, done, fdom_all)
        judge(chk, done, fdom_all, 'AB-feature')
        edom, _ = gen_random(random.Random(chk.seed * 31337 + 5), 1)
        ecases = gen_random_entries(ernd, edom, 800 if quick else 12000, real, stable)
        bdone = run_cases(ex, ecases, [])
        chk.evaluations += len(bdone)
        _account(chk, bdone, [])
    # the same questions through the real command line (one TLC run judges the three batches)
    cdom, ccases = cli_sample(chk, rnd, 150 if quick else 600)
    chk.evaluations += len(ccases)
    clicases = entry.cli_entries(ernd, 120 if quick else 600, real, stable)
    chk.evaluations += len(clicases)
    _account(chk, clicases, [])
    chk.extra['entry_cases_cli'] = {e: sum(1 for c in clicases if c.get('e') == e) for e in sorted({c['e'] for c in clicases})}
    fdom, fcli = feat.cli_programs(frnd, 40 if quick else 200, real, stable)
    chk.evaluations += sum(len(c['ev']) for c in fcli)
    _account(chk, fcli, fdom)
    judge(chk, ccases + clicases + bdone + fcli, fdom, 'B-cli+entry+feature')     # only the feature programs refer to the domain
    chk.exhaustive = True
    chk.assumptions += [
        'version strings are ASCII; non-ASCII digits/letters (which Python regexes may classify differently) are not generated',
        'constraint strings are <operator><optional blanks><version>; blanks before the operator and malformed operators '
        '("=>", "!", "=<") are not generated (undocumented)',
        'Range results are observed through membership over a finite version domain that contains all end points, '
        'their neighbours and the empty version; always() may always answer "cannot tell" (the statement only forbids '
        'unjustified true/false)',
        'version_compare_condition_with_min: TRUE must be sound over the domain; FALSE must be witnessed only when the '
        'condition has an inclusive lower end; single-constraint strings additionally follow the table pinned in '
        'unittests/versiontests.py',
        'versions passed through generated meson code contain no quote, backslash or newline',
        'hash equality is required for equal versions only',
        'entry points: receivers are restricted to what the carrier can transport unchanged (find_program / config-tool '
        'versions are dotted numbers because only "numbers separated by dots" are kept; pkg-config versions have no blanks; '
        'dependency / subproject versions are not empty and not "undefined"); for meson.version() and project(meson_version:) '
        'the version of the running meson is substituted in-process (coredata.version / stable_version) besides the real one; '
        'a repeated subproject() whose version does not match raises even with required: false - read as "does not hold"; '
        'dependency factories that need a toolchain or an installed tool (cuda, llvm, qt, dub, cups) are not driven',
        'feature checks: projects always give a meson_version (without one the checks follow a different, release-dependent '
        'rule); conditions are plain meson.version().version_compare() calls, not negated and not combined with and / or '
        '(the narrowing then no longer describes the block - not claimed by the statement); feature versions are dotted '
        'numbers without leading zeros (trailing ".0" components do not count, as the code comments and the pinned tests say); '
        'a condition list with "!=" may be left out of the narrowing; always-true/false reports and warnings are only required '
        'to be justified (a silent implementation of the always report is accepted)',
    ]


def _account(chk: Check, cases: T.List[T.Dict[str, T.Any]], dom: T.List[str]) -> None:
    n = len(dom)
    taken = 0
    for c in cases:
        k = c['k']
        if k in ('in', 'isect', 'checks', 'ifn') and 0 < len(c.get('m', [])) < n:
            chk.nontriv(json.dumps({x: c[x] for x in INPUT_KEYS[k] if x in c}, sort_keys=True) + str(len(dom)))
        elif k == 'always' and c.get('got') in ('T', 'F'):
            chk.nontriv(json.dumps([c['a'], c['b'], c['got']], sort_keys=True) + str(len(dom)))
        elif k == 'feat':
            for e in c['ev']:
                if e.get('ran') and (e['op'] == 'use' or e.get('ans') in ('T', 'F')):
                    chk.nontriv(json.dumps([c['p'], e]))
        elif k == 'entry' and len(c.get('cs', [])) > 1:
            chk.nontriv(json.dumps([c['e'], c['v'], c['cs']]))
        elif k in ('tri', 'vc', 'vcm', 'meson', 'cms', 'cmr'):
            chk.nontriv(json.dumps({x: c[x] for x in INPUT_KEYS[k] if x in c}, sort_keys=True))
        if taken < 2 and k in ('isect', 'checks', 'always', 'vcm', 'ifn', 'cmr', 'entry') and chk.seed is not None:
            sig, info = describe(c, dom, {'clause': 'sample', 'witness': 0})
            info['observed'] = {x: c[x] for x in ('m', 'got', 'ok', 'nf', 'f', 'each') if x in c}
            if isinstance(info['observed'].get('m'), list):
                info['observed']['members'] = [dom[j - 1] for j in info['observed'].pop('m')][:12]
            for fld in ('nf', 'f'):
                if fld in info['observed']:
                    info['observed'][fld] = [txt(x) for x in info['observed'][fld]]
            chk.sample(info, limit=12)
            taken += 1


def replay(chk: Check, data: T.Dict[str, T.Any]) -> None:
    """Re-execute the recorded inputs against the current tree and judge again."""
    det = data['detail']
    dom = det.get('dom') or []
    case = det['case']
    if case.get('k') == 'raised':
        raise MachineryError('a case that raised cannot be replayed from its record; re-run the check with the recorded seed')
    done = execute(case, dom)
    judge(chk, [done], dom, 'replay')


if __name__ == '__main__':
    sys.exit(common.run_check(main, PROP, replay=replay))
