"""C20 - Cargo version requirements and cfg() expressions mean what Cargo says.

1. TLC model-checks specs/cargo:
   * SemVer_MC   - SemVer precedence is a total preorder with the item-11 properties on every triple
                   of a bounded domain; parse/render round trip, build metadata ignored;
   * CargoReq_MC - the Cargo book's interval tables equal the semver crate's matcher wherever C20 makes
                   a claim; the pinned rule differs from Cargo's exactly on the two pinned comparator
                   classes; pre-release gate; caret/tilde inclusions; text round trip;
   * CargoCfg_MC - recursive-descent parser = declarative span grammar, same values under all
                   configurations, on every token sequence up to a bound.
   Each run exports its input space.
2. (A) the exported spaces go through the real code: the full SemVer pair table through
   ``cargo.version.SemVer``; every exported comparator (several spellings; alone and paired with the
   exported second comparators) against every exported version through ``cargo_parse``; every token
   sequence up to the bound, rendered to text, under all configurations through ``cfg.eval_cfg``.
3. (B) seeded random: SemVer triples with large numbers and odd identifiers, requirement lists with
   versions around their bounds, random cfg trees with realistic names and random malformed texts
   (a malformed text must raise MesonException: never a value, never another exception).
All verdicts are computed by TLC (TraceCargo.tla) from the texts themselves.
"""
from __future__ import annotations

import json
import random
import sys
import typing as T
from concurrent.futures import ProcessPoolExecutor

from . import common
from .common import Check, MachineryError, SPECS, run_tlc, scratch

PROP = 'C20'
FAM = SPECS / 'cargo'
cp = common.codepoints


def txt(cps: T.Sequence[int]) -> str:
    return ''.join(chr(c) for c in cps)


# ---------------------------------------------------------------------------
# the real code

_MODS: T.Any = None


def mods() -> T.Any:
    global _MODS
    if _MODS is None:
        common.use_repo_meson()
        from mesonbuild.cargo import version as cv, cfg as cc
        from mesonbuild.mesonlib import MesonException
        _MODS = (cv, cc, MesonException)
    return _MODS


def rel_code(x: T.Any, y: T.Any) -> int:
    try:
        return ((x < y) is True) * 1 + ((x <= y) is True) * 2 + ((x > y) is True) * 4 + ((x >= y) is True) * 8 \
            + ((x == y) is True) * 16 + ((x != y) is True) * 32
    except Exception:
        return 63


def execute(c: T.Dict[str, T.Any], vers: T.List[str], configs: T.List[T.List[T.Dict[str, T.Any]]],
            sv: T.Optional[T.List[T.Any]] = None) -> T.Dict[str, T.Any]:
    cv, cc, MesonException = mods()
    c = dict(c)
    k = c['k']
    try:
        if k == 'svrow':
            if sv is None:
                sv = [cv.SemVer(s) for s in vers]
            a = cv.SemVer(vers[c['a'] - 1])
            c['codes'] = [rel_code(a, b) for b in sv]
        elif k == 'svtri':
            a, b, d = (cv.SemVer(txt(s)) for s in c['s'])
            c['codes'] = [rel_code(a, b), rel_code(b, a), rel_code(b, d), rel_code(d, b), rel_code(a, d), rel_code(d, a)]
        elif k == 'req':
            cv.cargo_parse.cache_clear()
            f = cv.cargo_parse(txt(c['r']))
            c['acc'] = [j + 1 for j, s in enumerate(vers) if f(s) is True]
        elif k == 'cfg':
            text = txt(c['text'])
            got = []
            for cfg in (c['cfgs'] or configs):
                d = {txt(e['n']): txt(e['v']) for e in cfg}
                try:
                    r = cc.eval_cfg(text, d)
                    got.append('T' if r is True else 'F' if r is False else 'X')
                except MesonException as e:
                    got.append('X' if type(e).__name__ == 'MesonBugException' else 'E')
                    if got[-1] == 'X':
                        c['exc'] = f'{type(e).__name__}: {e}'
                except BaseException as e:   # anything else is an observation, not a harness failure
                    if isinstance(e, (KeyboardInterrupt, SystemExit)):
                        raise
                    got.append('X')
                    c['exc'] = f'{type(e).__name__}: {e}'
            c['got'] = got
        else:
            raise MachineryError('unknown case kind ' + k)
    except MachineryError:
        raise
    except Exception as e:
        c['k'] = 'raised'
        c['exc'] = f'{type(e).__name__}: {e}'
    return c


def _w_exec(args: T.Tuple[T.List[T.Dict[str, T.Any]], T.List[str], T.List[T.Any]]) -> T.List[T.Dict[str, T.Any]]:
    cases, vers, configs = args
    cv = mods()[0]
    sv = None
    if any(c['k'] == 'svrow' for c in cases):
        sv = [cv.SemVer(s) for s in vers]
    return [execute(c, vers, configs, sv) for c in cases]


def run_cases(ex: ProcessPoolExecutor, cases: T.List[T.Dict[str, T.Any]], vers: T.List[str],
              configs: T.List[T.Any]) -> T.List[T.Dict[str, T.Any]]:
    step = max(1, min(2000, len(cases) // (common.NCPU * 3) + 1))
    out: T.List[T.Dict[str, T.Any]] = []
    for part in ex.map(_w_exec, [(cases[i:i + step], vers, configs) for i in range(0, len(cases), step)]):
        out.extend(part)
    return out



def verdict_lines(res: T.Any) -> T.Tuple[T.List[T.Dict[str, T.Any]], int]:
    """Verdicts printed by the trace spec and the number of verdict-looking lines that did not parse
    (lines of different workers can interleave)."""
    good, broken = [], 0
    for line in res.stdout.splitlines():
        line = line.strip()
        if line.startswith('"{') or line.startswith('"\\"'):
            try:
                v = json.loads(json.loads(line))
                if isinstance(v, dict) and 'clause' in v and 'id' in v:
                    good.append(v)
                    continue
            except Exception:
                pass
            broken += 1
        elif '\\"clause\\"' in line:
            broken += 1
    return good, broken


# ---------------------------------------------------------------------------
# judging

def signature(c: T.Dict[str, T.Any], v: T.Dict[str, T.Any], item: T.Dict[str, T.Any],
              vers: T.List[str]) -> T.Tuple[str, T.Dict[str, T.Any]]:
    """Signature = clause + the normalised cause computed by the trace spec (never concrete numbers).
    v: the verdict of the case, item: one class of disagreement within it (with its first witness)."""
    clause = v.get('clause', '?')
    k = item.get('class', {})
    wit = item.get('witness', 0)
    info: T.Dict[str, T.Any] = {'kind': c.get('k')}
    if clause == 'SemVerOrder':
        w = k['where']
        exp, got = k['expected'], k['got']
        kinds = [w['kx'], w['ky']]
        if kinds[0] > kinds[1] or (kinds[0] == kinds[1] and exp > 0):   # one signature for both orientations of a pair
            kinds.reverse()
            exp = -exp
            got = {35: 44, 44: 35}.get(got, got)
        rel = {35: 'lt', 26: 'eq', 44: 'gt'}.get(got, f'inconsistent({got})')
        if w['at'] == 'pre' and 'alnum-leading-digit' in kinds:
            sig = 'SemVerOrder@pre-release identifier that starts with a digit but is not a number'
        elif w['at'] == 'pre' and w['idx'] == 1 and kinds == ['num', 'num']:
            sig = 'SemVerOrder@first pre-release identifier numeric on both sides'
        else:
            sig = f"SemVerOrder@{w['at']}[{w['idx']}]:{kinds[0]}/{kinds[1]}:expected={ {-1: 'lt', 0: 'eq', 1: 'gt'}[exp] }:got={rel}"
        if c['k'] == 'svrow':
            info.update(a=vers[c['a'] - 1], b=vers[wit - 1])
        else:
            strings = [txt(x) for x in c['s']]
            pair = [(0, 1), (1, 0), (1, 2), (2, 1), (0, 2), (2, 0)][wit - 1]
            info.update(a=strings[pair[0]], b=strings[pair[1]])
        return sig, info
    if clause == 'ReqMatch':
        shapes = sorted(f"{x['op']}/n{x['n']}/{'pre' if x['pre'] else 'rel'}/{ {-1: 'below', 0: 'same', 1: 'above'}[x['side']] }"
                        for x in k['shapes'])
        name = 'PreReleaseNeedsPre' if k['needspre'] else 'ReqMatch'
        sig = (f"{name}@expected={'T' if k['expected'] else 'F'}:got={'T' if k['got'] else 'F'}:"
               f"version={'pre' if k['vpre'] else 'release'}:comparators=[{', '.join(shapes)}]")
        info.update(requirement=txt(c['r']), version=vers[wit - 1], cargo_itself_says=k.get('cargo'))
        return sig, info
    if clause == 'Cfg':
        kind = k['kind']
        if v.get('badChar'):
            ch = chr(v['badCharCode'])
            cause = 'character no token can start with: ' + ('digit' if ch.isdigit() else 'unterminated quote' if ch == '"' else
                                                             'punctuation' if ch.isascii() else 'non-ascii')
        elif v.get('stringHasDelimiter'):
            cause = 'string literal containing a blank or one of ( ) , ='
        else:
            cause = f"got={k.get('got')}:allowed={''.join(sorted(k.get('allowed', [])))}"
        if kind == 'CfgRaisedOtherException':
            cause += ':' + (c.get('exc') or '').split(':')[0]
        sig = f'{kind}@{cause}'
        cfgs = c['cfgs'] or None
        info.update(text=txt(c['text']), config_index=wit, got=k.get('got'), allowed=k.get('allowed'),
                    config=None if cfgs is None else {txt(e['n']): txt(e['v']) for e in cfgs[wit - 1]},
                    exception=c.get('exc'))
        return sig, info
    if clause.startswith('SemVerAxiom'):
        info.update(strings=[txt(x) for x in c['s']], codes=c['codes'])
        return f"{clause}@{' | '.join(info['strings'])}", info
    return f"{clause}@{json.dumps({x: c[x] for x in c if x not in ('codes', 'acc', 'got')}, sort_keys=True)[:160]}", info


INPUT_KEYS = {'svrow': ['a'], 'svtri': ['s'], 'req': ['r'], 'cfg': ['text', 'cfgs']}


def judge(chk: Check, cases: T.List[T.Dict[str, T.Any]], vers: T.List[str], configs: T.List[T.Any], label: str) -> None:
    if not cases:
        return
    for n, c in enumerate(cases):
        c['id'] = f'{label}:{n}'
    by_id = {c['id']: c for c in cases}
    for c in cases:
        if c['k'] == 'raised':
            chk.violation(f"Raised@{c.get('exc', '')[:120]}", {'case': c})
    live = [c for c in cases if c['k'] != 'raised']
    bad: T.List[T.Dict[str, T.Any]] = []
    for part_no, part in enumerate(common.chunks(live, 250000)):
        with scratch('c20-') as d:
            tf = d / 'cases.json'
            tf.write_text(json.dumps({'vers': [cp(s) for s in vers], 'configs': configs,
                                      'cases': [{k: v for k, v in c.items() if k != 'exc'} for c in part]}))
            res = run_tlc(FAM, 'TraceCargo', env={'TRACE_FILE': str(tf)}, timeout=3600)
            lines, broken = verdict_lines(res)
            if not res.clean:
                raise MachineryError('TraceCargo did not complete cleanly:\n' + res.stdout[-2000:])
            if res.distinct != 2 * len(part):
                raise MachineryError(f'TraceCargo judged {res.distinct // 2} of {len(part)} cases')
            if broken:      # interleaved output: judge again single-threaded
                res1 = run_tlc(FAM, 'TraceCargo', env={'TRACE_FILE': str(tf)}, timeout=3600, workers=1)
                lines, broken = verdict_lines(res1)
                if broken:
                    raise MachineryError('unreadable verdict lines from TraceCargo')
            bad.extend(lines)
        chk.add_tlc(f'TraceCargo[{label}#{part_no}]', res, model=False)
    chk.traces += len(cases)
    for v in bad:
        c = by_id.get(v['id'], {})
        if v.get('clause', '').startswith('spec-') or v.get('clause') == 'unknown-case-kind':
            raise MachineryError(f"the generator produced an input the specification does not cover: {v} / "
                                 f"{ {k: c.get(k) for k in INPUT_KEYS.get(c.get('k'), [])} }")
        keep = {k: c[k] for k in ['k'] + INPUT_KEYS.get(c['k'], []) if k in c}
        small = c['k'] in ('svtri', 'cfg')
        for item in (v.get('items') or [{}]):
            sig, info = signature(c, v, item, vers)
            chk.violation(sig, {'verdict': {x: v[x] for x in v if x != 'items'}, 'class': item, 'inputs': info, 'case': keep,
                                'vers': [] if small else vers, 'configs': configs if c['k'] == 'cfg' else []})


# ---------------------------------------------------------------------------
# rendering of the exported abstract spaces

def ident_text(x: T.Dict[str, T.Any]) -> str:
    s = txt(x['s'])
    return (s or '0') if x['k'] == 'n' else s


def render_version(v: T.Dict[str, T.Any], rnd: T.Optional[random.Random]) -> str:
    nums = v['nums']
    n = 3
    if rnd is not None and not v['pre']:
        if nums[2] == 0 and rnd.random() < 0.5:
            n = 2
            if nums[1] == 0 and rnd.random() < 0.5:
                n = 1
    s = '.'.join(str(x) for x in nums[:n])
    if v['pre']:
        s += '-' + '.'.join(ident_text(x) for x in v['pre'])
    if rnd is not None and n == 3 and rnd.random() < 0.5:
        s += rnd.choice(['+b.7', '+5', '+exp.sha.5114f85', '+0-1'])
    return s


def render_partial(c: T.Dict[str, T.Any]) -> str:
    s = '.'.join(str(x) for x in c['nums'][:c['n']])
    if c['pre']:
        s += '-' + '.'.join(ident_text(x) for x in c['pre'])
    return s


def render_comparator(c: T.Dict[str, T.Any], rnd: T.Optional[random.Random]) -> str:
    if c['op'] == '*':
        return '*'
    p = render_partial(c)
    if rnd is None:
        return c['op'] + p
    if c['op'] == '^' and rnd.random() < 0.6:
        return p
    if c['op'] == '~' and c['n'] <= 2 and not c['pre'] and rnd.random() < 0.5:
        return p + '.*'
    return c['op'] + rnd.choice(['', '', ' ', '  ']) + p


def render_req(cs: T.List[T.Dict[str, T.Any]], rnd: T.Optional[random.Random]) -> str:
    if rnd is None:
        return ', '.join(render_comparator(c, None) for c in cs)
    s = rnd.choice([',', ', ', ' , ', ' ,']).join(render_comparator(c, rnd) for c in cs)
    return rnd.choice(['', '', ' ']) + s + rnd.choice(['', '', ' '])


def tok_text(t: T.Dict[str, T.Any]) -> str:
    k = t['t']
    if k == 'id':
        return txt(t['s'])
    if k == 'str':
        return '"' + txt(t['s']) + '"'
    return k


def render_tokens(toks: T.List[T.Dict[str, T.Any]], rnd: random.Random) -> str:
    out = ''
    for n, t in enumerate(toks):
        if n:
            words = toks[n - 1]['t'] == 'id' and t['t'] == 'id'
            out += ' ' if words or rnd.random() < 0.3 else ''
        out += tok_text(t)
    return 'cfg(' + rnd.choice(['', '', ' ']) + out + rnd.choice(['', '', ' ']) + ')'


# ---------------------------------------------------------------------------
# (B) random generators

ALNUM_IDS = ['alpha', 'beta', 'rc', 'pre', 'dev', 'a', 'b', 'A', 'Z', 'rc-1', 'x-y-z', 'alpha1', 'SNAPSHOT', 'nightly', 'a-', 'r2d2']
DIGIT_LEADING = ['0a', '1b2', '5114f85', '0-1', '00x']


def rand_ident(rnd: random.Random) -> str:
    r = rnd.random()
    if r < 0.45:
        return str(rnd.choice([0, 1, 2, 3, 9, 10, 11, 19, 20, 99, 100, 2024, 20140320, 4294967296, 99999999999,
                               rnd.randint(0, 30)]))
    if r < 0.9:
        return rnd.choice(ALNUM_IDS)
    return rnd.choice(DIGIT_LEADING)


def rand_semver(rnd: random.Random, nums: T.Optional[T.List[int]] = None, pre_p: float = 0.6) -> str:
    if nums is None:
        nums = [rnd.choice([0, 0, 1, 1, 2, 3, 9, 10, 11, 99, 100, 12345]) for _ in range(3)]
    s = '.'.join(str(x) for x in nums)
    if rnd.random() < pre_p:
        s += '-' + '.'.join(rand_ident(rnd) for _ in range(rnd.choice([1, 1, 2, 2, 3, 4])))
    if rnd.random() < 0.25:
        s += rnd.choice(['+build', '+b.7', '+001', '+20130313144700', '+exp.sha.5114f85', '+21AF26D3-117B344092BD'])
    return s


def semver_neighbour(s: str, rnd: random.Random) -> str:
    core, _, build = s.partition('+')
    rel, _, pre = core.partition('-')
    nums = [int(x) for x in rel.split('.')]
    ids = pre.split('.') if pre else []
    r = rnd.random()
    if r < 0.25:
        i = rnd.randrange(3)
        nums[i] = max(0, nums[i] + rnd.choice([-1, 1]))
    elif r < 0.45 and ids:
        i = rnd.randrange(len(ids))
        if ids[i].isdigit():
            ids[i] = str(max(0, int(ids[i]) + rnd.choice([-1, 1, 9, 10])))
        else:
            ids[i] = rand_ident(rnd)
    elif r < 0.6:
        ids = ids + [rand_ident(rnd)]
    elif r < 0.75 and ids:
        ids = ids[:-1]
    elif r < 0.85:
        ids = []
    else:
        ids = [rand_ident(rnd)] + ids[1:]
    out = '.'.join(str(x) for x in nums)
    if ids:
        out += '-' + '.'.join(ids)
    if build and rnd.random() < 0.5:
        out += '+' + build
    return out


def gen_semver_triples(rnd: random.Random, n: int) -> T.List[T.Dict[str, T.Any]]:
    cases = []
    for _ in range(n):
        a = rand_semver(rnd)
        b = semver_neighbour(a, rnd)
        c = semver_neighbour(rnd.choice([a, b]), rnd)
        trip = [a, b, c]
        rnd.shuffle(trip)
        cases.append({'k': 'svtri', 's': [cp(x) for x in trip]})
    return cases


REQ_OPS = ['^', '^', '~', '=', '>', '>=', '<', '<=']


def gen_requirements(rnd: random.Random, n: int) -> T.Tuple[T.List[str], T.List[T.Dict[str, T.Any]]]:
    """Requirement lists over a few base numbers and versions around all their bounds."""
    pool = [0, 1, 2, 3, 9, 10, 11, 12345]
    nums = sorted({rnd.choice(pool) for _ in range(4)} | {0, 1})
    grid = sorted({max(0, x + d) for x in nums for d in (-1, 0, 1)})
    pres = ['', 'alpha', 'beta.2', 'rc.1']
    vers = []
    for a in grid[:6]:
        for b in grid[:5]:
            for c in grid[:5]:
                vers.append(f'{a}.{b}.{c}')
    vers = rnd.sample(vers, min(len(vers), 90))
    vers += [v + '-' + rnd.choice(pres[1:]) for v in rnd.sample(vers, 30)]

    def comparator() -> T.Dict[str, T.Any]:
        k = rnd.choice([1, 2, 2, 3, 3, 3])
        c = {'op': rnd.choice(REQ_OPS), 'n': k, 'nums': [rnd.choice(nums) if i < k else 0 for i in range(3)], 'pre': []}
        if k == 3 and rnd.random() < 0.2:
            p = rnd.choice(pres[1:])
            c['pre'] = [{'k': 'n' if x.isdigit() else 'a', 's': cp(x)} for x in p.split('.')]
        return c
    cases = []
    for _ in range(n):
        cs = [comparator() for _ in range(rnd.choice([1, 1, 2, 2, 3, 4]))]
        cases.append({'k': 'req', 'r': cp(render_req(cs, rnd))})
    cases.append({'k': 'req', 'r': cp('')})
    cases.append({'k': 'req', 'r': cp(' * ')})
    return vers, cases


CFG_NAMES = ['unix', 'windows', 'target_os', 'target_arch', 'target_family', 'target_env', 'feature', 'debug_assertions',
             'a_b', '_x1', 'Test', 'target_pointer_width', 'notify', 'all_features', 'any1', 'not_', 'allx', 'anyhow', 'ALL']
# string values spelled like operator words are ordinary values
CFG_VALUES = ['linux', 'windows', 'x86_64', 'crt-static', '', '64', 'musl', 'a.b', 'Mixed_Case-1', 'all', 'any', 'not', 'all', 'notify']
CFG_DELIM_VALUES = ['a b', 'a,b', 'x(y', 'k=v', 'z)']


def rand_cfg_tree(rnd: random.Random, depth: int) -> str:
    r = rnd.random()
    sp = lambda: rnd.choice(['', '', ' '])   # noqa: E731
    if depth <= 0 or r < 0.3:
        n = rnd.choice(CFG_NAMES)
        if rnd.random() < 0.55:
            v = rnd.choice(CFG_VALUES) if rnd.random() < 0.92 else rnd.choice(CFG_DELIM_VALUES)
            return f'{n}{sp()}={sp()}"{v}"'
        return n
    if r < 0.5:
        return f'not{sp()}({sp()}{rand_cfg_tree(rnd, depth - 1)}{sp()})'
    kw = rnd.choice(['all', 'any'])
    items = [rand_cfg_tree(rnd, depth - 1) for _ in range(rnd.choice([0, 1, 2, 2, 3]))]
    body = (sp() + ',' + rnd.choice(['', ' '])).join(items)
    if items and rnd.random() < 0.06:
        body += sp() + ','
    return f'{kw}{sp()}({sp()}{body}{sp()})'


def rand_config(rnd: random.Random) -> T.List[T.Dict[str, T.Any]]:
    cfg = []
    for n in rnd.sample(CFG_NAMES, rnd.randint(0, 7)):
        cfg.append({'n': cp(n), 'v': cp(rnd.choice(CFG_VALUES + [''] * 4 + CFG_DELIM_VALUES))})
    return cfg


def mutate_text(s: str, rnd: random.Random) -> str:
    frag = ['(', ')', ',', '=', '"', ' ', 'all', 'any', 'not', 'a', 'unix', '"x"', '-', '!', '.', '1', '/', '&&', '#', 'all(', ')(',
            ',,', '==', '= =', '""', "'", ':', '*']
    for _ in range(rnd.choice([1, 1, 2, 3])):
        r = rnd.random()
        p = rnd.randrange(len(s) + 1)
        if r < 0.4:
            s = s[:p] + rnd.choice(frag) + s[p:]
        elif r < 0.7 and s:
            q = min(len(s), p + rnd.choice([1, 1, 2, 4]))
            s = s[:p] + s[q:]
        elif s:
            q = rnd.randrange(len(s) + 1)
            a, b = min(p, q), max(p, q)
            s = s[:a] + s[a:b][::-1] + s[b:]
    return s


def gen_cfg(rnd: random.Random, n: int) -> T.List[T.Dict[str, T.Any]]:
    cases = []
    for _ in range(n):
        inner = rand_cfg_tree(rnd, rnd.choice([0, 1, 2, 2, 3, 4]))
        r = rnd.random()
        if r < 0.45:
            inner = mutate_text(inner, rnd)
        elif r < 0.5:
            frag = ['(', ')', ',', '=', '"x"', ' ', 'all', 'any', 'not', 'a', 'b', '-', '1a', 'é'.encode('ascii', 'ignore').decode() or '?']
            inner = ''.join(rnd.choice(frag) for _ in range(rnd.randint(0, 9)))
        if any(ord(ch) > 126 or ord(ch) < 32 for ch in inner):
            continue
        cases.append({'k': 'cfg', 'text': cp('cfg(' + inner + ')'), 'cfgs': [rand_config(rnd) for _ in range(3)]})
    return cases


def fixed_probes() -> T.List[T.Dict[str, T.Any]]:
    """A handful of fixed inputs at the corners the random generators only reach by luck, so that every run
    (any seed, any tier) exercises - and reports - the same classes."""
    def cfgcase(text: str, cfg: T.Dict[str, str]) -> T.Dict[str, T.Any]:
        return {'k': 'cfg', 'text': cp(text), 'cfgs': [[{'n': cp(n), 'v': cp(v)} for n, v in cfg.items()], []]}
    lin = {'target_os': 'linux', 'unix': '', 'feature': 'a,b', 'a': 'x'}
    kw = {'feature': 'all', 'target_os': 'any', 'all_features': 'not', 'notify': '', 'any1': 'x'}
    kwcases = [cfgcase(t, kw) for t in [
        'cfg(feature = "all")', 'cfg(feature="any")', 'cfg(not(target_os = "any"))', 'cfg(all_features = "not")',
        'cfg(any(notify, all_features = "not"))', 'cfg(all(any1, notify, not(anyhow)))', 'cfg(any1 = "x")', 'cfg(not_)',
        'cfg(all(feature = "all", target_os = "any", all_features = "not"))', 'cfg(feature = " all")', 'cfg(any(feature = "not"))',
        'cfg(notify)', 'cfg(all_features)', 'cfg(allx)', 'cfg(feature = "all" )', 'cfg( feature = "all")']]
    cases = [cfgcase(t, lin) for t in [
        'cfg(target_os = "linux")', 'cfg(target_os = " linux")', 'cfg(target_os = "linux ")', 'cfg(feature = "a,b")',
        'cfg(any(windows, feature = "a b"))', 'cfg(a"= x")', 'cfg(unix")', 'cfg(a-b)', 'cfg(1a)', 'cfg(all(unix, target_os = "linux",))',
        'cfg(all)', 'cfg( all )', 'cfg(not(any))', 'cfg(all(unix target_os))', 'cfg(unix) ', 'cfg()', 'cfg(target_env = "")',
        'cfg(not(not(not(not(not(unix))))))', 'cfg(unix = "")', 'cfg(= "x")', 'cfg("x")', 'cfg(unix,)', 'cfg(unix unix)']
        if t.startswith('cfg(') and t.endswith(')')] + kwcases
    for trip in [['1.0.0-a.0b', '1.0.0-a.1', '1.0.0-a.0'], ['1.0.0-10', '1.0.0-9', '1.0.0-9a'], ['1.0.0-rc.10', '1.0.0-rc.9', '1.0.0-rc'],
                 ['2.0.0', '2.0.0-0', '2.0.0+0'], ['1.0.0-alpha', '1.0.0-alpha.1', '1.0.0-alpha.beta'], ['1.0.0-0a', '1.0.0-1', '1.0.0-00x']]:
        cases.append({'k': 'svtri', 's': [cp(x) for x in trip]})
    return cases


# ---------------------------------------------------------------------------

def mc_cfg(invariants: T.List[str], consts: str, post: str = '') -> str:
    return ('SPECIFICATION Spec\nCONSTANTS\n' + consts + ''.join(f'INVARIANT {i}\n' for i in invariants) +
            'CHECK_DEADLOCK FALSE\n' + (f'POSTCONDITION {post}\n' if post else ''))


SEMVER_INV = ['Trichotomy', 'Reflexive', 'Transitive', 'EqualIffIdentical', 'NumbersFirst', 'PreBelowRelease', 'FirstIdentifierDecides',
              'RoundTrip', 'BuildIgnored', 'PartialPadded', 'SpecExampleChain']
REQ_INV = ['BookEqualsCrate', 'DeviationsExactlyPinned', 'PreReleaseNeedsPre', 'CommaIsConjunction', 'Inclusions', 'TildeVsCaret',
           'ExactMatchesOne', 'Shapes', 'GridAdequate', 'RoundTrip', 'EmptyAndStar']
CFG_INV = ['ParserEqualsGrammar', 'ValuesAgree', 'TrailingCommaHarmless', 'LaxExtendsStrict', 'Laws', 'EmptyLists', 'AllowedShape',
           'LexRoundTrip']


def _w_cfg_enum(args: T.Tuple[T.List[T.Dict[str, T.Any]], int, T.List[int], int, T.List[T.Any]]) -> T.List[T.Dict[str, T.Any]]:
    """Token sequences of length n given by their codes (base len(alphabet)), rendered and evaluated."""
    alphabet, n, codes, sd, configs = args
    out = []
    k = len(alphabet)
    for code in codes:
        idxs = []
        c = code
        for _ in range(n):
            idxs.append(c % k)
            c //= k
        rnd = random.Random(sd * 1000003 + code * 11 + n)
        text = render_tokens([alphabet[j] for j in idxs], rnd)
        out.append(execute({'k': 'cfg', 'text': cp(text), 'cfgs': []}, [], configs))
    return out


def main(chk: Check) -> None:
    quick = chk.tier == 'quick'
    rnd = random.Random(chk.seed * 1000003 + 20)
    chk.rule = ('A: full SemVer pair table over the exported domain (numbers {0,1(,2)}^3 x pre-release lists, 2 spellings each); '
                'every exported comparator (7 operators x partial versions over {0,1,2}, pre-release tags on full versions; '
                'alone and with each exported second comparator) against every exported version ({0..3}^3 x pre-release lists); '
                'every cfg token sequence up to the bound (plus a seeded sample one token longer in the thorough tier) over {all any not ( ) , = a notify "x" "all"} under all 16 settings of a, notify. '
                'B: seeded random SemVer triples, requirement lists, cfg trees and malformed cfg texts. Non-trivial = distinct '
                'requirements accepting some but not all versions, distinct SemVer pairs differing in a pre-release identifier, '
                'distinct cfg texts that are well-formed or rejected for a reason other than the first token.')
    # ---- 1. model checking
    size = 'Small' if quick else 'Full'
    res = run_tlc(FAM, 'SemVer_MC', cfg_text=mc_cfg(SEMVER_INV, f" Nums = {{0, 1{'' if quick else ', 2'}}}\n Pres <- Pres{size}\n", 'EmitDomain'),
                  collect=['semver_domain.json'], timeout=3000, allow_violation=False)
    chk.add_tlc(f'SemVer_MC[{size}]', res)
    sv_domain = json.loads(res.collected['semver_domain.json'])
    res = run_tlc(FAM, 'CargoReq_MC', cfg_text=mc_cfg(REQ_INV, f' ReqNums = {{0, 1, 2}}\n VerNums = {{0, 1, 2, 3}}\n ReqPres <- ReqPres{size}\n'
                                                       f' VerPres <- VerPres{size}\n', 'Emit'),
                  collect=['req_space.json'], timeout=3000, allow_violation=False)
    chk.add_tlc(f'CargoReq_MC[{size}]', res)
    req_space = json.loads(res.collected['req_space.json'])
    ntok = 4 if quick else 6
    res = run_tlc(FAM, 'CargoCfg_MC', cfg_text=mc_cfg(CFG_INV, f' MaxTok = {ntok}\n', 'Emit'), collect=['cfg_space.json'],
                  timeout=3000, allow_violation=False)
    chk.add_tlc(f'CargoCfg_MC[MaxTok={ntok}]', res)
    cfg_space = json.loads(res.collected['cfg_space.json'])
    configs = cfg_space['configs']
    alphabet = cfg_space['alphabet']
    chk.extra.update(model_semver_versions=len(sv_domain), model_comparators=len(req_space['comparators']),
                     model_versions=len(req_space['versions']), model_cfg_tokens=len(alphabet), model_cfg_max_tokens=ntok)

    with ProcessPoolExecutor(max_workers=common.NCPU) as ex:
        # ---- 2. (A1) SemVer pair table
        vers = []
        for v in sv_domain:
            vers.append(render_version(v, None))
            vers.append(render_version(v, rnd))
        rows = run_cases(ex, [{'k': 'svrow', 'a': a + 1} for a in range(len(vers))], vers, [])
        chk.evaluations += len(vers) ** 2
        for a in range(0, len(vers), 5):
            for b in range(0, len(vers), 3):
                if '-' in vers[a] and '-' in vers[b] and vers[a] != vers[b]:
                    chk.nontriv(vers[a] + '|' + vers[b])
        chk.sample({'kind': 'svrow', 'a': vers[3], 'against': vers[:6], 'codes(lt1 le2 gt4 ge8 eq16 ne32)': rows[3]['codes'][:6]})
        judge(chk, rows, vers, [], 'A-semver')

        # ---- (A2) requirement x version grid
        gvers = []
        for v in req_space['versions']:
            gvers.append(render_version(v, None if rnd.random() < 0.5 else rnd))
        cases: T.List[T.Dict[str, T.Any]] = []
        for c in req_space['comparators']:
            cases.append({'k': 'req', 'r': cp(render_req([c], None))})
            cases.append({'k': 'req', 'r': cp(render_req([c], rnd))})
            for d in (rnd.sample(req_space['seconds'], 3) if quick else req_space['seconds']):
                pair = [c, d] if rnd.random() < 0.5 else [d, c]
                cases.append({'k': 'req', 'r': cp(render_req(pair, rnd))})
        cases.append({'k': 'req', 'r': cp('')})
        done = run_cases(ex, cases, gvers, [])
        chk.evaluations += len(done) * len(gvers)
        _account(chk, done, gvers)
        judge(chk, done, gvers, [], 'A-req')

        # ---- (A3) all cfg token sequences up to the bound
        n_impl = 4 if quick else 5
        n_sampled = 0 if quick else 150000      # sequences of n_impl + 1 tokens, seeded sample
        k = len(alphabet)
        chk.extra.update(impl_cfg_exhaustive_tokens=n_impl, impl_cfg_sampled_longer=n_sampled)
        for n in range(0, n_impl + 2):
            total = k ** n
            if n <= n_impl:
                codes: T.Sequence[int] = range(total)
            elif n_sampled:
                codes = sorted(rnd.sample(range(total), n_sampled))
            else:
                break
            step = max(1, min(20000, len(codes) // (common.NCPU * 2) + 1))
            jobs = [(alphabet, n, list(codes[lo:lo + step]), chk.seed, configs) for lo in range(0, len(codes), step)]
            batch: T.List[T.Dict[str, T.Any]] = []
            part_no = 0
            for part in ex.map(_w_cfg_enum, jobs):
                batch.extend(part)
                if len(batch) >= 200000:
                    _account(chk, batch, [])
                    chk.evaluations += len(batch) * len(configs)
                    judge(chk, batch, [], configs, f'A-cfg{n}.{part_no}')
                    batch = []
                    part_no += 1
            if batch:
                _account(chk, batch, [])
                chk.evaluations += len(batch) * len(configs)
                judge(chk, batch, [], configs, f'A-cfg{n}.{part_no}')

        # ---- fixed probes
        done = run_cases(ex, fixed_probes(), [], [])
        chk.evaluations += len(done)
        judge(chk, done, [], [], 'P')

        # ---- 3. (B) random
        nb = 1 if quick else 4
        for bno in range(nb):
            brnd = random.Random(chk.seed * 7919 + bno + 1)
            tri = run_cases(ex, gen_semver_triples(brnd, 3000 if quick else 10000), [], [])
            chk.evaluations += len(tri)
            _account(chk, tri, [])
            judge(chk, tri, [], [], f'B-semver{bno}')
            for sub in range(2 if quick else 3):
                rvers, rcases = gen_requirements(brnd, 600 if quick else 1500)
                done = run_cases(ex, rcases, rvers, [])
                chk.evaluations += len(done) * len(rvers)
                _account(chk, done, rvers)
                judge(chk, done, rvers, [], f'B-req{bno}.{sub}')
            ccases = run_cases(ex, gen_cfg(brnd, 4000 if quick else 20000), [], [])
            chk.evaluations += 3 * len(ccases)
            _account(chk, ccases, [])
            judge(chk, ccases, [], [], f'B-cfg{bno}')
    chk.exhaustive = True
    chk.assumptions += [
        'pointwise agreement with Cargo is claimed for release versions, for pre-release versions against requirements '
        'naming no pre-release, and for pre-release versions whose major.minor.patch is named by a pre-release comparator '
        'when all other comparators are full plain comparisons or sit on the same major.minor.patch (CargoReq!InScope); '
        'other (pre-release version, pre-release requirement) pairs are executed but not judged',
        'version strings are valid SemVer (1-3 numeric parts below 10^9 without sign, identifiers over [0-9A-Za-z-]); '
        'numeric pre-release identifiers may be arbitrarily large; `!=`, `1.*.*`, partial versions with pre-release tags '
        'and requirements Cargo itself rejects are not generated',
        'cfg(): blanks are spaces only; no escapes or raw strings in string literals; identifiers are ASCII; nesting depth <= 5; '
        '`true`/`false` literals (Rust 1.88) are outside the statement and not generated as names',
        'cfg(): a trailing comma in all()/any() may be accepted or rejected; all/any/not not followed by "(" may be rejected '
        'or read as a plain name (Cargo and rustc disagree)',
        'the configuration is a dict name -> value; a name set without a value has the value ""',
    ]


def _account(chk: Check, cases: T.List[T.Dict[str, T.Any]], vers: T.List[str]) -> None:
    taken = 0
    for c in cases:
        k = c['k']
        if k == 'req' and 0 < len(c.get('acc', [])) < len(vers):
            chk.nontriv('req:' + txt(c['r']).replace(' ', ''))
        elif k == 'svtri':
            chk.nontriv('tri:' + '|'.join(txt(s) for s in c['s']))
        elif k == 'cfg':
            got = c.get('got', [])
            if any(g != 'E' for g in got) or txt(c['text']).count('(') >= 2:
                chk.nontriv('cfg:' + txt(c['text']))
        if taken < 2 and k in ('req', 'cfg', 'svtri') and (k != 'cfg' or any(g != 'E' for g in c.get('got', []))) \
                and (k != 'req' or (0 < len(c.get('acc', [])) < len(vers) and ',' in txt(c['r']))):
            if k == 'req':
                chk.sample({'kind': 'req', 'requirement': txt(c['r']), 'accepted': [vers[j - 1] for j in c['acc']][:10],
                            'of': len(vers)}, limit=12)
            elif k == 'cfg':
                chk.sample({'kind': 'cfg', 'text': txt(c['text']), 'answers(T/F/E=MesonException/X=other)': ''.join(c['got'])}, limit=12)
            else:
                chk.sample({'kind': 'svtri', 'strings': [txt(s) for s in c['s']], 'codes': c['codes']}, limit=12)
            taken += 1


def replay(chk: Check, data: T.Dict[str, T.Any]) -> None:
    det = data['detail']
    case = det['case']
    if case.get('k') == 'raised':
        raise MachineryError('a case that raised cannot be replayed from its record; re-run the check with the recorded seed')
    vers = det.get('vers') or []
    configs = det.get('configs') or []
    judge(chk, [execute(case, vers, configs)], vers, configs, 'replay')


if __name__ == '__main__':
    sys.exit(common.run_check(main, PROP, replay=replay))
