"""X09 helper: trace folding - rendering abstract command sequences (specs/cmakeinterop/CMakeFold.tla) to
``cmake --trace-expand`` text in both formats, feeding the real ``CMakeTraceParser``, projecting its state, running the
real cmake (real trace text + what cmake itself stored) and the random generator of command sequences (B).

No oracle lives here: the parser's state is only *recorded*; TraceCMakeFold (TLC) judges it.
"""
from __future__ import annotations

import json
import random
import re
import subprocess
import typing as T
from pathlib import Path

from . import common
from .cmakeinterop_genex import call_guarded, fake_env, quiet_meson

Cmd = T.Dict[str, T.Any]           # {'cmd': name, 'args': [[atom, ...], ...]}
SRC_FILE = '/x09/src/CMakeLists.txt'


def C(name: str, *args: T.Union[str, T.List[str]]) -> Cmd:
    return {'cmd': name, 'args': [[a] if isinstance(a, str) else list(a) for a in args]}


# ---------------------------------------------------------------------------
# rendering

def arg_text(a: T.List[str]) -> str:
    return ';'.join(a)


def render_json(cmds: T.List[Cmd]) -> str:
    lines = ['{"version":{"major":1,"minor":2}}']
    for n, c in enumerate(cmds, 1):
        lines.append(json.dumps({'args': [arg_text(a) for a in c['args']], 'cmd': c['cmd'], 'file': SRC_FILE, 'frame': 1,
                                 'global_frame': 1, 'line': n, 'time': 1700000000.0 + n}))
    return '\n'.join(lines) + '\n'


def render_human(cmds: T.List[Cmd]) -> str:
    # cmake prints `<file>(<line>):  <cmd>(<arg> <arg> ... )`
    out = []
    for n, c in enumerate(cmds, 1):
        out.append(f'{SRC_FILE}({n}):  {c["cmd"]}({"".join(arg_text(a) + " " for a in c["args"])})\n')
    return ''.join(out)


# ---------------------------------------------------------------------------
# the real parser

class _TraceText:
    """What CMakeTraceParser needs of `trace_file_path`: the trace text, without a file."""

    def __init__(self, text: str) -> None:
        self.text = text

    def is_file(self) -> bool:
        return True

    def read_text(self, *a: T.Any, **k: T.Any) -> str:
        return self.text

    def __str__(self) -> str:
        return '<x09 trace text>'


def parse_real(text: str, fmt: str) -> T.Any:
    from mesonbuild.cmake.traceparser import CMakeTraceParser
    quiet_meson()
    # the parser picks the format from the cmake version: json-v1 from 3.17 on, human before
    tp = CMakeTraceParser('3.25.1' if fmt == 'json' else '3.16.0', Path('/nonexistent-x09'), fake_env(False))
    tp.trace_file_path = _TraceText(text)  # type: ignore[assignment]
    tp.parse()
    return tp


def project(tp: T.Any, var_names: T.List[str], only: T.Optional[T.Set[str]] = None) -> T.Dict[str, T.Any]:
    """Observable state of a parser: variables through get_cmake_var, targets with their non-empty properties."""
    from mesonbuild.cmake.traceparser import CMakeGeneratorTarget
    tg = []
    for name, t in tp.targets.items():
        if only is not None and name not in only:
            continue
        props = []
        for k, v in t.properties.items():
            vv = [x for x in v if x]
            if vv:
                props.append({'n': k, 'v': vv})
        custom = isinstance(t, CMakeGeneratorTarget)
        tg.append({'n': name, 'type': t.type, 'imp': bool(t.imported), 'props': props,
                   'deps': [str(x) for x in t.depends if x],
                   'cmds': [[str(y) for y in x] for x in t.command] if custom else [],
                   'wd': (t.working_dir.as_posix() if t.working_dir is not None else '') if custom else ''})
    return {'x': '', 'vars': [{'n': n, 'v': [x for x in tp.get_cmake_var(n) if x]} for n in var_names], 'tg': tg,
            'errs': len(tp.errors)}


def observe(cmds: T.List[Cmd], fmt: str, var_names: T.List[str], k: int) -> T.Dict[str, T.Any]:
    text = (render_json if fmt == 'json' else render_human)(cmds[:k])
    if fmt == 'human' and k == 0:
        text = '\n'
    tp, x = call_guarded(lambda: parse_real(text, fmt))
    if x:
        return {'k': k, 'x': x, 'vars': [], 'tg': [], 'errs': 0}
    o = project(tp, var_names)
    o['k'] = k
    return o


def run_cases(cases: T.List[T.Dict[str, T.Any]]) -> T.List[T.Dict[str, T.Any]]:
    """Worker body: cases have id, fmt, cmds, vn (variable names), ks (prefix lengths to observe)."""
    common.use_repo_meson()
    for c in cases:
        c['obs'] = [observe(c['cmds'], c['fmt'], c['vn'], k) for k in c['ks']]
    return cases


# ---------------------------------------------------------------------------
# the real cmake: the trace it writes for a command sequence, and what it stored itself

KEYWORDS = {'CACHE', 'FORCE', 'INTERFACE', 'IMPORTED', 'ALIAS', 'GLOBAL', 'ALL', 'COMMAND', 'DEPENDS', 'SOURCES', 'VERBATIM',
            'WORKING_DIRECTORY', 'BYPRODUCTS', 'COMMENT', 'TARGET', 'APPEND', 'APPEND_STRING', 'PROPERTY', 'PROPERTIES', 'PUBLIC',
            'PRIVATE', 'LINK_PUBLIC', 'LINK_PRIVATE', 'LINK_INTERFACE_LIBRARIES', 'SYSTEM', 'BEFORE', 'AFTER', 'FATAL_ERROR',
            'SEND_ERROR', 'STATUS', 'SHARED', 'STATIC', 'MODULE', 'UNKNOWN', 'OBJECT', 'STRING', 'BOOL', 'VERSION'}
END_MARK = 'X09-END-OF-COMMANDS'


def cmake_source(cmds: T.List[Cmd], var_names: T.List[str], prop_names: T.List[str]) -> str:
    def q(a: T.List[str]) -> str:
        t = arg_text(a)
        if len(a) == 1 and a[0] in KEYWORDS:
            return t
        return '"' + t.replace('\\', '\\\\').replace('"', '\\"').replace('$', '\\$') + '"'
    lines = ['cmake_minimum_required(VERSION 3.19)', 'project(x09 NONE)']
    for c in cmds:
        lines.append(f'{c["cmd"]}({" ".join(q(a) for a in c["args"])})')
    lines.append(f'message(STATUS "{END_MARK}")')
    # what cmake itself holds (not traced as set/set_property: only get_property / file / foreach / if)
    dump = '${CMAKE_BINARY_DIR}/x09-dump.txt'
    lines.append(f'file(WRITE "{dump}" "")')
    for v in var_names:
        lines.append(f'file(APPEND "{dump}" "V|{v}|${{{v}}}\\n")')
    names = []
    for c in cmds:
        if c['cmd'] in ('add_library', 'add_executable', 'add_custom_target') and c['args']:
            names.append(c['args'][0][0])
    for t in dict.fromkeys(names):
        lines.append(f'if(TARGET {t})')
        lines.append(f'  get_property(x09_al TARGET {t} PROPERTY ALIASED_TARGET)')
        lines.append(f'  file(APPEND "{dump}" "T|{t}|${{x09_al}}\\n")')
        for p in prop_names:
            lines.append(f'  get_property(x09_v TARGET {t} PROPERTY {p})')
            lines.append(f'  file(APPEND "{dump}" "P|{t}|{p}|${{x09_v}}\\n")')
        lines.append('endif()')
    return '\n'.join(lines) + '\n'


def cmake_real(args: T.Tuple[T.List[Cmd], T.List[str], T.List[str], str, T.List[str]]) -> T.Dict[str, T.Any]:
    """Run the real cmake on the command sequence: returns {'json': trace text, 'human': trace text, 'w': witness obs}."""
    cmds, var_names, prop_names, tmp, fmts = args
    d = Path(tmp)
    (d / 'src').mkdir(parents=True, exist_ok=True)
    (d / 'src' / 'CMakeLists.txt').write_text(cmake_source(cmds, var_names, prop_names))
    for c in cmds:      # sources of the libraries the project "builds"
        if c['cmd'] == 'add_library':
            for a in c['args'][1:]:
                for x in a:
                    if x.endswith('.c'):
                        (d / 'src' / x).write_text('int x09;\n')
    out: T.Dict[str, T.Any] = {}
    for fmt in fmts:
        b = d / ('b-' + fmt)
        tf = d / f'trace-{fmt}.txt'
        flags = ['--trace-expand', '--trace-format=json-v1'] if fmt == 'json' else ['--trace', '--trace-expand']
        p = subprocess.run(['cmake', '-S', str(d / 'src'), '-B', str(b), '-Wno-dev', f'--trace-redirect={tf}'] + flags,
                           stdout=subprocess.PIPE, stderr=subprocess.STDOUT, text=True, errors='replace')
        if not tf.exists() or END_MARK not in p.stdout:
            raise common.MachineryError('cmake did not process the generated project:\n' + p.stdout[-2500:])
        # errors while the commands were processed (generate-time errors come after the marker and do not matter)
        if re.search(r'CMake Error at CMakeLists\.txt:\d+ \((?!message)', p.stdout.split(END_MARK)[0]):
            raise common.MachineryError('the generated command sequence is not valid CMake:\n' + p.stdout[-2500:])
        text = tf.read_text(errors='replace')
        # cut at the end marker: what follows is the witness dump, not part of the command sequence
        lines = text.splitlines(keepends=True)
        cut = next(i for i, l in enumerate(lines) if END_MARK in l)
        out[fmt] = ''.join(lines[:cut])
        dumpf = b / 'x09-dump.txt'
        if 'w' not in out:
            w_vars, w_tg = [], {}
            for line in dumpf.read_text().splitlines():
                f = line.split('|')
                if f[0] == 'V':
                    w_vars.append({'n': f[1], 'v': [x for x in '|'.join(f[2:]).split(';') if x]})
                elif f[0] == 'T':
                    w_tg[f[1]] = {'n': f[1], 'type': 'skip' if f[2] else '', 'imp': False, 'props': [], 'deps': [], 'cmds': [], 'wd': ''}
                elif f[0] == 'P':
                    v = [x for x in '|'.join(f[3:]).split(';') if x]
                    if v:
                        w_tg[f[1]]['props'].append({'n': f[2], 'v': v})
            out['w'] = {'k': len(cmds), 'x': '', 'vars': w_vars, 'tg': list(w_tg.values()), 'errs': 0}
    return out


def _prefix_text(text: str, fmt: str, k: int, n: int) -> str:
    """The part of a real trace produced by the first k generated commands (they are lines 3..n+2 of the project file)."""
    if k >= n:
        return text
    lines = text.splitlines(keepends=True)
    nxt = k + 3         # line number of command k+1
    for i, l in enumerate(lines):
        if fmt == 'json':
            if '/src/CMakeLists.txt"' in l and f'"line":{nxt},' in l:
                return ''.join(lines[:i])
        elif f'/src/CMakeLists.txt({nxt}):' in l:
            return ''.join(lines[:i])
    raise common.MachineryError(f'cannot find command {k + 1} in the real {fmt} trace')


def run_real_case(c: T.Dict[str, T.Any]) -> T.Dict[str, T.Any]:
    """Worker body for (B-real): cmake writes the trace, the real parser reads it (after every generated command)."""
    common.use_repo_meson()
    r = cmake_real((c['cmds'], c['vn'], c['pn'], c['tmp'], c['fmts']))
    n = len(c['cmds'])
    res = []
    for fmt in c['fmts']:
        obs = []
        for k in range(1, n + 1):
            created = {x['args'][0][0] for x in c['cmds'][:k] if x['cmd'] in ('add_library', 'add_executable', 'add_custom_target')}
            text = _prefix_text(r[fmt], fmt, k, n)
            tp, x = call_guarded(lambda: parse_real(text, fmt), 30.0)
            if x:
                o = {'k': k, 'x': x, 'vars': [], 'tg': [], 'errs': 0}
            else:
                o = project(tp, c['vn'], only=created)
                o['k'] = k
            obs.append(o)
        res.append({'id': f"{c['id']}:{fmt}", 'fmt': fmt + '-real', 'cmds': c['cmds'], 'obs': obs, 'w': [r['w']]})
    return {'cases': res}


# ---------------------------------------------------------------------------
# (B) random command sequences that are valid CMake

OWN_IFACE = {'target_link_libraries': 'LINK_LIBRARIES', 'target_include_directories': 'INCLUDE_DIRECTORIES',
             'target_compile_definitions': 'COMPILE_DEFINITIONS', 'target_compile_options': 'COMPILE_OPTIONS',
             'target_link_options': 'LINK_OPTIONS'}
PROP_NAMES = ['P', 'Q', 'R_X'] + list(OWN_IFACE.values()) + ['INTERFACE_' + x for x in OWN_IFACE.values()] + ['IMPORTED_LOCATION']
VAR_NAMES = ['V', 'W', 'LIST_X', 'CV', 'CW']


class SeqGen:
    """Generates command sequences cmake accepts; it only tracks which names exist and of which kind."""

    def __init__(self, rnd: random.Random, human_ok: bool, spaces: bool, plain: bool = False):
        self.r = rnd
        self.human_ok = human_ok      # every command must be unambiguous in the human format
        self.spaces = spaces          # atoms may contain blanks (json only)
        # plain: only the basic forms of every command (one target per property command, no BEFORE/AFTER, no
        # APPEND_STRING, values always given, COMMAND keyword always written, FORCE always given); used for the
        # delayed-call protocol so that a verdict there is about the protocol and not about one of those forms
        self.plain = plain
        self.kind: T.Dict[str, str] = {}
        self.style: T.Dict[str, str] = {}
        self.n = 0
        self.cmds: T.List[Cmd] = []

    def atom(self, prefix: str = 'a') -> str:
        self.n += 1
        if self.spaces and self.r.random() < 0.15:
            return f'{prefix}{self.n} x'
        return f'{prefix}{self.n}'

    def lst(self, prefix: str = 'a') -> T.List[str]:
        return [self.atom(prefix) for _ in range(self.r.choice([1, 1, 1, 2, 3]))]

    def values(self, prefix: str) -> T.List[T.List[str]]:
        """value arguments of set()/set_property(): one argument in the human format"""
        if self.human_ok:
            return [self.lst(prefix)]
        return [self.lst(prefix) for _ in range(self.r.choice([1, 1, 2, 3]))]

    def targets(self, kinds: T.Set[str]) -> T.List[str]:
        return [t for t, k in self.kind.items() if k in kinds]

    def step(self) -> None:
        r = self.r
        choice = r.random()
        nonalias = self.targets({'normal', 'ifc', 'imp', 'exe', 'custom'})
        if choice < 0.12 or not nonalias:
            self.new_target()
        elif choice < 0.24:
            self.var_cmd()
        elif choice < 0.42:
            self.set_property()
        elif choice < 0.50:
            self.set_target_properties()
        elif choice < 0.90:
            self.target_cmd()
        elif choice < 0.95:
            libs = self.targets({'normal', 'custom'})
            if libs:
                self.cmds.append(C('add_dependencies', r.choice(libs), *[self.atom('dep') for _ in range(r.randint(1, 2))]))
        else:
            self.cmds.append(C('message', r.choice(['STATUS', 'SEND_ERROR', 'STATUS']), self.atom('msg')))

    def new_target(self) -> None:
        r = self.r
        k = r.random()
        name = f't{len(self.kind) + 1}'
        if k < 0.3:
            self.kind[name] = 'normal'
            self.cmds.append(C('add_library', name, 'SHARED', f'{name}.c'))
        elif k < 0.45:
            self.kind[name] = 'ifc'
            self.cmds.append(C('add_library', name, 'INTERFACE'))
        elif k < 0.7:
            self.kind[name] = 'imp'
            ty = r.choice(['SHARED', 'STATIC', 'UNKNOWN', 'INTERFACE', 'MODULE'])
            args = [name, ty, 'IMPORTED'] + (['GLOBAL'] if r.random() < 0.3 else [])
            self.cmds.append(C('add_library', *args))
        elif k < 0.78:
            self.kind[name] = 'exe'
            self.cmds.append(C('add_executable', name, 'IMPORTED'))
        elif k < 0.88:
            base = self.targets({'normal', 'ifc'})
            if base:
                self.kind[name] = 'alias'
                self.cmds.append(C('add_library', name, 'ALIAS', r.choice(base)))
        else:
            self.kind[name] = 'custom'
            args: T.List[T.Any] = [name]
            if r.random() < 0.3:
                args.append('ALL')
            if r.random() < 0.3 and not self.plain:
                args += [self.atom('tool'), self.atom('x')]
            for _ in range(r.randint(0 if len(args) > 2 else 1, 2)):
                args += ['COMMAND', self.atom('tool')] + [self.atom('x') for _ in range(r.randint(0, 2))]
            if r.random() < 0.5:
                args += ['DEPENDS'] + [self.atom('dep') for _ in range(r.randint(1, 2))]
            if r.random() < 0.3:
                args += ['WORKING_DIRECTORY', '/wd' + str(self.n)]
            if r.random() < 0.3:
                args.append('VERBATIM')
            if r.random() < 0.25 and not self.plain:
                args += ['SOURCES', f'{name}.c']
            self.cmds.append(C('add_custom_target', *args))

    def var_cmd(self) -> None:
        r = self.r
        k = r.random()
        if k < 0.5:
            v = r.choice(['V', 'W', 'LIST_X'])
            if r.random() < 0.15:
                self.cmds.append(C('set', v) if r.random() < 0.5 else C('set', v, []))
            else:
                self.cmds.append(C('set', v, *self.values('v')))
        elif k < 0.65:
            self.cmds.append(C('unset', r.choice(['V', 'W', 'LIST_X'])))
        elif k < 0.92:
            args: T.List[T.Any] = [r.choice(['CV', 'CW']), self.lst('c'), 'CACHE', r.choice(['STRING', 'BOOL']), 'doc']
            if r.random() < 0.35 or self.plain:
                args.append('FORCE')
            self.cmds.append(C('set', *args))
        else:
            self.cmds.append(C('unset', r.choice(['CV', 'CW']), 'CACHE'))

    def set_property(self) -> None:
        r = self.r
        ts = self.targets({'normal', 'ifc', 'imp', 'exe', 'custom'})
        chosen = r.sample(ts, min(len(ts), 1 if self.plain else r.choice([1, 1, 1, 2])))
        args: T.List[T.Any] = ['TARGET'] + chosen
        k = r.random() if not self.plain else r.choice([0.1, 0.9])
        names = ['P', 'Q', 'R_X', 'INTERFACE_LINK_LIBRARIES', 'INTERFACE_COMPILE_DEFINITIONS', 'IMPORTED_LOCATION']
        if k < 0.35:
            args.append('APPEND')
        elif k < 0.45:
            # cmake keeps its built-in usage-requirement properties as entry lists and appends an entry even for
            # APPEND_STRING, unlike what the manual says for properties in general: only user properties here
            args.append('APPEND_STRING')
            names = ['P', 'Q', 'R_X']
        args += ['PROPERTY', r.choice(names)]
        if r.random() > 0.08 or self.plain:
            args += self.values('p')
        self.cmds.append(C('set_property', *args))

    def set_target_properties(self) -> None:
        r = self.r
        ts = self.targets({'normal', 'ifc', 'imp', 'exe', 'custom'})
        chosen = r.sample(ts, min(len(ts), 1 if self.plain else r.choice([1, 1, 2])))
        args: T.List[T.Any] = chosen + ['PROPERTIES']
        for p in r.sample(['P', 'Q', 'R_X', 'INTERFACE_LINK_OPTIONS', 'IMPORTED_LOCATION'], r.randint(1, 3)):
            args += [p, self.lst('q')]
        self.cmds.append(C('set_target_properties', *args))

    def target_cmd(self) -> None:
        r = self.r
        cmd = r.choice(list(OWN_IFACE))
        ts = self.targets({'normal', 'ifc', 'imp'})
        if not ts:
            return self.new_target()
        t = r.choice(ts)
        full = self.kind[t] == 'normal'
        args: T.List[T.Any] = [t]
        pre = '/inc' if cmd == 'target_include_directories' else {'target_compile_definitions': 'DEF', 'target_compile_options': '-fo',
                                                                  'target_link_options': '-Wl', 'target_link_libraries': 'lib'}[cmd]
        before = False
        if cmd == 'target_include_directories':
            if r.random() < 0.25:
                args.append('SYSTEM')
            k = r.random() if not self.plain else 1.0
            if k < 0.25:
                args.append('BEFORE')
                before = True
            elif k < 0.4:
                args.append('AFTER')
        elif cmd in ('target_compile_options', 'target_link_options') and r.random() < 0.3 and not self.plain:
            args.append('BEFORE')
            before = True
        if cmd == 'target_link_libraries':
            # cmake refuses to mix the plain signature with the keyword signatures (the legacy LINK_* ones included)
            if full and self.style.get(t) != 'kw' and r.random() < 0.3:
                self.style[t] = 'plain'
                args += [self.lst(pre) for _ in range(r.randint(1, 3))]
                self.cmds.append(C(cmd, *args))
                return
            if self.style.get(t) == 'plain':
                return
            self.style[t] = 'kw'
            if full and r.random() < 0.25:
                for _ in range(r.randint(1, 2)):
                    args += [r.choice(['LINK_PRIVATE'] if self.plain else ['LINK_PUBLIC', 'LINK_PRIVATE'])] + [self.lst(pre) for _ in range(r.randint(1, 2))]
                self.cmds.append(C(cmd, *args))
                return
        if cmd == 'target_include_directories' and self.human_ok:
            # the human format cannot tell two directories from one directory containing a blank
            args += [r.choice(['PUBLIC', 'PRIVATE', 'INTERFACE']) if full else 'INTERFACE', self.atom(pre)]
            self.cmds.append(C(cmd, *args))
            return
        # "BEFORE: the content will be prepended" - the manual does not say how several keyword groups are ordered
        # among themselves when prepended, so a prepending command has one group
        for _ in range(1 if before else r.randint(1, 3)):
            args.append(r.choice(['PUBLIC', 'PRIVATE', 'INTERFACE']) if full else 'INTERFACE')
            args += [self.lst(pre) for _ in range(r.randint(0 if len(args) > 3 else 1, 2))]
        self.cmds.append(C(cmd, *args))


def random_sequence(rnd: random.Random, length: int, human_ok: bool, spaces: bool, plain: bool = False) -> T.List[Cmd]:
    g = SeqGen(rnd, human_ok or plain, spaces, plain)
    while len(g.cmds) < length:
        g.step()
    return g.cmds


def protocol_sequence(rnd: random.Random, length: int) -> T.List[Cmd]:
    """A command sequence as Meson's preload.cmake makes cmake trace it: a list of delayed command names is loaded,
    and meson_ps_execute_delayed_calls() appears now and then."""
    base = random_sequence(rnd, length, True, False, plain=True)
    names = rnd.sample(['set_property', 'add_custom_target', 'set_target_properties', 'target_link_libraries', 'add_dependencies'],
                       rnd.randint(1, 3))
    at = rnd.randint(0, min(2, len(base)))
    out: T.List[Cmd] = []
    for i, c in enumerate(base):
        if i == at:
            out += [C('set', 'MESON_PS_DELAYED_CALLS', names), C('meson_ps_reload_vars')]
        out.append(c)
        if i >= at and rnd.random() < 0.3:
            out.append(C('meson_ps_execute_delayed_calls'))
    if rnd.random() < 0.5:
        out.append(C('meson_ps_execute_delayed_calls'))
    return out
