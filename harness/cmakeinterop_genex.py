"""X09 helper: generator expressions - rendering of abstract trees (specs/cmakeinterop/Genex.tla), driving the real
``parse_generator_expressions`` with a synthetic trace parser, the real-cmake witness, and the random generator (B).

No oracle lives here: values are only *recorded*; TraceGenex (TLC) judges them.
"""
from __future__ import annotations

import os
import random
import re
import signal
import subprocess
import types
import typing as T
from pathlib import Path

from . import common

Node = T.Dict[str, T.Any]
Param = T.List[Node]

ARBITRARY = {'LOWER_CASE', 'UPPER_CASE', 'BUILD_INTERFACE', 'INSTALL_INTERFACE'}
VERSION_OPS = ['VERSION_LESS', 'VERSION_GREATER', 'VERSION_EQUAL', 'VERSION_LESS_EQUAL', 'VERSION_GREATER_EQUAL']


def lit(t: str) -> Node:
    return {'k': 'lit', 'n': '', 't': t, 'a': []}


def gx(n: str, *params: Param) -> Node:
    return {'k': 'gx', 'n': n, 't': '', 'a': [list(p) for p in params]}


def cond(c: Param, body: Param) -> Node:
    return {'k': 'cond', 'n': '', 't': '', 'a': [list(c), list(body)]}


# ---------------------------------------------------------------------------
# rendering (abstract tree -> the text CMake / Meson read)

def render_node(nd: Node) -> str:
    if nd['k'] == 'lit':
        return nd['t']
    if nd['k'] == 'cond':
        return '$<' + render(nd['a'][0]) + ':' + render(nd['a'][1]) + '>'
    if not nd['a']:
        return '$<' + nd['n'] + '>'
    return '$<' + nd['n'] + ':' + ','.join(render(p) for p in nd['a']) + '>'


def render(p: Param) -> str:
    return ''.join(render_node(n) for n in p)


# ---------------------------------------------------------------------------
# the real code

class _OptStore:
    """Stand-in for the two look-ups cmake_is_debug() makes (no b_vscrt: the `debug` option decides)."""

    def __init__(self, debug: bool) -> None:
        self.debug = debug

    def __contains__(self, key: T.Any) -> bool:
        return False

    def get_value_for(self, key: T.Any, *a: T.Any) -> T.Any:
        name = getattr(key, 'name', key)
        if name == 'debug':
            return self.debug
        if name == 'buildtype':
            return 'debug' if self.debug else 'release'
        raise KeyError(name)


def fake_env(debug: bool) -> T.Any:
    return types.SimpleNamespace(coredata=types.SimpleNamespace(optstore=_OptStore(debug)))


_quiet_done = False


def quiet_meson() -> None:
    global _quiet_done
    if _quiet_done:
        return
    from mesonbuild import mlog
    mlog.set_quiet()
    # what mlog.no_logging() does, for the life of the worker (warnings about unknown expressions etc.)
    mlog._logger.log_disable_stdout = True
    _quiet_done = True


def make_trace(ctx: T.Dict[str, T.Any], build_dir: str = '/nonexistent-x09') -> T.Tuple[T.Any, T.Any]:
    """Synthetic CMakeTraceParser whose target table is ctx['targets']; returns (parser, context target or None)."""
    from mesonbuild.cmake.traceparser import CMakeTraceParser, CMakeTarget
    quiet_meson()
    tp = CMakeTraceParser('3.25.1', Path(build_dir), fake_env(bool(ctx['debug'])))
    for name, props in ctx['targets'].items():
        tp.targets[name] = CMakeTarget(name, 'UNKNOWN', {k: list(v) for k, v in props.items()}, imported=True)
    return tp, tp.targets.get(ctx['self']) if ctx['self'] else None


class _Timeout(BaseException):
    pass


def _alarm(signum: int, frame: T.Any) -> None:
    raise _Timeout()


def call_guarded(fn: T.Callable[[], T.Any], seconds: float = 10.0) -> T.Tuple[T.Any, str]:
    """Run fn under a watchdog; returns (value, exception class) with class '' / 'MesonException' / name / 'Timeout'.

    The watchdog counts the CPU time of this process (the box is shared and may be heavily loaded: wall time says
    nothing), with a generous wall-clock limit as a backstop for a hang that does not burn CPU."""
    from mesonbuild.mesonlib import MesonException
    old_prof = signal.signal(signal.SIGPROF, _alarm)
    old_real = signal.signal(signal.SIGALRM, _alarm)
    signal.setitimer(signal.ITIMER_PROF, seconds)
    signal.setitimer(signal.ITIMER_REAL, 60 * seconds)
    try:
        return fn(), ''
    except _Timeout:
        return None, 'Timeout'
    except MesonException:
        return None, 'MesonException'
    except Exception as e:  # noqa: BLE001 - the class name is the observation
        return None, type(e).__name__
    finally:
        signal.setitimer(signal.ITIMER_PROF, 0)
        signal.setitimer(signal.ITIMER_REAL, 0)
        signal.signal(signal.SIGPROF, old_prof)
        signal.signal(signal.SIGALRM, old_real)


def eval_real(text: str, tp: T.Any, ctgt: T.Any) -> T.Tuple[str, str]:
    from mesonbuild.cmake.generator import parse_generator_expressions
    v, x = call_guarded(lambda: parse_generator_expressions(text, tp, context_tgt=ctgt))
    if x:
        return '', x
    if not isinstance(v, str):
        return '', 'NotAString:' + type(v).__name__
    return v, ''


def annotate(p: Param, tp: T.Any, ctgt: T.Any) -> None:
    """Record on every expression node what the real code returns for the rendering of that node alone."""
    for nd in p:
        if nd['k'] == 'lit':
            continue
        for q in nd['a']:
            annotate(q, tp, ctgt)
        nd['o'], nd['x'] = eval_real(render_node(nd), tp, ctgt)


def run_cases(cases: T.List[T.Dict[str, T.Any]], ctxs: T.List[T.Dict[str, T.Any]]) -> T.List[T.Dict[str, T.Any]]:
    """Worker body: evaluate every case with the real code (in place) and return the cases."""
    common.use_repo_meson()
    traces = [make_trace(c) for c in ctxs]
    for c in cases:
        tp, ctgt = traces[c['cx'] - 1]
        if c['ty'] == 'raw':
            c['o'], c['x'] = eval_real(c['t'], tp, ctgt)
        else:
            annotate(c['p'], tp, ctgt)
            c['text'] = render(c['p'])
            c['o'], c['x'] = eval_real(c['text'], tp, ctgt)
    return cases


# ---------------------------------------------------------------------------
# the second witness: what cmake itself computes

def _cmake_project(ctx: T.Dict[str, T.Any], texts: T.List[str]) -> T.Tuple[str, T.Dict[int, int]]:
    lines = ['cmake_minimum_required(VERSION 3.19)', 'project(x09 NONE)']
    holder = ctx['self'] or 'x09holder'
    names = list(ctx['targets'])
    if holder not in names:
        names.append(holder)
    for name in names:
        props = ctx['targets'].get(name, {})
        kind = 'SHARED' if any(k.startswith('IMPORTED_') for k in props) else 'INTERFACE'
        lines.append(f'add_library({name} {kind} IMPORTED)')
        for k, v in props.items():
            lines.append(f'set_property(TARGET {name} PROPERTY {k} [==[{";".join(v)}]==])')
    line_of: T.Dict[int, int] = {}
    for i, t in enumerate(texts):
        assert ']==]' not in t
        lines.append(f'set_property(TARGET {holder} PROPERTY X09E{i} [==[{t}]==])')
        ev = f'$<TARGET_GENEX_EVAL:{holder},$<TARGET_PROPERTY:{holder},X09E{i}>>' if ctx['self'] else \
            f'$<GENEX_EVAL:$<TARGET_PROPERTY:{holder},X09E{i}>>'
        lines.append(f'file(GENERATE OUTPUT ${{CMAKE_BINARY_DIR}}/o/{i}.txt CONTENT "{ev}")')
        line_of[len(lines)] = i
    return '\n'.join(lines) + '\n', line_of


def cmake_witness(args: T.Tuple[T.Dict[str, T.Any], T.List[str], str]) -> T.List[T.Tuple[str, str]]:
    """Evaluate the texts with the real cmake in context ctx -> list of (value, 'ok' | 'err')."""
    ctx, texts, tmp = args
    d = Path(tmp)
    d.mkdir(parents=True, exist_ok=True)
    src, line_of = _cmake_project(ctx, texts)
    (d / 'CMakeLists.txt').write_text(src)
    cfg = 'Debug' if ctx['debug'] else 'Release'
    p = subprocess.run(['cmake', '-S', str(d), '-B', str(d / 'b'), f'-DCMAKE_BUILD_TYPE={cfg}', '-Wno-dev'],
                       stdout=subprocess.PIPE, stderr=subprocess.STDOUT, text=True, errors='replace')
    bad: T.Set[int] = set()
    for m in re.finditer(r'CMake Error at CMakeLists\.txt:(\d+) \(file\)', p.stdout):
        ln = int(m.group(1))
        if ln in line_of:
            bad.add(line_of[ln])
    if p.returncode != 0 and not bad:
        raise common.MachineryError('cmake witness run failed:\n' + p.stdout[-2000:])
    out: T.List[T.Tuple[str, str]] = []
    for i in range(len(texts)):
        f = d / 'b' / 'o' / f'{i}.txt'
        if i in bad:
            out.append(('', 'err'))
        elif f.exists():
            out.append((f.read_text(), 'ok'))
        else:
            raise common.MachineryError(f'cmake witness produced no output for {texts[i]!r}:\n' + p.stdout[-1500:])
    return out


# ---------------------------------------------------------------------------
# (B) random well-typed expressions, larger than the model's

BOOL_WORDS = ['', '0', '1', 'ON', 'OFF', 'on', 'Off', 'N', 'y', 'NO', 'Yes', 'TRUE', 'false', 'IGNORE', 'ignore', 'NOTFOUND',
              'foo-NOTFOUND', 'foo-notfound', 'NOTFOUND-x', '-NOTFOUND', '2', '00', 'abc', 'lib.so', 'x y']
WORDS = ['', 'x', 'Y', 'abc', 'AbC', 'a b', '-DFOO=1', '/usr/include', 'lib/foo.so', 'a:b', 'k=v', '1.2', 'foo-NOTFOUND', 'Z9', 'q-1']
COMMA_WORDS = ['a,b', '-Wl,--as-needed', ',', 'x,']
NUMS = ['0', '1', '4', '04', '+4', '-4', '10', '-0', '007', '42', '-10', '2147483647']
VERS = ['1', '1.0', '1.2', '1.2.0', '1.2.3', '1.10', '1.9', '2', '0.9.9', '1.2a', '1.2-rc1', '', '3.0.0.0', '1.02', '10.1']


class Gen:
    def __init__(self, rnd: random.Random, ctx: T.Dict[str, T.Any]):
        self.r = rnd
        self.ctx = ctx
        self.tgts = list(ctx['targets'])
        self.file_tgts = [t for t, ps in ctx['targets'].items()
                          if any(k.startswith('IMPORTED_LOCATION') for k in ps)]

    def word(self, comma_ok: bool = False) -> str:
        r = self.r
        w = r.choice(COMMA_WORDS) if comma_ok and r.random() < 0.25 else r.choice(WORDS)
        x = r.random()
        if x < 0.04:
            w = ' ' + w
        elif x < 0.08:
            w = w + ' '
        return w

    def s(self, d: int, comma_ok: bool = False) -> Param:
        """string-typed param"""
        r = self.r
        if d <= 0 or r.random() < 0.25:
            return [lit(self.word(comma_ok))]
        k = r.random()
        if k < 0.18:
            return [cond(self.b(d - 1), self.s(d - 1, True))]
        if k < 0.36:
            return [gx('IF', self.b(d - 1), self.s(d - 1), self.s(d - 1))]
        if k < 0.46:
            return [gx(r.choice(['LOWER_CASE', 'UPPER_CASE']), self.s(d - 1, True))]
        if k < 0.54:
            return [gx(r.choice(['BUILD_INTERFACE', 'BUILD_INTERFACE', 'INSTALL_INTERFACE']), self.s(d - 1, True))]
        if k < 0.60:
            return [gx(r.choice(['COMMA', 'SEMICOLON', 'ANGLE-R']))]
        if k < 0.72:
            t = r.choice(self.tgts)
            props = list(self.ctx['targets'][t]) + ['NOPE']
            tp: Param = [lit(t)] if r.random() < 0.8 else [gx('TARGET_NAME_IF_EXISTS', [lit(t)])]
            return [gx('TARGET_PROPERTY', tp, [lit(r.choice(props))])]
        if k < 0.77 and self.ctx['self']:
            props = list(self.ctx['targets'][self.ctx['self']]) + ['NOPE']
            return [gx('TARGET_PROPERTY', [lit(r.choice(props))])]
        if k < 0.82:
            return [gx('TARGET_NAME_IF_EXISTS', [lit(r.choice(self.tgts + ['nosuch', 'Foo::Bar']))])]
        if k < 0.87 and self.file_tgts:
            return [gx(r.choice(['TARGET_FILE', 'TARGET_FILE_NAME', 'TARGET_FILE_DIR', 'TARGET_LINKER_FILE']),
                       [lit(r.choice(self.file_tgts))])]
        # concatenation
        n = r.randint(2, 3)
        out: Param = []
        for _ in range(n):
            out += self.s(d - 1, comma_ok)
        return out

    def b(self, d: int) -> Param:
        """boolean-typed param (evaluates to 0 or 1)"""
        r = self.r
        if d <= 0 or r.random() < 0.15:
            return [lit(r.choice(['0', '1']))]
        k = r.random()
        if k < 0.2:
            return [gx('BOOL', [lit(r.choice(BOOL_WORDS))] if r.random() < 0.5 else self.s(d - 1))]
        if k < 0.35:
            return [gx('NOT', self.b(d - 1))]
        if k < 0.55:
            return [gx(r.choice(['AND', 'OR']), *[self.b(d - 1) for _ in range(r.randint(1, 4))])]
        if k < 0.7:
            if r.random() < 0.5:
                w = self.word()
                return [gx('STREQUAL', [lit(w)], [lit(w if r.random() < 0.5 else self.word())])]
            a = self.s(d - 1)
            return [gx('STREQUAL', a, a if r.random() < 0.3 else self.s(d - 1))]
        if k < 0.8:
            a, c = r.choice(NUMS), r.choice(NUMS)
            pa: Param = [lit(a)] if r.random() < 0.7 else [gx('IF', self.b(d - 1), [lit(a)], [lit(r.choice(NUMS))])]
            return [gx('EQUAL', pa, [lit(c)])]
        if k < 0.93:
            a, c = r.choice(VERS), r.choice(VERS)
            pa = [lit(a)] if r.random() < 0.7 else [cond([lit('1')], [lit(a)])]
            return [gx(r.choice(VERSION_OPS), pa, [lit(c)])]
        return [gx('TARGET_EXISTS', [lit(r.choice(self.tgts + ['nosuch']))])]


def random_ctx(rnd: random.Random) -> T.Dict[str, T.Any]:
    vals = [['x', 'y'], ['-Wl,-z,defs'], ['1'], ['OFF'], [], ['a b'], ['foo-NOTFOUND'], ['-DA=1', '-DB'], ['/inc', '/opt/inc'], ['4']]
    targets: T.Dict[str, T.Dict[str, T.List[str]]] = {}
    for t in rnd.sample(['tA', 'tB', 'Foo::Bar', 'lib_z', 'T9'], rnd.randint(1, 4)):
        props = {p: rnd.choice(vals) for p in rnd.sample(['FOO', 'BAR', 'INTERFACE_X', 'MY_FLAGS', 'P1'], rnd.randint(0, 3))}
        targets[t] = props
    # imported libraries with a location
    for t in rnd.sample(['imp1', 'imp2'], rnd.randint(0, 2)):
        props = {}
        mode = rnd.randint(0, 3)
        if mode == 0:
            props['IMPORTED_LOCATION'] = [f'/usr/lib/lib{t}.so']
        else:
            cfgs = [['RELEASE'], ['DEBUG'], ['RELEASE', 'DEBUG'], ['DEBUG', 'RELEASE']][rnd.randint(0, 3)]
            props['IMPORTED_CONFIGURATIONS'] = cfgs
            for c in cfgs:
                props['IMPORTED_LOCATION_' + c] = [f'/opt/{c.lower()}/lib{t}.so.1']
            if mode == 3:
                props['IMPORTED_LOCATION'] = [f'/usr/lib/lib{t}.so']
        targets[t] = props
    plain = [t for t in targets if not t.startswith('imp')]
    return {'targets': targets, 'self': rnd.choice(plain + ['']) if plain else '', 'debug': rnd.random() < 0.5}


def raw_texts(rnd: random.Random, n: int) -> T.List[str]:
    """Arbitrary text over the generator-expression alphabet: unbalanced, unknown names, stray separators."""
    frags = ['$<', '>', ',', ':', 'BOOL', 'AND', 'OR', 'NOT', 'IF', '0', '1', 'STREQUAL', 'EQUAL', 'VERSION_LESS', 'TARGET_PROPERTY',
             'TARGET_EXISTS', 'TARGET_FILE', 'tA', 'FOO', 'CONFIG', 'x', ' ', 'ON', '$', '<', ';', 'COMMA', 'ANGLE-R', 'LOWER_CASE',
             'BUILD_INTERFACE', '-D', '1.2', 'a b', '$<$<', '>>', 'TARGET_NAME_IF_EXISTS', 'LINK_ONLY', 'é', '\t']
    plain = ['x', ' ', 'a>b', ',', ':', '-DFOO=1', '$', '<', '/usr/lib', ';', '>', 'BOOL', '$ <', 'é']
    out = []
    for j in range(n):
        if j % 4 == 3:
            out.append(''.join(rnd.choice(plain) for _ in range(rnd.randint(0, 10))).replace('$<', '$ <'))
        else:
            out.append(''.join(rnd.choice(frags) for _ in range(rnd.randint(1, 14))))
    return out
