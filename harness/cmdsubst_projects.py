"""X02, binding B2: generated projects with custom_target() / generator() / configure_file(command:).

Abstract definitions are rendered to a real source tree, configured with the real ``meson setup`` (ninja backend,
stub ninja) and observed:

* custom_target / generator: the build statement is found in build.ninja (independent reader harness/ninja_ref.py)
  by a marker word that every generated command carries as its first argument; outputs, explicit inputs, depfile and
  the argument words (ninja ``$``-unescaping by ninja_ref, then POSIX word splitting) are recorded;
* configure_file(command:): the command is a recorder script, what is recorded is the argv it really received at
  configure time; when a depfile is requested the recorder writes a prepared depfile there and the build-definition
  files meson registered (meson-info/intro-buildsystem_files.json) are recorded.

Nothing here decides anything: the records are judged by specs/cmdsubst/TraceCmdProject.tla / TraceDepFile.tla.
Whether a definition is *meant* to be legal only decides how definitions are batched into projects (a failing
``meson setup`` says nothing about the other definitions in the same project).
"""
from __future__ import annotations

import json
import os
import random
import shlex
import typing as T
from pathlib import Path

from . import common, ninja_ref, projgen

SUBDIRS = ['', '', 'sub', 'sub/deep']
LITS = ['x', '-o', '--opt=', '.ext', '/', ',', ':', 'user@host', '@foo@', '-D', 'a b', '=', 'dir/', '.d', '@FOO@', '-', '_1',
        "q's", 'a\\b', '$v', 'é', '@0@']
IN_STEMS = ['in', 'data.c', 'x.y.z', 'noext', 'lib-1.2']
IN_EXTS = ['', '.txt', '.in', '.idl']
IN_DIRS = ['', '', 'd', 'd/e']


def mstr(s: str) -> str:
    return "'" + s.replace('\\', '\\\\').replace("'", "\\'") + "'"


def mlist(xs: T.Iterable[str]) -> str:
    return '[' + ', '.join(mstr(x) for x in xs) + ']'


def _in_names(rnd: random.Random, k: str, n: int) -> T.List[str]:
    out = []
    for j in range(n):
        d = rnd.choice(IN_DIRS)
        out.append((d + '/' if d else '') + f'{rnd.choice(IN_STEMS)}{k}{j}{rnd.choice(IN_EXTS)}')
    return out


def _ph(rnd: random.Random, ni: int, no: int, hasdep: bool, whole: bool, layout: T.Sequence[str]) -> str:
    forms = list(layout)
    if ni >= 1:
        forms += ['INPUTn', 'PLAINNAMEn', 'BASENAMEn']
    if ni == 1 or (ni > 1 and whole):
        forms += ['INPUT', 'INPUT']
    if ni == 1:
        forms += ['PLAINNAME', 'BASENAME']
    if no >= 1:
        forms += ['OUTPUTn', 'OUTDIR']
    if no == 1 or (no > 1 and whole):
        forms += ['OUTPUT', 'OUTPUT']
    if hasdep:
        forms += ['DEPFILE']
    f = rnd.choice(forms)
    if f.endswith('n'):
        n = ni if f[0] in 'IPB' else no
        return '@%s%d@' % (f[:-1], rnd.randrange(n))
    return '@' + f + '@'


def _word(rnd: random.Random, ni: int, no: int, hasdep: bool, layout: T.Sequence[str]) -> str:
    r = rnd.random()
    if r < 0.2:
        return rnd.choice(LITS) + rnd.choice(['', 'y', '1'])
    if r < 0.6:
        return _ph(rnd, ni, no, hasdep, True, layout)
    nph = 1 if r < 0.85 else rnd.randint(2, 3)
    w = rnd.choice(LITS) if rnd.random() < 0.7 else ''
    for j in range(nph):
        w += _ph(rnd, ni, no, hasdep, False, layout)
        if j < nph - 1 or rnd.random() < 0.6:
            w += rnd.choice(LITS)
    return w


CT_LAYOUT = ['PRIVATE_DIR', 'SOURCE_ROOT', 'BUILD_ROOT', 'CURRENT_SOURCE_DIR']


CT_HOWS = ['in-index', 'out-index', 'name-many', 'in-embedded', 'out-embedded', 'no-depfile', 'out-name-many', 'no-input',
           'dep-no-input']
GEN_HOWS = ['no-name', 'plain-output', 'out-index']
CF_HOWS = ['in-index', 'out-index', 'name-many', 'in-embedded', 'no-input']
INVALID_COMBOS = [('ct', h) for h in CT_HOWS] + [('gen', h) for h in GEN_HOWS] + [('cf', h) for h in CF_HOWS]


def gen_ct(rnd: random.Random, k: str, sd: str, valid: bool, how: T.Optional[str] = None) -> T.Dict[str, T.Any]:
    ni = rnd.choice([0, 1, 1, 1, 2, 2, 3, 11])
    no = rnd.choice([1, 1, 1, 2, 2, 3])
    ins = _in_names(rnd, k, ni)
    outs = []
    for j in range(no):
        o = f'o{k}_{j}'
        r = rnd.random()
        if ni == 1 and r < 0.3:
            o += rnd.choice(['_@BASENAME@.c', '_@PLAINNAME@.o', '@BASENAME@'])
        elif ni >= 1 and r < 0.45:
            o += '_@%s%d@.h' % (rnd.choice(['PLAINNAME', 'BASENAME']), rnd.randrange(ni))
        else:
            o += rnd.choice(['.c', '.h', '', '.tar.gz'])
        outs.append(o)
    hasdep = rnd.random() < 0.4
    dep = ''
    if hasdep:
        dep = f'd{k}' + (rnd.choice(['_@BASENAME@.d', '_@PLAINNAME@.d']) if ni == 1 and rnd.random() < 0.5 else '.d')
    cmd = [_word(rnd, ni, no, hasdep, CT_LAYOUT) for _ in range(rnd.randint(1, 7))]
    t = {'k': 'ct', 'name': f'ct{k}', 'sd': sd, 'ins': ins, 'outs': outs, 'dep': dep, 'hasdep': hasdep, 'cmd': cmd}
    if not valid:
        how = how or rnd.choice(CT_HOWS)
        if how == 'in-index':
            t['cmd'].insert(rnd.randrange(len(cmd) + 1), rnd.choice(['', '-i']) + f'@INPUT{ni + rnd.choice([0, 1, 7])}@')
        elif how == 'out-index':
            t['cmd'].insert(rnd.randrange(len(cmd) + 1), rnd.choice(['', '-o']) + f'@OUTPUT{no + rnd.choice([0, 1, 9])}@')
        elif how == 'name-many':
            t['ins'] = _in_names(rnd, k, 2)
            t['outs'] = [f'o{k}_0.c']
            t['dep'], t['hasdep'] = '', False
            t['cmd'] = ['@INPUT@', rnd.choice(['@PLAINNAME@', 'x@BASENAME@.c']), '@OUTPUT@']
        elif how == 'in-embedded':
            t['ins'] = _in_names(rnd, k, 2)
            t['outs'] = [f'o{k}_0.c']
            t['dep'], t['hasdep'] = '', False
            t['cmd'] = [rnd.choice(['./@INPUT@', '--in=@INPUT@', '@INPUT@,']), '@OUTPUT@']
        elif how == 'out-embedded':
            t['outs'] = [f'o{k}_0.c', f'o{k}_1.h']
            t['cmd'] = [w for w in t['cmd'] if 'OUTPUT' not in w] + [rnd.choice(['-o@OUTPUT@', '@OUTPUT@.tmp'])]
        elif how == 'no-depfile':
            t['dep'], t['hasdep'] = '', False
            t['cmd'] = [w for w in t['cmd'] if 'DEPFILE' not in w] + [rnd.choice(['@DEPFILE@', '--dep=@DEPFILE@'])]
        elif how == 'out-name-many':
            t['ins'] = _in_names(rnd, k, 2)
            t['outs'] = [f'o{k}_' + rnd.choice(['@BASENAME@.c', '@PLAINNAME@'])]
            t['dep'], t['hasdep'] = '', False
            t['cmd'] = ['@INPUT@', '@OUTPUT@']
        elif how == 'no-input':
            t['ins'] = []
            t['outs'] = [f'o{k}_0.c']
            t['dep'], t['hasdep'] = '', False
            t['cmd'] = [rnd.choice(['@INPUT@', '@INPUT0@', '-i@INPUT@', '@PLAINNAME@', '@BASENAME@.x']), '@OUTPUT@']
        else:
            t['ins'] = []
            t['outs'] = [f'o{k}_0.c']
            t['dep'], t['hasdep'] = f'd{k}_@BASENAME@.d', True
            t['cmd'] = ['@OUTPUT@']
    return t


def gen_gen(rnd: random.Random, k: str, sd: str, valid: bool, how: T.Optional[str] = None) -> T.Dict[str, T.Any]:
    no = rnd.choice([1, 1, 2])
    outs = [f'g{k}_{j}_' + rnd.choice(['@BASENAME@.c', '@PLAINNAME@.h', '@BASENAME@', '@BASENAME@_@PLAINNAME@.x']) for j in range(no)]
    hasdep = rnd.random() < 0.5
    dep = (f'g{k}_' + rnd.choice(['@BASENAME@.d', '@PLAINNAME@.d'])) if hasdep else ''
    pool = ['@INPUT@', '@INPUT@', '@OUTPUT0@', '-o@OUTPUT0@', '@BUILD_DIR@', '--out=@BUILD_DIR@/x', '@SOURCE_DIR@',
            '-I@SOURCE_DIR@/inc', '@CURRENT_SOURCE_DIR@', '@CURRENT_SOURCE_DIR@/@PLAINNAME@', '@EXTRA_ARGS@', '@BASENAME@.@PLAINNAME@',
            '@BASENAME@', 'x', '--flag=1', 'a b', 'user@host', '@INPUT@:@OUTPUT0@', '@FOO@']
    if no == 1:
        pool += ['@OUTPUT@', '@OUTPUT@', '--o=@OUTPUT@']
    else:
        pool += ['@OUTPUT1@', '@OUTPUT0@,@OUTPUT1@']
    if hasdep:
        pool += ['@DEPFILE@', '--dep=@DEPFILE@']
    args = [rnd.choice(pool) for _ in range(rnd.randint(1, 7))]
    inputs = _in_names(rnd, k, rnd.choice([1, 2, 3]))
    # the harness pairs a build statement with its input by the plain file name: keep those distinct
    seen: T.Set[str] = set()
    inputs = [i for i in inputs if not (os.path.basename(i) in seen or seen.add(os.path.basename(i)))]
    extra = rnd.choice([[], [], ['-e1'], ['-e1', '-e 2']])
    g = {'k': 'gen', 'name': f'g{k}', 'sd': sd, 'outs': outs, 'dep': dep, 'hasdep': hasdep, 'args': args, 'extra': extra,
         'inputs': inputs}
    if not valid:
        how = how or rnd.choice(GEN_HOWS)
        if how == 'no-name':
            g['outs'][rnd.randrange(no)] = f'g{k}_fixed.c'
        elif how == 'plain-output':
            g['outs'] = [f'g{k}_0_@BASENAME@.c', f'g{k}_1_@BASENAME@.h']
            g['args'] = [a for a in args if 'OUTPUT' not in a] + [rnd.choice(['@OUTPUT@', '-o@OUTPUT@'])]
        else:
            g['args'].append(f'@OUTPUT{no + rnd.choice([0, 1])}@')
    return g


def gen_cf(rnd: random.Random, k: str, sd: str, valid: bool, how: T.Optional[str] = None) -> T.Dict[str, T.Any]:
    ni = rnd.choice([0, 1, 1, 2, 3])
    ins = _in_names(rnd, k, ni)
    hasdep = rnd.random() < 0.5
    out = f'cf{k}'
    if ni == 1 and not hasdep and rnd.random() < 0.5:
        out += rnd.choice(['_@BASENAME@.h', '_@PLAINNAME@.h'])
    else:
        out += '.h'
    cmd = [w for w in (_word(rnd, ni, 1, False, []) for _ in range(rnd.randint(1, 6))) if '\\' not in w] or ['x']
    dep = ''
    if hasdep:
        dep = f'cf{k}.d'
        cmd += ['--depfile', '@DEPFILE@']
    c = {'k': 'cf', 'name': f'cf{k}', 'sd': sd, 'ins': ins, 'outs': [out], 'dep': dep, 'hasdep': hasdep, 'cmd': cmd,
         'deplines': [], 'depexist': []}
    if not valid:
        how = how or rnd.choice(CF_HOWS)
        c['dep'], c['hasdep'] = '', False
        if how == 'in-index':
            c['cmd'] = ['@OUTPUT@', f'@INPUT{ni + rnd.choice([0, 2])}@']
        elif how == 'out-index':
            c['cmd'] = ['@INPUT@'] * min(ni, 1) + [f'@OUTPUT{rnd.choice([1, 2])}@']
        elif how == 'name-many':
            c['ins'] = _in_names(rnd, k, 2)
            c['outs'] = [f'cf{k}.h']
            c['cmd'] = ['@INPUT@', rnd.choice(['@PLAINNAME@', '@BASENAME@.x'])]
        elif how == 'in-embedded':
            c['ins'] = _in_names(rnd, k, 2)
            c['outs'] = [f'cf{k}.h']
            c['cmd'] = ['--in=@INPUT@']
        else:
            c['ins'] = []
            c['outs'] = [f'cf{k}.h']
            c['cmd'] = [rnd.choice(['@INPUT@', '@INPUT0@', '@PLAINNAME@'])]
    return c


RECORDER = r'''#!/bin/sh
# records the argv it receives (one word per line) under <log dir>/<marker>; after "--depfile" writes the prepared depfile
mark="$1"; shift
here="$(dirname "$0")"
log="$here/../log/$mark"
: > "$log"
prev=""
for a in "$@"; do
  printf '%s\n' "$a" >> "$log"
  if [ "$prev" = "--depfile" ]; then cp "$here/depcontent/$mark.d" "$a"; fi
  prev="$a"
done
echo generated
'''


def prepare_cf_depfile(rnd: random.Random, root: Path, c: T.Dict[str, T.Any], dep_escape: T.Callable[[str, random.Random], str]) -> None:
    """A depfile for configure_file: the output's file name is the target (test cases/common/14 does the same);
    prerequisites are absolute paths below the source tree, some existing, reached directly or through other rules."""
    base = root / 'src' / 'deps' / c['name']
    files = [str(base / n) for n in ['h1.h', 'h 2.h', 'gen.py', 'deep/h3.h', 'ghost.h', 'unrelated.h', 'tool#1.py']]
    exist = [f for f in files if 'ghost' not in f]
    mid = ['stage1.stamp', 'stage 2.stamp']
    out = c['outs'][0]
    pool = files[:5] + mid
    rules: T.List[T.Tuple[T.List[str], T.List[str]]] = []
    rules.append(([out], rnd.sample(pool, rnd.randint(1, 4))))
    for m in mid:
        if rnd.random() < 0.7:
            rules.append(([m], rnd.sample(files[:5] + [out], rnd.randint(1, 3))))
    rules.append((['other.h'], [files[5], files[6]] if rnd.random() < 0.5 else [files[5]]))
    if rnd.random() < 0.4:
        rules.append(([out, 'second.h'], [files[6]]))
    rnd.shuffle(rules)
    text = ''
    for ts, ds in rules:
        line = ' '.join(dep_escape(t, rnd) for t in ts) + ':'
        for d in ds:
            line += rnd.choice([' ', ' \\\n  ', '  ']) + dep_escape(d, rnd)
        text += line + '\n' + ('\n' if rnd.random() < 0.2 else '')
    lines = text.split('\n')
    if lines[-1] == '':
        lines.pop()
    c['deplines'] = lines
    c['depexist'] = exist
    c['depnames'] = files
    for f in exist:
        Path(f).parent.mkdir(parents=True, exist_ok=True)
        Path(f).write_text('x\n')
    dc = root / 'src' / 'depcontent'
    dc.mkdir(parents=True, exist_ok=True)
    (dc / f"MARK_{c['name']}.d").write_text(text)


def write_project(root: Path, items: T.List[T.Dict[str, T.Any]]) -> None:
    src = root / 'src'
    (root / 'log').mkdir(parents=True, exist_ok=True)
    src.mkdir(parents=True, exist_ok=True)
    (src / 'tool.sh').write_text('#!/bin/sh\nexit 0\n')
    (src / 'rec.sh').write_text(RECORDER)
    os.chmod(src / 'tool.sh', 0o755)
    os.chmod(src / 'rec.sh', 0o755)
    by_sd: T.Dict[str, T.List[str]] = {'': ["project('x02p', version: '1', meson_version: '>=1.5.0')", "prog = find_program('tool.sh')",
                                            "rec = find_program('rec.sh')"]}
    for it in items:
        sd = it['sd']
        parts = sd.split('/') if sd else []
        for j in range(len(parts)):
            by_sd.setdefault('/'.join(parts[:j + 1]), [])
        lines = by_sd.setdefault(sd, [])
        d = src / sd
        for name in it.get('ins', []) + it.get('inputs', []):
            f = d / name
            f.parent.mkdir(parents=True, exist_ok=True)
            f.write_text('x\n')
        mark = 'MARK_' + it['name']
        if it['k'] == 'ct':
            kw = [f"output: {mlist(it['outs'])}", f"command: [prog, {', '.join(mstr(w) for w in [mark] + it['cmd'])}]"]
            if it['ins']:
                kw.insert(0, f"input: {mlist(it['ins'])}")
            if it['hasdep']:
                kw.append(f"depfile: {mstr(it['dep'])}")
            lines.append(f"custom_target({mstr(it['name'])}, {', '.join(kw)})")
        elif it['k'] == 'gen':
            kw = [f"output: {mlist(it['outs'])}", f"arguments: {mlist([mark] + it['args'])}"]
            if it['hasdep']:
                kw.append(f"depfile: {mstr(it['dep'])}")
            lines.append(f"{it['name']} = generator(prog, {', '.join(kw)})")
            ex = f", extra_args: {mlist(it['extra'])}" if it['extra'] else ''
            lines.append(f"{it['name']}_l = {it['name']}.process({', '.join(mstr(i) for i in it['inputs'])}{ex})")
            lines.append(f"custom_target('{it['name']}_user', input: {it['name']}_l, output: '{it['name']}_user.out', "
                         f"command: [prog, '@INPUT@', '@OUTPUT@'])")
        else:
            kw = [f"output: {mstr(it['outs'][0])}", 'capture: true',
                  f"command: [rec, {', '.join(mstr(w) for w in [mark] + it['cmd'])}]"]
            if it['ins']:
                kw.insert(0, f"input: {mlist(it['ins'])}")
            if it['hasdep']:
                kw.append(f"depfile: {mstr(it['dep'])}")
            lines.append(f"configure_file({', '.join(kw)})")
    for sd in sorted(by_sd):
        kids = sorted({s for s in by_sd if s and os.path.dirname(s) == sd})
        body = by_sd[sd] + [f"subdir({mstr(os.path.basename(s))})" for s in kids]
        (src / sd).mkdir(parents=True, exist_ok=True)
        (src / sd / 'meson.build').write_text('\n'.join(body) + '\n')


def _layout(root: Path, sd: str, abs_only: bool) -> T.Dict[str, T.Any]:
    return {'b2s': '../src', 'S': str(root / 'src'), 'B': str(root / 'bld'), 'sd': sd, 'abs': abs_only}


def _argv_after(cmdline: str, mark: str) -> T.Optional[T.List[str]]:
    try:
        argv = shlex.split(cmdline)
    except ValueError:
        return None
    if mark not in argv:
        return None
    return argv[argv.index(mark) + 1:]


def configure_and_observe(root: Path, items: T.List[T.Dict[str, T.Any]]) -> T.Tuple[projgen.SetupResult, T.List[T.Dict[str, T.Any]]]:
    """meson setup; one record per item (per processed input for generators)."""
    res = projgen.setup(root / 'src', root / 'bld')
    cases: T.List[T.Dict[str, T.Any]] = []
    exc = 'crash' if res.crashed else ''
    edges: T.List[T.Any] = []
    dirs: T.List[str] = []
    bsfiles: T.List[str] = []
    if res.ok:
        man = ninja_ref.parse_file(root / 'bld' / 'build.ninja')
        if man.errors:
            raise common.MachineryError('build.ninja not readable: ' + '; '.join(man.errors[:3]))
        edges = [e for e in man.edges if e.rule.startswith('CUSTOM_COMMAND')]
        for dp, dn, _ in os.walk(root / 'bld'):
            for d in dn:
                rel = os.path.relpath(os.path.join(dp, d), root / 'bld')
                if not rel.startswith('meson-'):
                    dirs.append(rel)
        bsfiles = json.loads((root / 'bld' / 'meson-info' / 'intro-buildsystem_files.json').read_text())
    for it in items:
        mark = 'MARK_' + it['name']
        if it['k'] == 'ct':
            c = {'k': 'ct', 'L': _layout(root, it['sd'], False),
                 'T': {'ins': it['ins'], 'outs': it['outs'], 'dep': it['dep'], 'hasdep': it['hasdep'], 'cmd': it['cmd']},
                 'ok': res.ok, 'exc': exc, 'obs': {'cmd': [], 'outs': [], 'ins': [], 'dep': ''}, 'dirs': sorted(dirs)}
            if res.ok:
                hit = [(e, a) for e in edges for a in [_argv_after(e.get('command'), mark)] if a is not None]
                if len(hit) != 1:
                    raise common.MachineryError(f'{len(hit)} build statements carry {mark}')
                e, argv = hit[0]
                c['obs'] = {'cmd': argv, 'outs': list(e.outs), 'ins': list(e.ins), 'dep': e.get('depfile') or ''}
            cases.append(c)
        elif it['k'] == 'gen':
            hits = [(e, a) for e in edges for a in [_argv_after(e.get('command'), mark)] if a is not None] if res.ok else []
            if res.ok and len(hits) != len(it['inputs']):
                raise common.MachineryError(f'{len(hits)} build statements carry {mark}, {len(it["inputs"])} inputs')
            for n, inp in enumerate(it['inputs']):
                c = {'k': 'gen', 'L': _layout(root, it['sd'], False),
                     'G': {'outs': it['outs'], 'dep': it['dep'], 'hasdep': it['hasdep'], 'args': it['args'], 'extra': it['extra']},
                     'input': inp, 'ok': res.ok, 'exc': exc, 'obs': {'cmd': [], 'outs': [], 'in': '', 'dep': ''}, 'sub': n}
                if res.ok:
                    mine = [(e, a) for e, a in hits if e.ins and os.path.basename(e.ins[0]) == os.path.basename(inp)]
                    if len(mine) != 1:
                        raise common.MachineryError(f'cannot pair {mark} with input {inp}')
                    e, argv = mine[0]
                    c['obs'] = {'cmd': argv, 'outs': list(e.outs), 'in': e.ins[0], 'dep': e.get('depfile') or ''}
                cases.append(c)
        else:
            log = root / 'log' / mark
            ran = log.exists()
            argv = log.read_text().split('\n')[:-1] if ran else []
            c = {'k': 'cf', 'L': _layout(root, it['sd'], True),
                 'T': {'ins': it['ins'], 'outs': it['outs'], 'dep': it['dep'], 'hasdep': it['hasdep'], 'cmd': it['cmd']},
                 'ok': ran and (res.ok or exc == ''), 'exc': exc, 'obs': {'cmd': argv}, 'ran': ran}
            # a configure_file that ran is "ok" even when a later definition of the project failed
            c['ok'] = ran
            cases.append(c)
            if it['hasdep'] and res.ok and ran:
                cases.append({'k': 'cfdep', 'lines': it['deplines'], 'out': it['outs'][0], 'exist': it['depexist'],
                              'names': it['depnames'], 'files': bsfiles, 'exc': ''})
    return res, cases
