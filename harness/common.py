"""Shared machinery for the meson TLA+ verification checks.

Everything here is stdlib-only and is used by every ``harness/cNN_*.py`` driver:

* locating the tree under test (``VERIF_REPO``, default ``/repo``) and importing
  meson from it;
* running TLC / SANY on a specification in a private scratch directory and
  parsing TLC's own statistics and the verdict lines printed by trace
  specifications;
* writing the evidence file (``/verif/evidence/<ID>.json``);
* known-findings matching and the ``VIOLATION`` / ``KNOWN-FINDING`` protocol;
* replay files.

Exit codes used by all checks: 0 held, 1 violation (with a VIOLATION line),
2 machinery failure (never reported as a violation).
"""
from __future__ import annotations

import contextlib
import hashlib
import json
import os
import re
import shutil
import subprocess
import sys
import tempfile
import time
import typing as T
from pathlib import Path

VERIF = Path(__file__).resolve().parent.parent
REPO = Path(os.environ.get('VERIF_REPO', '/repo')).resolve()
SPECS = VERIF / 'specs'
EVIDENCE = Path(os.environ.get('VERIF_EVIDENCE_DIR', str(VERIF / 'evidence')))
REPLAYS = Path(os.environ.get('VERIF_REPLAY_DIR', str(VERIF / 'replays')))
PYTHON = os.environ.get('VERIF_PYTHON', '/venv/bin/python')
TLA_JAR = '/opt/veriftools/tla/tla2tools.jar'
TLA_CP = TLA_JAR + ':/opt/veriftools/tla/CommunityModules-deps.jar'
NCPU = os.cpu_count() or 4


class MachineryError(Exception):
    """The checker itself failed (TLC crashed, harness bug): exit 2, never a VIOLATION."""


def tier() -> str:
    t = os.environ.get('VERIF_TIER', 'quick')
    return t if t in ('quick', 'thorough') else 'quick'


def seed() -> int:
    try:
        return int(os.environ.get('VERIF_SEED', '0'))
    except ValueError:
        return 0


def use_repo_meson() -> None:
    """Put the tree under test first on sys.path so ``import mesonbuild`` is the working tree."""
    p = str(REPO)
    if p in sys.path:
        sys.path.remove(p)
    sys.path.insert(0, p)
    for name in list(sys.modules):
        if name == 'mesonbuild' or name.startswith('mesonbuild.'):
            mod = sys.modules[name]
            f = getattr(mod, '__file__', None) or ''
            if not f.startswith(p):
                del sys.modules[name]


@contextlib.contextmanager
def scratch(prefix: str = 'verif-') -> T.Iterator[Path]:
    base = os.environ.get('VERIF_TMPDIR') or os.environ.get('TMPDIR') or '/tmp'
    d = Path(tempfile.mkdtemp(prefix=prefix, dir=base))
    try:
        yield d
    finally:
        shutil.rmtree(d, ignore_errors=True)


# ---------------------------------------------------------------------------
# TLC


class TLCResult:
    def __init__(self, stdout: str, rc: int, wall: float):
        self.stdout = stdout
        self.rc = rc
        self.wall = wall
        self.generated = 0
        self.distinct = 0
        self.depth = 0
        m = None
        for m in re.finditer(r'(\d+) states generated, (\d+) distinct states found', stdout):
            pass
        if m:
            self.generated = int(m.group(1))
            self.distinct = int(m.group(2))
        m = re.search(r'The depth of the complete state graph search is (\d+)', stdout)
        if m:
            self.depth = int(m.group(1))
        self.invariant_violated: T.Optional[str] = None
        m = re.search(r'Invariant (\S+) is violated', stdout)
        if m:
            self.invariant_violated = m.group(1)
        m = re.search(r'Action property (\S+) is violated', stdout)
        if m:
            self.invariant_violated = m.group(1)
        if 'Temporal properties were violated' in stdout:
            self.invariant_violated = self.invariant_violated or 'temporal'
        self.deadlock = 'Deadlock reached' in stdout
        self.finished = ('Model checking completed' in stdout or
                         'Finished in' in stdout or 'Finished computing' in stdout)
        self.collected: T.Dict[str, str] = {}
        self.error = None
        em = re.search(r'^Error: (?!Invariant|Deadlock|Action property|Temporal)(.*)$', stdout, re.M)
        if em and self.invariant_violated is None and not self.deadlock:
            self.error = em.group(1)
        if 'TLC threw an unexpected exception' in stdout or 'Parsing or semantic analysis failed' in stdout \
                or '*** Errors:' in stdout or 'Semantic errors' in stdout:
            self.error = self.error or 'tlc-exception'

    @property
    def clean(self) -> bool:
        """Finished without any error, invariant violation or deadlock."""
        return (self.error is None and self.invariant_violated is None and not self.deadlock
                and self.rc == 0)

    def json_lines(self) -> T.List[T.Any]:
        """Values printed with PrintT(ToJson(x)): one TLA+ string per line holding JSON."""
        out = []
        for line in self.stdout.splitlines():
            line = line.strip()
            if len(line) >= 2 and line[0] == '"' and line[-1] == '"':
                try:
                    out.append(json.loads(json.loads(line)))
                except Exception:
                    continue
        return out

    def coverage(self) -> T.Dict[str, int]:
        """Action name -> number of distinct states found by it (needs -coverage)."""
        cov: T.Dict[str, int] = {}
        for m in re.finditer(r'^<(\w+) line [^>]*>: (\d+):(\d+)', self.stdout, re.M):
            cov[m.group(1)] = max(cov.get(m.group(1), 0), int(m.group(3)))
        return cov


def run_tlc(spec_dir: Path, module: str, cfg: T.Optional[str] = None, *,
            env: T.Optional[T.Dict[str, str]] = None, workers: T.Union[int, str] = 'auto',
            simulate: T.Optional[str] = None, depth: T.Optional[int] = None,
            timeout: int = 1800, coverage: bool = False, deque: bool = False,
            extra: T.Sequence[str] = (), heap: str = '6g', stack: str = '64m', tlc_seed: T.Optional[int] = None,
            allow_violation: bool = True, cfg_text: T.Optional[str] = None,
            files: T.Optional[T.Dict[str, str]] = None,
            collect: T.Sequence[str] = ()) -> TLCResult:
    """Run TLC on ``spec_dir/module.tla`` with ``cfg`` (default ``module.cfg``).

    The spec directory is copied to a scratch directory (together with every
    ``*.tla`` of sibling families referenced through ``EXTENDS`` - all spec
    directories are flattened into it), so TLC never writes under /verif.
    """
    cfg = cfg or (module + '.cfg')
    with scratch('tlc-') as d:
        # flatten all spec families so that cross-family EXTENDS works
        for fam in sorted(SPECS.iterdir()):
            if fam.is_dir():
                for f in fam.iterdir():
                    if f.suffix in ('.tla',):
                        shutil.copy(f, d / f.name)
        for f in spec_dir.iterdir():
            if f.suffix in ('.tla', '.cfg'):
                shutil.copy(f, d / f.name)
        if cfg_text is not None:
            cfg = module + '__gen.cfg'
            (d / cfg).write_text(cfg_text)
        for name, text in (files or {}).items():
            (d / name).write_text(text)
        cmd = ['java', '-XX:+UseParallelGC', '-Xmx' + heap, '-Xss' + stack, f'-Djava.io.tmpdir={d}']
        if deque:
            cmd.append('-Dtlc2.tool.queue.IStateQueue=StateDeque')
        cmd += ['-cp', TLA_CP, 'tlc2.TLC', '-workers', str(workers), '-metadir', str(d / 'meta'),
                '-noGenerateSpecTE', '-config', cfg]
        if simulate:
            cmd += ['-simulate', simulate]
        if depth is not None:
            cmd += ['-depth', str(depth)]
        if coverage:
            cmd += ['-coverage', '1']
        if tlc_seed is not None:
            cmd += ['-seed', str(tlc_seed)]
        cmd += list(extra)
        cmd.append(module + '.tla')
        e = dict(os.environ)
        e.pop('JAVA_TOOL_OPTIONS', None)
        if env:
            e.update(env)
        t0 = time.time()
        try:
            p = subprocess.run(cmd, cwd=d, env=e, stdout=subprocess.PIPE, stderr=subprocess.STDOUT,
                               timeout=timeout, text=True, errors='replace')
        except subprocess.TimeoutExpired as ex:
            raise MachineryError(f'TLC timed out after {timeout}s on {module}/{cfg}') from ex
        res = TLCResult(p.stdout, p.returncode, time.time() - t0)
        res.collected = {}
        for name in collect:
            fp = d / name
            if fp.exists():
                res.collected[name] = fp.read_text()
    if res.error is not None:
        tail = '\n'.join(res.stdout.splitlines()[-40:])
        raise MachineryError(f'TLC failed on {module}/{cfg}: {res.error}\n{tail}')
    if not allow_violation and not res.clean:
        tail = '\n'.join(res.stdout.splitlines()[-60:])
        raise MachineryError(f'TLC reported a problem on {module}/{cfg} (spec-level):\n{tail}')
    return res


def sany(spec_dir: Path, module: str) -> None:
    with scratch('sany-') as d:
        for fam in sorted(SPECS.iterdir()):
            if fam.is_dir():
                for f in fam.iterdir():
                    if f.suffix == '.tla':
                        shutil.copy(f, d / f.name)
        p = subprocess.run(['java', '-cp', TLA_CP, 'tla2sany.SANY', module + '.tla'], cwd=d,
                           stdout=subprocess.PIPE, stderr=subprocess.STDOUT, text=True)
        if p.returncode != 0 or 'rror' in p.stdout:
            raise MachineryError('SANY failed on ' + module + '\n' + p.stdout[-2000:])


# ---------------------------------------------------------------------------
# TLA+ value printing (python -> TLA+ literal), for generated constant modules


def tla(v: T.Any) -> str:
    if isinstance(v, bool):
        return 'TRUE' if v else 'FALSE'
    if isinstance(v, int):
        return str(v)
    if isinstance(v, str):
        return '"' + v.replace('\\', '\\\\').replace('"', '\\"') + '"'
    if isinstance(v, (list, tuple)):
        return '<<' + ', '.join(tla(x) for x in v) + '>>'
    if isinstance(v, (set, frozenset)):
        return '{' + ', '.join(sorted(tla(x) for x in v)) + '}'
    if isinstance(v, dict):
        if not v:
            return '<<>>'
        return '[' + ', '.join(f'{k} |-> {tla(x)}' for k, x in v.items()) + ']'
    raise TypeError(type(v))


# ---------------------------------------------------------------------------
# Parsing TLA+ values as printed by TLC (states of -simulate traces, PrintT)


class _TP:
    def __init__(self, s: str):
        self.s = s
        self.i = 0

    def ws(self) -> None:
        while self.i < len(self.s) and self.s[self.i] in ' \t\r\n':
            self.i += 1

    def peek(self, t: str) -> bool:
        self.ws()
        return self.s.startswith(t, self.i)

    def eat(self, t: str) -> None:
        self.ws()
        if not self.s.startswith(t, self.i):
            raise ValueError(f'expected {t!r} at {self.i}: {self.s[self.i:self.i+30]!r}')
        self.i += len(t)

    def value(self) -> T.Any:
        self.ws()
        s = self.s
        if self.peek('<<'):
            self.eat('<<')
            out = []
            while not self.peek('>>'):
                out.append(self.value())
                if self.peek(','):
                    self.eat(',')
            self.eat('>>')
            return out
        if self.peek('{'):
            self.eat('{')
            out = []
            while not self.peek('}'):
                out.append(self.value())
                if self.peek(','):
                    self.eat(',')
            self.eat('}')
            return {'__set__': out}
        if self.peek('['):
            self.eat('[')
            d: T.Dict[str, T.Any] = {}
            while not self.peek(']'):
                m = re.compile(r'\s*(\w+)\s*\|->').match(s, self.i)
                if not m:
                    raise ValueError('record field expected at ' + s[self.i:self.i + 30])
                self.i = m.end()
                d[m.group(1)] = self.value()
                if self.peek(','):
                    self.eat(',')
            self.eat(']')
            return d
        if self.peek('('):
            # function printed as (a :> 1 @@ b :> 2)
            self.eat('(')
            fd: T.Dict[T.Any, T.Any] = {}
            while not self.peek(')'):
                k = self.value()
                self.eat(':>')
                v = self.value()
                fd[k if isinstance(k, (str, int)) else json.dumps(k)] = v
                if self.peek('@@'):
                    self.eat('@@')
            self.eat(')')
            return fd
        if self.peek('"'):
            j = self.i + 1
            buf = []
            while s[j] != '"':
                if s[j] == '\\':
                    j += 1
                    buf.append({'n': '\n', 't': '\t', 'r': '\r', 'f': '\f'}.get(s[j], s[j]))
                else:
                    buf.append(s[j])
                j += 1
            self.i = j + 1
            return ''.join(buf)
        m = re.compile(r'-?\d+').match(s, self.i)
        if m:
            self.i = m.end()
            return int(m.group(0))
        m = re.compile(r'\w+').match(s, self.i)
        if m:
            self.i = m.end()
            w = m.group(0)
            if w == 'TRUE':
                return True
            if w == 'FALSE':
                return False
            return {'__model__': w}
        raise ValueError('cannot parse TLA+ value at ' + s[self.i:self.i + 40])


def parse_tla_value(s: str) -> T.Any:
    p = _TP(s)
    v = p.value()
    return v


def parse_sim_trace(text: str) -> T.List[T.Tuple[str, T.Dict[str, T.Any]]]:
    """Parse one file written by ``tlc -simulate file=...``: list of (action, state)."""
    out = []
    blocks = re.split(r'^\\\* ', text, flags=re.M)
    # format:  \* <Action line ...>\nSTATE_n == \n/\ v = ...\n/\ w = ...
    for m in re.finditer(r'(?:\\\*\s*<(\w+)[^>]*>\s*\n)?STATE_(\d+)\s*==\s*\n((?:.*\n?)*?)(?=\n\s*\n|\Z)', text):
        action = m.group(1) or 'Init'
        body = m.group(3)
        state: T.Dict[str, T.Any] = {}
        parts = re.split(r'^/\\ ', body, flags=re.M)
        for part in parts:
            part = part.strip()
            if not part:
                continue
            mm = re.match(r'(\w+)\s*=\s*(.*)\Z', part, re.S)
            if mm:
                state[mm.group(1)] = parse_tla_value(mm.group(2))
        out.append((action, state))
    del blocks
    return out


# ---------------------------------------------------------------------------
# Findings / violations / evidence


class Findings:
    """known_findings.json: genuine defects recorded rather than repaired.

    Format: {"findings": [{"property": "C02", "signature": "...", "what": "..."}],
             "fixed": ["fixed: property=C02 <commit> <what failed>", ...]}
    A violation is *known* only if its signature equals a listed signature exactly.
    """

    def __init__(self) -> None:
        p = VERIF / 'known_findings.json'
        self.data = json.loads(p.read_text()) if p.exists() else {'findings': [], 'fixed': []}
        # per-property files (same format), merged
        dd = VERIF / 'known_findings.d'
        if dd.is_dir():
            for f in sorted(dd.glob('*.json')):
                extra = json.loads(f.read_text())
                self.data.setdefault('findings', []).extend(extra.get('findings', []))
                self.data.setdefault('fixed', []).extend(extra.get('fixed', []))

    def lookup(self, prop: str, signature: str) -> T.Optional[T.Dict[str, str]]:
        for f in self.data.get('findings', []):
            if f.get('property') == prop and f.get('signature') == signature:
                return f
        return None


class Check:
    """Book-keeping for one run of one property check."""

    def __init__(self, prop: str, level: str = 'model_checking'):
        self.prop = prop
        self.level = level
        self.t0 = time.time()
        self.tier = tier()
        self.seed = seed()
        self.findings = Findings()
        self.violations: T.List[T.Tuple[str, Path]] = []
        self.known: T.List[str] = []
        self.states = 0
        self.transitions = 0
        self.traces = 0
        self.evaluations = 0
        self.nontrivial: T.Set[str] = set()
        self.samples: T.List[T.Any] = []
        self.assumptions: T.List[str] = []
        self.extra: T.Dict[str, T.Any] = {}
        self.rule = ''
        self.exhaustive = False
        self.tlc_runs: T.List[T.Dict[str, T.Any]] = []
        self.max_reported = 20
        self.suppressed = 0

    # -- statistics
    def add_tlc(self, name: str, res: TLCResult, model: bool = True) -> None:
        """model=True: a model-checking run of a specification (counts as states/transitions of the
        evidence); model=False: a trace-validation run (listed in tlc_runs only)."""
        if model:
            self.states += res.distinct
            self.transitions += res.generated
        self.tlc_runs.append({'run': name, 'distinct_states': res.distinct, 'states_generated': res.generated,
                              'depth': res.depth, 'wall_s': round(res.wall, 2)})

    def sample(self, s: T.Any, limit: int = 8) -> None:
        if len(self.samples) < limit:
            self.samples.append(s)

    def nontriv(self, key: T.Any) -> None:
        if not isinstance(key, str):
            key = json.dumps(key, sort_keys=True, default=str)
        if len(key) > 80:
            key = hashlib.sha1(key.encode()).hexdigest()
        self.nontrivial.add(key)

    # -- violations
    def violation(self, signature: str, detail: T.Any) -> None:
        """Record a violation of the property; known findings are reported separately."""
        kf = self.findings.lookup(self.prop, signature)
        if kf is not None:
            line = f'KNOWN-FINDING: property={self.prop} {kf.get("what", signature)}'
            if line not in self.known:
                self.known.append(line)
                print(line, flush=True)
            return
        if any(sig == signature for sig, _ in self.violations):
            return
        if len(self.violations) >= self.max_reported:
            self.suppressed += 1
            return
        d = REPLAYS / self.prop
        d.mkdir(parents=True, exist_ok=True)
        h = hashlib.sha1(signature.encode()).hexdigest()[:12]
        path = d / f'{h}.json'
        path.write_text(json.dumps({'property': self.prop, 'signature': signature, 'detail': detail,
                                    'tier': self.tier, 'seed': self.seed}, indent=1, default=str))
        self.violations.append((signature, path))
        print(f'VIOLATION property={self.prop} replay={path}', flush=True)
        print(f'  signature: {signature}', flush=True)

    # -- evidence
    def finish(self) -> int:
        EVIDENCE.mkdir(parents=True, exist_ok=True)
        cov: T.Dict[str, T.Any] = {
            'states': self.states,
            'transitions': self.transitions,
            'traces_validated_against_impl': self.traces,
            'samples': self.samples or ['(no sample recorded)'],
            'evaluations': self.evaluations,
            'distinct_nontrivial': len(self.nontrivial),
            'rule': self.rule,
            'exhaustive': self.exhaustive,
            'tlc_runs': self.tlc_runs,
            'known_findings_reported': self.known,
        }
        cov.update(self.extra)
        ev = {
            'property_id': self.prop,
            'tier': self.tier,
            'seed': self.seed,
            'level': self.level,
            'coverage': cov,
            'assumptions': self.assumptions,
            'wall_s': round(time.time() - self.t0, 2),
            'violations': len(self.violations) + self.suppressed,
        }
        (EVIDENCE / f'{self.prop}.json').write_text(json.dumps(ev, indent=1, default=str) + '\n')
        if self.violations:
            return 1
        print(f'OK property={self.prop} tier={self.tier} states={self.states} traces={self.traces} '
              f'evaluations={self.evaluations} wall={ev["wall_s"]}s', flush=True)
        return 0


def run_check(main: T.Callable[[Check], None], prop: str, level: str = 'model_checking',
              replay: T.Optional[T.Callable[[Check, T.Dict[str, T.Any]], None]] = None) -> int:
    chk = Check(prop, level)
    # every temporary file of the run (worker processes and TLC's JVM included) lives under one directory that is
    # removed when the check ends, whatever happened to the workers
    base = os.environ.get('VERIF_TMPDIR') or os.environ.get('TMPDIR') or '/tmp'
    run_tmp = tempfile.mkdtemp(prefix=f'verif-run-{prop}-', dir=base)
    os.environ['TMPDIR'] = os.environ['VERIF_TMPDIR'] = run_tmp
    tempfile.tempdir = None
    try:
        return _run_check(chk, main, prop, replay)
    finally:
        shutil.rmtree(run_tmp, ignore_errors=True)


def _run_check(chk: 'Check', main: T.Callable[['Check'], None], prop: str,
               replay: T.Optional[T.Callable[['Check', T.Dict[str, T.Any]], None]]) -> int:
    try:
        rp = os.environ.get('VERIF_REPLAY')
        if rp:
            if replay is None:
                raise MachineryError('this check has no replay mode; re-run the check with the seed in the replay file')
            data = json.loads(Path(rp).read_text())
            replay(chk, data)
            if chk.violations:
                return 1
            print(f'REPLAY-OK property={prop}: the recorded case no longer violates the property')
            return 0
        main(chk)
    except MachineryError as e:
        print(f'MACHINERY-ERROR property={prop}: {e}', file=sys.stderr, flush=True)
        return 2
    except Exception:  # harness bug: never a violation
        import traceback
        traceback.print_exc()
        print(f'MACHINERY-ERROR property={prop}: unexpected harness exception', file=sys.stderr, flush=True)
        return 2
    return chk.finish()


def size_chunks(xs: T.Sequence[T.Any], n: int, project: T.Optional[T.Callable[[T.Any], T.Any]] = None,
                max_bytes: int = 20_000_000) -> T.Iterator[T.List[T.Any]]:
    """Like chunks(), but a chunk also ends before its JSON text (of project(x) per element) would exceed max_bytes:
    TLC's Json module failed on trace files of about 25 MB and more (thorough tiers of C18 and C01)."""
    cur: T.List[T.Any] = []
    size = 0
    for x in xs:
        b = len(json.dumps(project(x) if project else x)) + 2
        if cur and (len(cur) >= n or size + b > max_bytes):
            yield cur
            cur, size = [], 0
        cur.append(x)
        size += b
    if cur:
        yield cur


def chunks(xs: T.Sequence[T.Any], n: int) -> T.Iterator[T.Sequence[T.Any]]:
    for i in range(0, len(xs), n):
        yield xs[i:i + n]


def codepoints(s: str) -> T.List[int]:
    return [ord(c) for c in s]
