"""C10 part 1 - driver for the dependency() decision table (specs/deps/DepLookup.tla).

Renders abstract cells (configuration of one dependency name + the lookups made on it) into real
projects, runs ``meson setup --backend=none`` on them and projects what the build definitions
observed back to the vocabulary of the specification.  No verdict is computed here: expected
outcomes (for lay-out only) and verdicts come from TLC (TraceDepLookup).

Lay-out of one project (one wrap_mode, many cells, every cell has its own dependency name ``d<k>``,
its own providing subproject ``s<k>`` and its own ``d<k>.pc``):

* cells that are not predicted to abort the configuration are statements of the main meson.build;
* one cell predicted to abort is the last statement of the main meson.build (exit status observed);
* further aborting cells live in optional wrapper subprojects ``c<k>`` (``subproject('c<k>',
  required: false)``) so that their error does not end the run.

The "system" is a private PKG_CONFIG_LIBDIR; ``pkg-config`` is reached through a logging wrapper
script (the only program on PATH), which makes "was the system consulted about d<k>" observable.
"""
from __future__ import annotations

import json
import os
import random
import re
import shutil
import subprocess
import typing as T
from pathlib import Path

from . import common
from .common import MachineryError

REAL_PKGCONFIG = shutil.which('pkg-config') or '/usr/bin/pkg-config'

# concrete versions for the abstract versions 1 < 2 < 3 (seed selects one triple)
VERSION_SETS = [('1.0', '2.0', '3.0'), ('0.9.1', '1.10', '1.10.1'), ('1.2.9', '1.2.10', '2'), ('2.0', '2.1', '10.0')]

Cell = T.Dict[str, T.Any]   # {'id', 'cfg', 'as', 'abort': predicted aborting step or 0, 'meth': 'auto' | 'pkgconfig'}


class Rendering:
    """Seeded choice of concrete spellings."""

    def __init__(self, seed: int):
        self.rnd = random.Random(f'c10-render-{seed}')
        self.versions = VERSION_SETS[seed % len(VERSION_SETS)]

    def version(self, v: int) -> str:
        return self.versions[v - 1]

    def abstract_version(self, s: str) -> int:
        return self.versions.index(s) + 1 if s in self.versions else -1


def _q(s: str) -> str:
    return "'" + s + "'"


def subproject_name(k: int, cfg: T.Dict[str, T.Any]) -> str:
    return f'd{k}' if cfg['prov'] == 'same' else f's{k}'


def render_lookup(k: int, cfg: T.Dict[str, T.Any], a: T.Dict[str, T.Any], rd: Rendering, meth: str = 'auto') -> str:
    sub = subproject_name(k, cfg)
    args = [_q(f'd{k}')]
    v2 = rd.version(2)
    if a['con'] != 'any':
        c = ('>=' if a['con'] == 'ge2' else '<') + v2
        args.append('version: ' + (_q(c) if rd.rnd.random() < 0.5 else '[' + _q(c) + ']'))
    if a['fb'] == 'name':
        args.append('fallback: ' + (_q(sub) if rd.rnd.random() < 0.5 else '[' + _q(sub) + ']'))
    elif a['fb'] == 'namevar':
        args.append(f"fallback: [{_q(sub)}, {_q(f'd{k}_dep')}]")
    if not a['req']:
        args.append('required: false')
    elif rd.rnd.random() < 0.3:
        args.append('required: true')
    if a['af'] != 'unset':
        args.append('allow_fallback: ' + a['af'])
    if a.get('static', 'unset') != 'unset':
        args.append('static: ' + a['static'])
    if meth == 'pkgconfig':
        args.append("method: 'pkg-config'")
    return 'x = dependency(' + ', '.join(args) + ')'


def render_cell_lines(k: int, cell: Cell, rd: Rendering) -> T.Tuple[T.List[str], T.Dict[int, int]]:
    """Statements of one cell; returns (lines, {line index within lines -> step})."""
    cfg = cell['cfg']
    sub = subproject_name(k, cfg)
    lines = [f'# cell {k}: {cell["id"]}']
    steps: T.Dict[int, int] = {}
    if cfg['pre'] == 'subcall':
        lines.append(f'subproject({_q(sub)}, required: false)')
    elif cfg['pre'] == 'ovrmain':
        lines.append(f"meson.override_dependency('d{k}', declare_dependency(version: {_q(rd.version(cfg['mainv']))}, "
                     "variables: {'origin': 'main'}))")
    elif cfg['pre'] == 'ovrnf':
        lines.append(f"meson.override_dependency('d{k}', dependency('', required: false))")
    for j, a in enumerate(cell['as'], 1):
        steps[len(lines)] = j
        lines.append(render_lookup(k, cfg, a, rd, cell.get('meth', 'auto')))
        lines.append(f"message('C10RES {k} {j}', x.found(), x.found() ? x.type_name() : '-', "
                     "x.found() ? x.version() : '-', "
                     "x.found() ? x.get_variable(internal: 'origin', default_value: 'sys') : '-')")
    lines.append(f"message('C10CELL {k} end')")
    return lines, steps


class Project:
    """One real project holding many cells."""

    def __init__(self, root: Path, wm: str, cells: T.List[Cell], wrapped: T.Set[int], rd: Rendering,
                 emit_order: T.Optional[T.List[int]] = None, reconfigure: bool = False):
        self.emit_order = emit_order if emit_order is not None else list(range(len(cells)))
        self.reconfigure = reconfigure   # second configuration of the build directory that is already there
        self.root = root
        self.src = root / 'src'
        self.wm = wm
        self.cells = cells          # index in this list = k
        self.wrapped = wrapped      # ks rendered in wrapper subprojects
        self.rd = rd
        self.linemap: T.Dict[T.Tuple[str, int], T.Tuple[int, int]] = {}   # (file rel to src, line) -> (k, step)
        self.filemap: T.Dict[str, int] = {}                                # file rel to src -> k
        self.fff: T.List[str] = []
        # global default_library of the project (cells of the static / default_library axis share it)
        self.dl: T.Optional[str] = next((c['cfg']['dl'] for c in cells if c['cfg'].get('dl')), None)

    def materialise(self) -> None:
        rd = self.rd
        if not os.access(REAL_PKGCONFIG, os.X_OK):
            raise MachineryError('C10: no pkg-config binary in this environment (it plays the part of "the system")')
        sp = self.src / 'subprojects'
        pc = self.root / 'pc'
        bindir = self.root / 'bin'
        for d in (sp, pc, bindir):
            d.mkdir(parents=True, exist_ok=True)
        wrapper = bindir / 'pkg-config'
        wrapper.write_text('#!/bin/sh\necho "$*" >> "$C10_PKGLOG"\nexec ' + REAL_PKGCONFIG + ' "$@"\n')
        wrapper.chmod(0o755)
        main = ["project('c10main')"]
        for k in self.emit_order:
            cell = self.cells[k]
            cfg = cell['cfg']
            sub = subproject_name(k, cfg)
            if not cfg['sys']:
                (pc / f'd{k}.pc').unlink(missing_ok=True)      # re-configuration: no longer installed
            else:
                (pc / f'd{k}.pc').write_text(f'Name: d{k}\nDescription: C10 system dependency\nVersion: {rd.version(cfg["sys"])}\n')
            if cfg['prov'] != 'none':
                sd = sp / sub
                sd.mkdir(exist_ok=True)
                sdl = cfg.get('sdl', 'none')
                dopt = f", default_options: ['default_library={sdl}']" if sdl != 'none' else ''
                sl = [f"project({_q(sub)}, version: '0.1'{dopt})", f"message('C10SUB {k} begin')"]
                if cfg['style'] == 'broken':
                    sl.append("error('C10 deliberately broken subproject')")
                sl.append(f"d{k}_dep = declare_dependency(version: {_q(rd.version(cfg['subv']))}, variables: {{'origin': 'sub'}})")
                if cfg['style'] == 'ovr':
                    sl.append(f"meson.override_dependency('d{k}', d{k}_dep)")
                sl.append(f"message('C10SUB {k} end')")
                (sd / 'meson.build').write_text('\n'.join(sl) + '\n')
                self.filemap[f'subprojects/{sub}/meson.build'] = k
                if cfg['prov'] == 'wrap':
                    prov = f'd{k} = d{k}_dep' if cfg['style'] == 'var' else f'dependency_names = d{k}'
                    (sp / f'{sub}.wrap').write_text(f'[wrap-file]\ndirectory = {sub}\n\n[provide]\n{prov}\n')
            if 'dep' in cfg['fff']:
                self.fff.append(f'd{k}')
            if 'sub' in cfg['fff']:
                self.fff.append(sub)
            lines, steps = render_cell_lines(k, cell, rd)
            if k in self.wrapped:
                wd = sp / f'c{k}'
                wd.mkdir(exist_ok=True)
                body = [f"project('c{k}')"] + lines
                for idx, step in steps.items():
                    self.linemap[(f'subprojects/c{k}/meson.build', idx + 2)] = (k, step)
                (wd / 'meson.build').write_text('\n'.join(body) + '\n')
                self.filemap[f'subprojects/c{k}/meson.build'] = k
                main.append(f"subproject('c{k}', required: false)")
            else:
                base = len(main)
                for idx, step in steps.items():
                    self.linemap[('meson.build', base + idx + 1)] = (k, step)
                main.extend(lines)
        main.append("message('C10MAIN end')")
        (self.src / 'meson.build').write_text('\n'.join(main) + '\n')

    def run(self, timeout: int) -> T.Tuple[int, str, str]:
        log = self.root / 'pkglog.txt'
        log.write_text('')
        env = {k: v for k, v in os.environ.items() if not k.startswith(('PKG_CONFIG', 'MESON', 'CMAKE', 'NINJA'))}
        env.update({'PATH': str(self.root / 'bin'), 'PKG_CONFIG_LIBDIR': str(self.root / 'pc'), 'C10_PKGLOG': str(log),
                    'LC_ALL': 'C.UTF-8', 'PYTHONDONTWRITEBYTECODE': '1'})
        if self.reconfigure:
            cmd = [common.PYTHON, str(common.REPO / 'meson.py'), 'setup', '--reconfigure', f'-Dwrap_mode={self.wm}',
                   '-Dforce_fallback_for=' + ','.join(self.fff), 'src', 'build']
        else:
            cmd = [common.PYTHON, str(common.REPO / 'meson.py'), 'setup', '--backend=none', f'--wrap-mode={self.wm}']
            if self.fff:
                cmd.append('--force-fallback-for=' + ','.join(self.fff))
            if self.dl:
                cmd.append(f'-Ddefault_library={self.dl}')
            cmd += ['src', 'build']
        try:
            p = subprocess.run(cmd, cwd=self.root, env=env, stdout=subprocess.PIPE, stderr=subprocess.STDOUT,
                               timeout=timeout, text=True, errors='replace')
        except subprocess.TimeoutExpired as e:
            raise MachineryError(f'meson setup timed out after {timeout}s in a C10 batch project') from e
        return p.returncode, p.stdout, log.read_text()


RES_RE = re.compile(r'C10RES (\d+) (\d+) (true|false) (\S+) (\S+) (\S+)\s*$')
SUB_RE = re.compile(r'C10SUB (\d+) (begin|end)\s*$')
CELL_RE = re.compile(r'C10CELL (\d+) end\s*$')
ERR_RE = re.compile(r'^(\S*meson\.build):(\d+):(\d+): ERROR: (.*)$')


def parse_run(prj: Project, rc: int, out: str, pkglog: str) -> T.Tuple[T.Dict[int, T.Dict[str, T.Any]], T.Optional[int]]:
    """-> ({k: {'obs': [...], 'asked': bool}} for every cell whose history was completely observed,
            k of the cell that aborted the whole configuration or None)."""
    rd = prj.rd
    n = len(prj.cells)
    substate = ['unconfigured'] * n
    obs: T.List[T.List[T.Dict[str, T.Any]]] = [[] for _ in range(n)]
    ended = [False] * n
    main_end = False
    err_loc: T.Optional[T.Tuple[str, int]] = None
    for line in out.splitlines():
        m = RES_RE.search(line)
        if m:
            k, j = int(m.group(1)), int(m.group(2))
            found, tname, ver, origin = m.group(3) == 'true', m.group(4), m.group(5), m.group(6)
            if j != len(obs[k]) + 1:
                raise MachineryError(f'C10: result lines of cell {k} out of order')
            if not found:
                o = {'kind': 'notfound', 'v': 0}
            else:
                kind = {'sys': 'sys', 'sub': 'sub', 'main': 'main'}.get(origin, 'alien:' + origin)
                if (kind == 'sys') != (tname == 'pkgconfig') or (kind in ('sub', 'main') and tname != 'internal'):
                    kind = f'alien:{origin}/{tname}'
                o = {'kind': kind, 'v': rd.abstract_version(ver)}
            o['sub'] = substate[k]
            obs[k].append(o)
            continue
        m = SUB_RE.search(line)
        if m:
            k = int(m.group(1))
            substate[k] = 'failed' if m.group(2) == 'begin' else 'ok'
            continue
        m = CELL_RE.search(line)
        if m:
            ended[int(m.group(1))] = True
            continue
        if 'C10MAIN end' in line:
            main_end = True
            continue
        m = ERR_RE.match(line.strip())
        if m:
            err_loc = (m.group(1), int(m.group(2)))
    asked_names = set()
    for line in pkglog.splitlines():
        for tok in line.split():
            if re.fullmatch(r'd\d+', tok):
                asked_names.add(tok)
    aborted: T.Optional[int] = None
    if rc != 0:
        if main_end:
            raise MachineryError('C10: meson setup failed after the build definition was fully evaluated:\n' + out[-1500:])
        if err_loc is None:
            raise MachineryError('C10: meson setup failed without a located error:\n' + out[-2500:])
        rel = err_loc[0]
        rel = rel.split('src/', 1)[1] if 'src/' in rel else rel
        hit = prj.linemap.get((rel, err_loc[1]))
        if hit is not None:
            aborted = hit[0]
        elif rel in prj.filemap:
            aborted = prj.filemap[rel]
        if aborted is None:
            raise MachineryError(f'C10: meson setup failed at an unexpected place {err_loc}:\n' + out[-2500:])
    elif not main_end:
        raise MachineryError('C10: meson setup succeeded but the end marker is missing')
    result: T.Dict[int, T.Dict[str, T.Any]] = {}
    for k, cell in enumerate(prj.cells):
        if ended[k] and len(obs[k]) == len(cell['as']):
            pass
        elif (k in prj.wrapped or k == aborted) and len(obs[k]) < len(cell['as']):
            if k in prj.wrapped and k != aborted and not _wrapper_attempted(out, k):
                continue   # never reached (the run was aborted before)
            obs[k].append({'kind': 'error', 'v': 0, 'sub': substate[k]})
        else:
            continue       # not (completely) reached: to be run again
        result[k] = {'obs': obs[k], 'asked': f'd{k}' in asked_names}
    return result, aborted


def _wrapper_attempted(out: str, k: int) -> bool:
    return re.search(rf'Executing subproject c{k}\b', out) is not None


def run_cells(root: Path, wm: str, cells: T.List[Cell], rd: Rendering, timeout: int = 900,
              max_reruns: int = 12) -> T.Tuple[T.Dict[str, T.Dict[str, T.Any]], T.Dict[str, T.Any]]:
    """Run all cells (same wrap_mode); returns ({cell id: {'obs', 'asked', 'main': bool}}, stats).

    Cells predicted to abort are wrapped, except one which ends the main build file.  When the run
    aborts somewhere unexpected the aborting cell is recorded as such and the rest is run again."""
    done: T.Dict[str, T.Dict[str, T.Any]] = {}
    stats = {'setups': 0, 'unexpected_aborts': 0, 'exit_status_observed': 0, 'unobserved': 0, 'log_tail': ''}
    pending = list(cells)
    attempt = 0
    while pending:
        attempt += 1
        aborting = [c for c in pending if c.get('abort')]
        tail = aborting[-1] if aborting else None
        order = [c for c in pending if c is not tail] + ([tail] if tail is not None else [])
        wrapped = {k for k, c in enumerate(order) if c.get('abort') and c is not tail}
        pdir = root / f'p{attempt}'
        prj = Project(pdir, wm, order, wrapped, rd)
        prj.materialise()
        rc, out, pkglog = prj.run(timeout)
        stats['setups'] += 1
        res, aborted = parse_run(prj, rc, out, pkglog)
        stats['log_tail'] = out[-1200:]
        for k, r in res.items():
            r['main'] = k not in wrapped
            done[order[k]['id']] = r
        if aborted is not None and order[aborted] is tail and rc != 0:
            stats['exit_status_observed'] += 1
        pending = [c for c in order if c['id'] not in done]
        if pending:
            if aborted is None or order[aborted]['id'] not in done:
                raise MachineryError('C10: cells left unobserved without an aborting cell:\n' + out[-2000:])
            stats['unexpected_aborts'] += 1
            if attempt > max_reruns:
                stats['unobserved'] += len(pending)
                break
            # the cell that aborted unexpectedly must not be predicted "fine" again
    return done, stats


def worker(args: T.Tuple[str, str, T.List[Cell], int]) -> T.Tuple[T.Dict[str, T.Dict[str, T.Any]], T.Dict[str, T.Any]]:
    label, wm, cells, seed = args
    rd = Rendering(seed)
    rd.rnd = random.Random(f'c10-render-{seed}-{label}')
    with common.scratch('c10dl-') as d:
        return run_cells(d, wm, cells, rd)


def second_view(c: Cell) -> Cell:
    """The cell as the re-configuration sees it."""
    r2 = c['r2'][0]
    cfg = dict(c['cfg'])
    cfg.update({'sys': r2['sys'], 'wm': r2['wm'], 'fff': r2['fff']})
    return {'id': c['id'], 'cfg': cfg, 'as': r2['as'], 'abort': c.get('abort2', 0), 'meth': 'auto'}


def run_cells2(root: Path, wm1: str, wm2: str, cells: T.List[Cell], rd: Rendering, timeout: int = 900,
               max_restarts: int = 6) -> T.Tuple[T.Dict[str, T.Dict[str, T.Any]], T.Dict[str, T.Any]]:
    """Histories over one build directory: `meson setup` (no cell is predicted to abort: all are statements of the
    main build file), then the build file, the .pc files and the options are changed and the same directory is
    configured again with `meson setup --reconfigure`.  -> {id: {'obs', 'asked', 'obs2', 'asked2'}}."""
    done: T.Dict[str, T.Dict[str, T.Any]] = {}
    stats = {'setups': 0, 'unexpected_aborts': 0, 'exit_status_observed': 0, 'unobserved': 0, 'log_tail': ''}
    pending = list(cells)
    attempt = 0
    while pending:
        attempt += 1
        if attempt > max_restarts:
            stats['unobserved'] += len(pending)
            break
        pdir = root / f'q{attempt}'
        order = list(pending)
        p1 = Project(pdir, wm1, order, set(), rd)
        p1.materialise()
        rc, out, pkglog = p1.run(timeout)
        stats['setups'] += 1
        res1, aborted = parse_run(p1, rc, out, pkglog)
        if rc != 0:
            # a first configuration that fails leaves no build directory to configure again
            if aborted is None or aborted not in res1:
                raise MachineryError('C10: first configuration of a two-step project failed:\n' + out[-2000:])
            stats['unexpected_aborts'] += 1
            done[order[aborted]['id']] = {'obs': res1[aborted]['obs'], 'asked': res1[aborted]['asked'], 'r2obs': None}
            pending = [c for c in order if c['id'] not in done]
            continue
        if len(res1) != len(order):
            raise MachineryError('C10: first configuration of a two-step project succeeded with unobserved cells')
        views = [second_view(c) for c in order]
        aborting = [k for k, v in enumerate(views) if v['abort']]
        tail = aborting[-1] if aborting else None
        wrapped = {k for k in aborting if k != tail}
        emit = [k for k in range(len(order)) if k != tail] + ([tail] if tail is not None else [])
        p2 = Project(pdir, wm2, views, wrapped, rd, emit_order=emit, reconfigure=True)
        p2.materialise()
        rc, out, pkglog = p2.run(timeout)
        stats['setups'] += 1
        stats['log_tail'] = out[-1200:]
        res2, aborted2 = parse_run(p2, rc, out, pkglog)
        for k, r in res2.items():
            done[order[k]['id']] = {'obs': res1[k]['obs'], 'asked': res1[k]['asked'],
                                    'r2obs': {'obs': r['obs'], 'asked': r['asked']}, 'main': k not in wrapped}
        if aborted2 is not None and aborted2 == tail:
            stats['exit_status_observed'] += 1
        pending = [c for c in order if c['id'] not in done]
        if pending:
            if aborted2 is None or order[aborted2]['id'] not in done:
                raise MachineryError('C10: cells left unobserved in a re-configuration without an aborting cell:\n' + out[-2000:])
            stats['unexpected_aborts'] += 1
    return done, stats


def worker2(args: T.Tuple[str, str, str, T.List[Cell], int]) -> T.Tuple[T.Dict[str, T.Dict[str, T.Any]], T.Dict[str, T.Any]]:
    label, wm1, wm2, cells, seed = args
    rd = Rendering(seed)
    rd.rnd = random.Random(f'c10-render-{seed}-{label}')
    with common.scratch('c10d2-') as d:
        return run_cells2(d, wm1, wm2, cells, rd)


def cell_key(cfg: T.Dict[str, T.Any], as_: T.List[T.Dict[str, T.Any]]) -> str:
    c = f"sys{cfg['sys']}/{cfg['prov']}-{cfg['style']}/{cfg['wm']}/fff={'+'.join(sorted(cfg['fff'])) or '-'}/pre={cfg['pre']}"
    if cfg.get('dl'):
        c += f"/default_library={cfg['dl']},sub:{cfg.get('sdl', 'none')}"
    steps = ';'.join(f"{a['con']},{a['fb']},{'req' if a['req'] else 'opt'},af={a['af']}"
                     + (f",static={a['static']}" if a.get('static', 'unset') != 'unset' else '') for a in as_)
    return c + '|' + steps


def dump(obj: T.Any) -> str:
    return json.dumps(obj, sort_keys=True)
