"""C10 part 2 - driver for the wrap acquisition pipeline (specs/deps/WrapFetch.tla).

Every scenario exported by the TLC run of WrapFetch_MC is materialised on disk (file:// URLs, real
tar archives, packagecache / packagefiles content, diff files), the scenario's command is run twice
and after each run the exit status, the subproject directory and the package cache are projected to
the vocabulary of the specification.  TraceWrapFetch (TLC) judges.
"""
from __future__ import annotations

import hashlib
import io
import json
import os
import random
import shutil
import subprocess
import tarfile
import typing as T
from concurrent.futures import ThreadPoolExecutor
from pathlib import Path

from . import common
from .common import Check, MachineryError, SPECS, run_tlc, scratch

SITE = common.VERIF / 'harness' / 'c10_site'       # sitecustomize that neutralises time.sleep (download back-off)

SC_FIELDS = ('mode', 'hash', 'url', 'fb', 'cache', 'files', 'arch', 'patch', 'phash', 'purl', 'pcache', 'pfiles',
             'parch', 'pdir', 'diff', 'cmd', 'kind', 'vcs', 'rev', 'dser')

WF_CFG = '''SPECIFICATION Spec
CONSTANTS Universe = "%s"
INVARIANT TypeOK
INVARIANT NeverUnpackBadHash
INVARIANT NodownloadFetchesNothing
INVARIANT NoDownloadNeverFetches
INVARIANT ClientRunsWhenAllowed
INVARIANT FailedPatchLeavesNoDir
INVARIANT SecondRunNeverAcceptsHalfPrepared
INVARIANT SecondRunSameVerdict
INVARIANT AnyDiffOfSeriesFails
INVARIANT MachineEqualsFunction
CHECK_DEADLOCK FALSE
POSTCONDITION EmitScenarios
'''

DIRNAME = 'w-1.0'
SRC_FN = 'w-1.0.tar.gz'
PATCH_FN = 'w-1.0-patch.tar.gz'
GOOD_DIFF = '--- a/data.txt\n+++ b/data.txt\n@@ -1 +1 @@\n-orig\n+patched\n'
BAD_DIFF = '--- a/data.txt\n+++ b/data.txt\n@@ -1 +1 @@\n-something that is not there\n+patched\n'
# a series of diff files: the k-th file of `diff_files` edits a file of its own
DATA_FILES = ('data.txt', 'data2.txt', 'data3.txt')
DIFF_FILES = ('w-diffs/fix.patch', 'w-diffs/fix2.patch', 'w-diffs/fix3.patch')


def series(sc: T.Dict[str, T.Any]) -> T.List[str]:
    """WrapFetch!Series: the states of the listed diff files in the order they are applied."""
    if sc['diff'] == 'series':
        return list(sc.get('dser') or [])
    return [] if sc['diff'] == 'none' else [sc['diff']]


def _tar(members: T.List[T.Tuple[str, bytes]]) -> bytes:
    buf = io.BytesIO()
    with tarfile.open(fileobj=buf, mode='w:gz', compresslevel=1) as tf:
        for name, data in members:
            ti = tarfile.TarInfo(name)
            ti.size = len(data)
            ti.mode = 0o644
            ti.mtime = 1_600_000_000
            tf.addfile(ti, io.BytesIO(data))
    return buf.getvalue()


class Archives:
    """The concrete files behind "good" / "corrupt" for one seed."""

    def __init__(self, seed: int):
        rnd = random.Random(f'c10-archives-{seed}')
        self.tail = rnd.randbytes(200_000)
        self.evil_tail = rnd.randbytes(200_000)
        self.ptail = rnd.randbytes(120_000)
        build = b"project('w', version: '1.0')\nmessage('C10 wrap subproject configured')\n"
        self.src_ok = _tar([(f'{DIRNAME}/meson.build', build), (f'{DIRNAME}/data.txt', b'orig\n'),
                            (f'{DIRNAME}/data2.txt', b'orig\n'), (f'{DIRNAME}/data3.txt', b'orig\n'),
                            (f'{DIRNAME}/SRC_MARK', b'src\n'), (f'{DIRNAME}/tail.bin', self.tail)])
        self.src_evil = _tar([(f'{DIRNAME}/meson.build', build), (f'{DIRNAME}/data.txt', b'orig\n'),
                              (f'{DIRNAME}/data2.txt', b'orig\n'), (f'{DIRNAME}/data3.txt', b'orig\n'),
                              (f'{DIRNAME}/EVIL_MARK', b'evil\n'), (f'{DIRNAME}/tail.bin', self.evil_tail)])
        self.patch_ok = _tar([(f'{DIRNAME}/PATCH_MARK', b'patch\n'), (f'{DIRNAME}/overlay.txt', b'overlay\n'),
                              (f'{DIRNAME}/ptail.bin', self.ptail)])
        self.patch_evil = _tar([(f'{DIRNAME}/EVILPATCH_MARK', b'evil\n'), (f'{DIRNAME}/overlay.txt', b'evil overlay\n')])
        self.garbage = rnd.randbytes(4096)

    def shaped(self, ok: bytes, shape: str) -> bytes:
        if shape == 'ok':
            return ok
        if shape == 'garbage':
            return self.garbage
        return ok[: len(ok) // 2]          # "trunc": the first members are complete, the tail is cut

    def good(self, what: str, sc: T.Dict[str, T.Any]) -> bytes:
        return self.shaped(self.src_ok, sc['arch']) if what == 'src' else self.shaped(self.patch_ok, sc['parch'])

    def corrupt(self, what: str) -> bytes:
        return self.src_evil if what == 'src' else self.patch_evil


VCS_URL = {'git': 'https://c10.invalid/w.git', 'hg': 'https://c10.invalid/hg/w', 'svn': 'https://c10.invalid/svn/w/trunk'}
VCS_REV = {('git', 'head'): 'HEAD', ('git', 'pinned'): 'v1.0', ('hg', 'head'): 'tip', ('hg', 'pinned'): 'rel-1.0',
           ('svn', 'head'): 'HEAD', ('svn', 'pinned'): '4711'}
# recording stub for git / hg / svn (first on PATH): logs its argv; a clone / svn checkout copies a prepared tree
STUB = '''#!/bin/sh
name=$(basename "$0")
echo "$name $*" >> "$C10_VCSLOG"
fetch=0
case "$name $*" in
  svn\\ checkout*) fetch=1 ;;
  *\\ clone\\ *) fetch=1 ;;
esac
if [ "$fetch" = 1 ]; then
  [ "$C10_VCSFAIL" = 1 ] && exit 1
  for last in "$@"; do :; done
  cp -r "$C10_VCSTEMPLATE" "$last" || exit 1
fi
exit 0
'''


def _put(path: Path, data: bytes) -> None:
    path.parent.mkdir(parents=True, exist_ok=True)
    path.write_bytes(data)


def materialise(root: Path, sc: T.Dict[str, T.Any], ar: Archives) -> None:
    proj = root / 'proj'
    sp = proj / 'subprojects'
    sp.mkdir(parents=True)
    (proj / 'meson.build').write_text("project('c10wrap')\nsubproject('w')\nmessage('C10WRAP end')\n")
    kind = sc.get('kind', 'file')
    wrap = [f'[wrap-{kind}]', f'directory = {DIRNAME}']
    # recording VCS clients, whatever the kind of wrap: no scenario may run one unless the specification says so
    vb = root / 'vcsbin'
    vb.mkdir()
    for name in ('git', 'hg', 'svn'):
        (vb / name).write_text(STUB)
        (vb / name).chmod(0o755)
    tpl = root / 'vcs-template'
    tpl.mkdir()
    (tpl / 'meson.build').write_text("project('w', version: '1.0')\nmessage('C10 wrap subproject configured')\n")
    for fn in DATA_FILES:
        (tpl / fn).write_bytes(b'orig\n')
    (tpl / 'SRC_MARK').write_bytes(b'src\n')
    (tpl / 'tail.bin').write_bytes(ar.tail)

    def place(what: str, state: str, path: Path) -> None:
        if state == 'good':
            _put(path, ar.good(what, sc))
        elif state == 'corrupt':
            _put(path, ar.corrupt(what))

    # source
    if kind != 'file':
        wrap.append(f'url = {VCS_URL[kind]}')
        wrap.append(f"revision = {VCS_REV[(kind, sc['rev'])]}")
    else:
        wrap.append(f'source_filename = {SRC_FN}')
    if kind != 'file':
        pass
    elif sc['mode'] == 'url':
        wrap.append(f'source_url = file://{root}/srv/{SRC_FN}')
        place('src', sc['url'], root / 'srv' / SRC_FN)
        if sc['fb'] != 'none':
            wrap.append(f'source_fallback_url = file://{root}/srvfb/{SRC_FN}')
            place('src', sc['fb'], root / 'srvfb' / SRC_FN)
        place('src', sc['cache'], sp / 'packagecache' / SRC_FN)
    else:
        place('src', sc['files'], sp / 'packagefiles' / SRC_FN)
    if sc['hash'] and kind == 'file':
        wrap.append('source_hash = ' + hashlib.sha256(ar.good('src', sc)).hexdigest())
    # overlay
    if sc['patch'] in ('url', 'files'):
        wrap.append(f'patch_filename = {PATCH_FN}')
        if sc['patch'] == 'url':
            wrap.append(f'patch_url = file://{root}/srv/{PATCH_FN}')
            place('patch', sc['purl'], root / 'srv' / PATCH_FN)
            place('patch', sc['pcache'], sp / 'packagecache' / PATCH_FN)
        else:
            place('patch', sc['pfiles'], sp / 'packagefiles' / PATCH_FN)
        if sc['phash']:
            wrap.append('patch_hash = ' + hashlib.sha256(ar.good('patch', sc)).hexdigest())
    elif sc['patch'] == 'dir':
        wrap.append('patch_directory = w-overlay')
        if sc['pdir'] == 'present':
            _put(sp / 'packagefiles' / 'w-overlay' / 'PATCH_MARK', b'patch\n')
            _put(sp / 'packagefiles' / 'w-overlay' / 'overlay.txt', b'overlay\n')
    # diff
    ser = series(sc)
    if ser:
        wrap.append('diff_files = ' + ', '.join(DIFF_FILES[:len(ser)]))
        for state, dfn, data in zip(ser, DIFF_FILES, DATA_FILES):
            if state == 'good':
                _put(sp / 'packagefiles' / dfn, GOOD_DIFF.replace('data.txt', data).encode())
            elif state == 'bad':
                _put(sp / 'packagefiles' / dfn, BAD_DIFF.replace('data.txt', data).encode())
    (sp / 'w.wrap').write_text('\n'.join(wrap) + '\n')


def _read(p: Path) -> T.Optional[bytes]:
    try:
        return p.read_bytes()
    except OSError:
        return None


def project_fs(root: Path, sc: T.Dict[str, T.Any], ar: Archives) -> T.Dict[str, T.Any]:
    sp = root / 'proj' / 'subprojects'
    d = sp / DIRNAME
    marks: T.Set[str] = set()
    if d.exists():
        if (d / 'meson.build').is_file():
            marks.add('build')
        tail = _read(d / 'tail.bin')
        if (d / 'SRC_MARK').is_file() and tail == ar.tail and _read(d / 'data.txt') is not None:
            marks.add('src')
        elif (d / 'EVIL_MARK').is_file() and tail == ar.evil_tail:
            marks.add('evil')
        else:
            marks.add('part')
        if (d / 'EVIL_MARK').is_file():
            marks.add('evil')
        if (d / 'PATCH_MARK').is_file():
            if sc['patch'] in ('url', 'files') and _read(d / 'ptail.bin') != ar.ptail:
                marks.add('part')
            else:
                marks.add('patch')
        if (d / 'EVILPATCH_MARK').is_file():
            marks.add('evilpatch')
        # the diff files of the series that have been applied: all of them / some of them
        ser = series(sc)
        applied = [fn for fn in DATA_FILES if _read(d / fn) == b'patched\n']
        if applied and (not ser or applied == list(DATA_FILES[:len(ser)])):
            marks.add('diff')
        elif applied:
            marks.add('pdiff')

    def cache_state(what: str, fn: str) -> str:
        data = _read(sp / 'packagecache' / fn)
        if data is None:
            return 'absent'
        return 'good' if data == ar.good(what, sc) else 'corrupt'

    return {'dir': sorted(marks), 'cache': cache_state('src', SRC_FN), 'pcache': cache_state('patch', PATCH_FN)}


def project_calls(root: Path, sc: T.Dict[str, T.Any], n: int) -> T.List[str]:
    """Invocations of the stub VCS clients during run n, in the vocabulary of the specification."""
    try:
        lines = (root / f'vcslog{n}.txt').read_text().splitlines()
    except OSError:
        return []
    kind = sc.get('kind', 'file')
    out = []
    for ln in lines:
        words = ln.split()
        if kind == 'file' or words[0] != kind:
            out.append('alien:' + ' '.join(words[:3]))
            continue
        url, rev = VCS_URL[kind], VCS_REV[(kind, sc['rev'])]
        if kind == 'svn':
            good = words[1:] == ['checkout', '-r', rev, url, DIRNAME]
            out.append('checkout' if good else 'checkout:badargs' if 'checkout' in words else 'alien:' + ' '.join(words[:3]))
        elif 'clone' in words:
            out.append('clone' if words[-2:] == [url, DIRNAME] else 'clone:badargs')
        elif 'checkout' in words:
            out.append('checkout' if rev in words else 'checkout:badargs')
        else:
            out.append('alien:' + ' '.join(words[:3]))
    return out


def run_cmd(root: Path, sc: T.Dict[str, T.Any], n: int, timeout: int) -> T.Tuple[bool, bool, str]:
    env = {k: v for k, v in os.environ.items() if not k.startswith(('MESON', 'NINJA'))}
    env.update({'PYTHONPATH': str(SITE), 'C10_NOSLEEP': '1', 'LC_ALL': 'C.UTF-8', 'PYTHONDONTWRITEBYTECODE': '1',
                'PATH': str(root / 'vcsbin') + os.pathsep + env.get('PATH', ''), 'C10_VCSLOG': str(root / f'vcslog{n}.txt'),
                'C10_VCSTEMPLATE': str(root / 'vcs-template'), 'C10_VCSFAIL': '1' if sc.get('vcs') == 'fail' else '0'})
    meson = [common.PYTHON, str(common.REPO / 'meson.py')]
    if sc['cmd'] == 'download':
        cmd = meson + ['subprojects', 'download', '--sourcedir', 'proj']
    else:
        cmd = meson + ['setup', '--backend=none']
        if sc['cmd'] == 'setup_nodl':
            cmd.append('--wrap-mode=nodownload')
        cmd += ['proj', f'build{n}']
    try:
        p = subprocess.run(cmd, cwd=root, env=env, stdout=subprocess.PIPE, stderr=subprocess.STDOUT, timeout=timeout,
                           text=True, errors='replace')
    except subprocess.TimeoutExpired as e:
        raise MachineryError(f'C10: {" ".join(cmd[2:])} timed out after {timeout}s') from e
    rc0 = p.returncode == 0
    # "accepted": the command reports success *and* ran to its end (a Python traceback is a crash, whatever the status)
    crashed = 'Traceback (most recent call last)' in p.stdout
    if sc['cmd'] == 'download':
        ok = rc0 and not crashed
    else:
        ok = rc0 and 'C10WRAP end' in p.stdout
        if rc0 and not ok and not crashed:
            raise MachineryError('C10: meson setup exited 0 without evaluating the build file and without a traceback:\n'
                                 + p.stdout[-1500:])
    return ok, rc0, p.stdout


def run_scenario(args: T.Tuple[str, T.Dict[str, T.Any], int]) -> T.Dict[str, T.Any]:
    cid, sc, seed = args
    ar = Archives(seed)
    obs = []
    logs = []
    with scratch('c10wf-') as root:
        root = root.resolve()
        materialise(root, sc, ar)
        for n in (1, 2):
            ok, rc0, out = run_cmd(root, sc, n, 600)
            o = project_fs(root, sc, ar)
            o['ok'] = ok
            o['rc0'] = rc0
            o['calls'] = project_calls(root, sc, n)
            obs.append(o)
            logs.append(out[-1500:])
    return {'id': cid, 'sc': sc, 'obs': obs, 'logs': logs}


def sc_key(sc: T.Dict[str, T.Any]) -> str:
    if sc.get('kind', 'file') != 'file':
        src = f"{sc['kind']}(client={sc['vcs']},rev={sc['rev']})"
    elif sc['mode'] == 'url':
        src = f"url(hash={int(sc['hash'])},url={sc['url']},fb={sc['fb']},cache={sc['cache']})"
    else:
        src = f"files(hash={int(sc['hash'])},{sc['files']})"
    if sc['patch'] == 'url':
        pt = f"url(hash={int(sc['phash'])},url={sc['purl']},cache={sc['pcache']},{sc['parch']})"
    elif sc['patch'] == 'files':
        pt = f"files(hash={int(sc['phash'])},{sc['pfiles']},{sc['parch']})"
    elif sc['patch'] == 'dir':
        pt = f"dir({sc['pdir']})"
    else:
        pt = 'none'
    return f"src={src},arch={sc['arch']};patch={pt};diff={diff_key(sc)};cmd={sc['cmd']}"


def diff_key(sc: T.Dict[str, T.Any]) -> str:
    return 'series[' + ','.join(sc.get('dser') or []) + ']' if sc['diff'] == 'series' else sc['diff']


def signature(v: T.Dict[str, T.Any], sc: T.Dict[str, T.Any]) -> str:
    """Half-prepared directories are keyed by their cause (the stage that failed in run 1), everything else by scenario."""
    if v['clause'] in ('SecondRunNeverAcceptsHalfPrepared', 'AcceptsHalfPrepared', 'FailedPatchLeavesNoDir', 'ExitStatus'):
        shape = {'unpack': f",arch={sc['arch']}", 'patch': f",patch={sc['patch']},parch={sc['parch']}",
                 'diff': f",diff={diff_key(sc)}"}.get(v.get('stage', ''), '')
        return f"{v['clause']}@stage={v.get('stage')}{shape}"
    return f"{v['clause']}@{sc_key(sc)}"


def judge(chk: Check, cases: T.List[T.Dict[str, T.Any]], label: str) -> None:
    by_id = {c['id']: c for c in cases}
    with scratch('c10t-') as d:
        tf = d / 'cases.json'
        tf.write_text(json.dumps([{'id': c['id'], 'sc': dict({'kind': 'file', 'vcs': 'ok', 'rev': 'head', 'dser': []}, **c['sc']),
                                   'obs': c['obs']} for c in cases]))
        env = {'TRACE_FILE': str(tf)}
        res = run_tlc(SPECS / 'deps', 'TraceWrapFetch', env=env, timeout=1800)
        if not res.clean:
            raise MachineryError('TraceWrapFetch did not complete cleanly:\n' + res.stdout[-2000:])
        if res.distinct != 2 * len(cases):
            raise MachineryError(f'TraceWrapFetch judged {res.distinct // 2} of {len(cases)} cases')
        bad = res.json_lines()
        if bad:
            bad = run_tlc(SPECS / 'deps', 'TraceWrapFetch', env=env, timeout=1800, workers=1).json_lines()
    chk.add_tlc(f'TraceWrapFetch[{label}]', res, model=False)
    chk.traces += len(cases)
    chk.evaluations += 2 * len(cases)
    for v in bad:
        c = by_id[v['id']]
        chk.violation(signature(v, c['sc']), {'part': 'wrapfetch', 'verdict': v, 'sc': c['sc'], 'scenario': sc_key(c['sc']),
                                              'observed': c['obs'], 'logs': c.get('logs'), 'seed': chk.seed})


def part2(chk: Check) -> None:
    quick = chk.tier == 'quick'
    if not SITE.joinpath('sitecustomize.py').is_file():
        raise MachineryError('harness/c10_site/sitecustomize.py is missing')
    if not (shutil.which('patch') or shutil.which('git')):
        raise MachineryError('C10: neither patch nor git is available; diff_files scenarios cannot run')
    res = run_tlc(SPECS / 'deps', 'WrapFetch_MC', cfg_text=WF_CFG % ('families' if quick else 'all'),
                  collect=['wrap_scenarios.json'], timeout=3600, allow_violation=False)
    chk.add_tlc(f"WrapFetch_MC[{'families' if quick else 'all'}]", res)
    scenarios = json.loads(res.collected['wrap_scenarios.json'])
    scenarios = [{k: s[k] for k in SC_FIELDS} for s in scenarios]
    for s in scenarios:
        s['dser'] = list(s['dser'])
    scenarios.sort(key=sc_key)
    chk.extra['wrap_scenarios_in_families'] = len(scenarios)
    rnd = random.Random(f'c10-wrap-{chk.seed}')
    if quick:
        # every unpack/patch/diff fault scenario, and a seeded half of the source acquisition table
        chosen = [s for s in scenarios if s['arch'] != 'ok' or s['patch'] != 'none' or s['diff'] != 'none' or s['kind'] != 'file']
        rest = [s for s in scenarios if s not in chosen]
        chosen += rnd.sample(rest, len(rest) // 2)
    else:
        chosen = list(scenarios)
        chosen += random_scenarios(rnd, 400, {sc_key(s) for s in scenarios})
    jobs = [(f'w{n}', s, chk.seed) for n, s in enumerate(chosen)]
    with ThreadPoolExecutor(max_workers=common.NCPU) as ex:
        cases = list(ex.map(run_scenario, jobs))
    chk.extra['wrap_scenarios_run'] = len(cases)
    for c in cases:
        s = c['sc']
        if any(s[k] in ('absent', 'corrupt') for k in ('url', 'cache', 'files')) and s['mode'] == 'url' or s['arch'] != 'ok' \
                or s['patch'] != 'none' or s['diff'] != 'none' or not s['hash'] or s['files'] != 'good':
            chk.nontriv('wrap:' + sc_key(s))
    for c in cases[:: max(1, len(cases) // 3)][:3]:
        chk.sample({'id': c['id'], 'scenario': sc_key(c['sc']), 'observed_after_each_run': c['obs']}, limit=14)
    judge(chk, cases, 'A')
    chk.assumptions += [
        'wrap part: [wrap-git]/[wrap-hg]/[wrap-svn] wraps are fetched by recording stub clients first on PATH (argv logged, a '
        'prepared tree copied); depth / clone-recursive / push-url / commit-id revisions and git submodules are not generated',
        'wrap part: [wrap-file] and VCS wraps (no wrapdb, no MESON_PACKAGE_CACHE_DIR, no lead_directory_missing); '
        'URLs are file:// URLs; "corrupt" is a different valid archive, unpack faults are a non-archive and a truncated archive '
        'whose hash is the recorded one; download back-off sleeps are neutralised by a sitecustomize on PYTHONPATH',
        'wrap part: series of diff files have two or three members, the k-th edits a file of its own (an applied member '
        'stays visible whatever the others do); members are applied by the real `patch` program (git apply only if patch '
        'is absent)',
        'wrap part: a corrupt file found in the package cache makes the run fail (it is neither used nor replaced); downloads '
        'that verify are stored in the package cache; stray temporary files in the package cache are not compared',
    ]


def random_scenarios(rnd: random.Random, n: int, exclude: T.Set[str]) -> T.List[T.Dict[str, T.Any]]:
    """Seeded sample of the full product (the thorough model run covers all of it)."""
    locs = ['absent', 'good', 'corrupt']
    out: T.List[T.Dict[str, T.Any]] = []
    seen = set(exclude)
    while len(out) < n:
        s: T.Dict[str, T.Any] = {'mode': rnd.choice(['url', 'files']), 'hash': rnd.random() < 0.7, 'url': 'absent', 'fb': 'none',
                                 'cache': 'absent', 'files': 'absent', 'arch': rnd.choice(['ok', 'ok', 'ok', 'garbage', 'trunc']),
                                 'patch': rnd.choice(['none', 'url', 'files', 'dir']), 'phash': True, 'purl': 'absent',
                                 'pcache': 'absent', 'pfiles': 'absent', 'parch': 'ok', 'pdir': 'absent',
                                 'diff': rnd.choice(['none', 'none', 'good', 'bad', 'missing']),
                                 'cmd': rnd.choice(['download', 'setup', 'setup_nodl']),
                                 'kind': rnd.choice(['file', 'file', 'file', 'git', 'hg', 'svn']), 'vcs': 'ok', 'rev': 'head',
                                 'dser': []}
        if s['diff'] != 'none' and rnd.random() < 0.5:
            s.update({'diff': 'series', 'dser': [rnd.choice(['good', 'good', 'bad', 'missing']) for _ in range(rnd.choice([2, 3]))]})
        if s['kind'] != 'file':
            s.update({'mode': 'files', 'hash': True, 'arch': 'ok', 'vcs': rnd.choice(['ok', 'ok', 'fail']),
                      'rev': rnd.choice(['head', 'pinned'])})
        elif s['mode'] == 'url':
            s.update({'url': rnd.choice(locs), 'fb': rnd.choice(['none'] + locs), 'cache': rnd.choice(locs)})
        else:
            s['files'] = rnd.choice(locs)
        if s['patch'] == 'url':
            s.update({'phash': rnd.random() < 0.7, 'purl': rnd.choice(locs), 'pcache': rnd.choice(locs),
                      'parch': rnd.choice(['ok', 'ok', 'garbage', 'trunc'])})
        elif s['patch'] == 'files':
            s.update({'phash': rnd.random() < 0.6, 'pfiles': rnd.choice(locs), 'parch': rnd.choice(['ok', 'ok', 'garbage', 'trunc'])})
        elif s['patch'] == 'dir':
            s['pdir'] = rnd.choice(['absent', 'present'])
        k = sc_key(s)
        if k not in seen:
            seen.add(k)
            out.append(s)
    return out


def replay(chk: Check, det: T.Dict[str, T.Any]) -> None:
    case = run_scenario(('replay', det['sc'], det.get('seed', 0)))
    judge(chk, [case], 'replay')
