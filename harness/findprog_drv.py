"""X08 - driver for the find_program() decision procedure (specs/findprog/FindProgram.tla).

Renders abstract sessions (an environment + a sequence of find_program / meson.override_find_program /
subproject statements) into real project trees, runs ``meson setup --backend=none`` on them and projects
what the build definitions observed back to the vocabulary of the specification.  No verdict is computed
here: TLC (TraceFindProgram) judges the recorded sessions.

Lay-out of one project (one wrap_mode, native or cross; many sessions, session k owns the program names
``p<k>a*``, ``p<k>b*``, ``p<k>c*``):

  <root>/bin/            the only PATH entry; fake programs answering --version
  <root>/xd/             the directory passed as ``dirs:``
  <root>/nat/, native.ini   programs named by the [binaries] section of the native file
  <root>/crs/, cross.ini    the same for the cross file (cross builds only)
  <root>/src/            main project: ``subproject('w<k>', required: false)`` for every session but the
                         last, whose statements are the tail of the main meson.build (exit status observed)
  <root>/src/subprojects/w<k>/          wrapper subproject holding session k (an error ends only this session);
                         its root directory is the site "root", ``sd<j>/`` the site "sd" of statement j
  <root>/src/subprojects/s<k><n>{.wrap,/}  the wrap that provides name n of session k and its subproject

Every statement reports with message(); subprojects s<k><n> report begin / end and meson.is_cross_build()
(false inside a subproject configured for the build machine of a cross build).
"""
from __future__ import annotations

import os
import random
import re
import subprocess
import typing as T
from pathlib import Path

from . import common
from .common import MachineryError

NAMES = ('a', 'b', 'c')
MACHINES = ('host', 'build')
# concrete versions for the abstract versions 1 < 2 < 3 (the seed selects one triple); every version has a dot
# ("only the first occurrence of numbers separated by dots is kept")
VERSION_SETS = [('1.0', '2.0', '3.0'), ('0.9.1', '1.10', '1.10.1'), ('1.2.9', '1.2.10', '2.0'), ('2.0', '2.1', '10.0')]
SUFFIXES = ['', '.py', '-tool', '_x.sh', '.2']
PREFIXES = ['', 'tool version ', 'Frobnicator (GNU frob) ', 'v']

Session = T.Dict[str, T.Any]     # {'id', 'env', 'evs'}


def _q(s: str) -> str:
    return "'" + s + "'"


class Rendering:
    """Seeded choice of concrete spellings."""

    def __init__(self, seed: int, label: str):
        self.rnd = random.Random(f'x08-render-{seed}-{label}')
        self.versions = VERSION_SETS[seed % len(VERSION_SETS)]

    def version(self, v: int) -> str:
        return self.versions[v - 1]

    def abstract_version(self, s: str) -> int:
        return self.versions.index(s) + 1 if s in self.versions else -1


def write_program(path: Path, version: str, rd: Rendering, may_be_unexecutable: bool) -> None:
    """A fake program: prints its version whatever the arguments."""
    text = rd.rnd.choice(PREFIXES) + version
    if rd.rnd.random() < 0.3:
        text += ' (build abc)'
    path.write_text(f'#!/bin/sh\necho "{text}"\n')
    # "Meson will also autodetect scripts with a shebang line ... if the script file does not have the executable bit set"
    path.chmod(0o644 if may_be_unexecutable and rd.rnd.random() < 0.3 else 0o755)


def write_dud(path: Path) -> None:
    """Neither executable nor a script: not a program."""
    path.write_text('plain data, not a program\n')
    path.chmod(0o644)


class Project:
    def __init__(self, root: Path, wm: str, cross: bool, sessions: T.List[Session], rd: Rendering, duds: bool):
        self.root = root
        self.src = root / 'src'
        self.wm = wm
        self.cross = cross
        self.sessions = sessions          # index = k; the last one is the tail of the main project
        self.rd = rd
        self.duds = duds
        self.conc: T.List[T.Dict[str, str]] = []      # k -> abstract name -> concrete name
        self.fff: T.List[str] = []

    # -- rendering ---------------------------------------------------------------------------
    def site_dir(self, k: int) -> Path:
        return self.src if k == len(self.sessions) - 1 else self.src / 'subprojects' / f'w{k}'

    def render_find(self, k: int, j: int, ev: T.Dict[str, T.Any]) -> T.List[str]:
        rd = self.rd
        names = [_q(self.conc[k][n]) for n in ev['names']]
        args = [', '.join(names) if rd.rnd.random() < 0.7 else '[' + ', '.join(names) + ']']
        req = ev['req']
        if req == 'false':
            args.append('required: false')
        elif req == 'true':
            if rd.rnd.random() < 0.3:
                args.append('required: true')
        else:
            args.append(f"required: get_option('x08_{req}')")
        if ev['native']:
            args.append('native: true')
        elif rd.rnd.random() < 0.2:
            args.append('native: false')
        if ev['con'] != 'any':
            c = ('>=' if ev['con'] == 'ge2' else '<') + rd.version(2)
            if rd.rnd.random() < 0.3:
                c = c[:-len(rd.version(2))] + ' ' + rd.version(2)
            args.append('version: ' + (_q(c) if rd.rnd.random() < 0.5 else '[' + _q(c) + ']'))
        if ev['dirs']:
            ds = [_q(str(self.root / 'xd'))]
            if rd.rnd.random() < 0.3:
                ds.insert(0, _q(str(self.root / 'nonexistent')))
            args.append('dirs: ' + (ds[0] if len(ds) == 1 and rd.rnd.random() < 0.5 else '[' + ', '.join(ds) + ']'))
        if ev['dis']:
            args.append('disabler: true')
        return [f'p = find_program({", ".join(args)})',
                'if is_disabler(p)',
                f"  message('X08OBS {k} {j} disabler')",
                'elif p.found()',
                f"  message('X08OBS {k} {j} found', p.full_path(), p.version())",
                'else',
                f"  message('X08OBS {k} {j} notfound')",
                'endif']

    def render_override(self, k: int, j: int, ev: T.Dict[str, T.Any]) -> T.List[str]:
        cn = self.conc[k][ev['names'][0]]
        src = f"files('ovm-{cn}')" if ev['okind'] == 'file' else f"find_program('ovm-{cn}')"
        nat = ', native: true' if ev['native'] else (', native: false' if self.rd.rnd.random() < 0.2 else '')
        return [f'ovp = {src}',
                f"meson.override_find_program({_q(cn)}, ovp{nat})",
                f"message('X08OBS {k} {j} ok')"]

    def render_sub(self, k: int, j: int, ev: T.Dict[str, T.Any]) -> T.List[str]:
        n = ev['names'][0]
        args = [_q(f's{k}{n}')]
        if ev['req'] == 'false':
            args.append('required: false')
        if ev['native']:
            args.append('native: true')
        return [f"sp = subproject({', '.join(args)})",
                f"message('X08OBS {k} {j}', sp.found() ? 'ok' : 'nf')"]

    def materialise(self) -> None:
        rd = self.rd
        sp = self.src / 'subprojects'
        for d in ('bin', 'xd', 'nat', 'crs'):
            (self.root / d).mkdir(parents=True, exist_ok=True)
        sp.mkdir(parents=True, exist_ok=True)
        nat_lines = ['[binaries]']
        crs_lines = ['[host_machine]', "system = 'linux'", "cpu_family = 'x86_64'", "cpu = 'x86_64'", "endian = 'little'", '',
                     '[binaries]']
        options = ''.join(f"option('x08_{v}', type: 'feature', value: '{v}')\n" for v in ('enabled', 'auto', 'disabled'))
        main = []
        tail = len(self.sessions) - 1
        for k, ses in enumerate(self.sessions):
            env = ses['env']
            conc = {n: f'p{k}{n}' + rd.rnd.choice(SUFFIXES) for n in NAMES}
            self.conc.append(conc)
            site = self.site_dir(k)
            site.mkdir(parents=True, exist_ok=True)
            sd_steps = [j for j, ev in enumerate(ses['evs'], 1) if ev['op'] == 'find' and ev['site'] == 'sd']
            for n in NAMES:
                cn = conc[n]
                if env['path'][n]:
                    write_program(self.root / 'bin' / cn, rd.version(env['path'][n]), rd, False)
                if env['xd'][n]:
                    write_program(self.root / 'xd' / cn, rd.version(env['xd'][n]), rd, True)
                elif self.duds and rd.rnd.random() < 0.15:
                    write_dud(self.root / 'xd' / cn)
                for fname, lines, d in (('nat', nat_lines, 'nat'), ('crs', crs_lines, 'crs')):
                    if env[fname][n]:
                        if fname == 'crs' and not self.cross:
                            raise MachineryError('X08: cross-file entry in a native environment')
                        write_program(self.root / d / cn, rd.version(env[fname][n]), rd, False)
                        val = _q(str(self.root / d / cn))
                        lines.append(f'{cn} = ' + (val if rd.rnd.random() < 0.6 else f'[{val}]'))
                if env['src']['root'][n]:
                    write_program(site / cn, rd.version(env['src']['root'][n]), rd, True)
                elif self.duds and rd.rnd.random() < 0.15:
                    write_dud(site / cn)
                for j in sd_steps:
                    (site / f'sd{j}').mkdir(exist_ok=True)
                    if env['src']['sd'][n]:
                        write_program(site / f'sd{j}' / cn, rd.version(env['src']['sd'][n]), rd, True)
                # the program the calling project overrides n with
                write_program(site / f'ovm-{cn}', rd.version(env['mainv']), rd, False)
                # provider wrap + subproject
                if env['prov'][n] != 'none':
                    sname = f's{k}{n}'
                    sd = sp / sname
                    sd.mkdir()
                    (sp / f'{sname}.wrap').write_text(f'[wrap-file]\ndirectory = {sname}\n\n[provide]\nprogram_names = {cn}\n')
                    sl = [f"project({_q(sname)}, version: '0.0.1')",
                          f"message('X08SUB {k} {n} begin', meson.is_cross_build())"]
                    if env['prov'][n] == 'broken':
                        sl.append("error('X08 deliberately broken subproject')")
                    if env['prov'][n] == 'ovr':
                        write_program(sd / f'impl-{cn}', rd.version(env['subv'][n]), rd, False)
                        sl.append(f"sprog = find_program('impl-{cn}')")
                        sl.append(f"meson.override_find_program({_q(cn)}, sprog)")
                    sl.append(f"message('X08SUB {k} {n} end', meson.is_cross_build())")
                    (sd / 'meson.build').write_text('\n'.join(sl) + '\n')
                if n in env['fff']:
                    self.fff.append(f's{k}{n}')
            # the statements
            body: T.List[str] = []
            for j, ev in enumerate(ses['evs'], 1):
                if ev['op'] == 'find':
                    lines = self.render_find(k, j, ev)
                    if ev['site'] == 'sd':
                        (site / f'sd{j}' / 'meson.build').write_text('\n'.join(lines) + '\n')
                        lines = [f"subdir('sd{j}')"]
                elif ev['op'] == 'override':
                    lines = self.render_override(k, j, ev)
                else:
                    lines = self.render_sub(k, j, ev)
                body.extend(lines)
            body.append(f"message('X08END {k}')")
            pv = rd.version(env['projv'])
            if k == tail:
                main = [f"project('x08main', version: {_q(pv)})"] + main + body
            else:
                (site / 'meson.build').write_text(f"project('w{k}', version: {_q(pv)})\n" + '\n'.join(body) + '\n')
                (site / 'meson.options').write_text(options)
                main.append(f"subproject('w{k}', required: false)")
        (self.src / 'meson.build').write_text('\n'.join(main) + '\n')
        (self.src / 'meson.options').write_text(options)
        (self.root / 'native.ini').write_text('\n'.join(nat_lines) + '\n')
        if self.cross:
            (self.root / 'cross.ini').write_text('\n'.join(crs_lines) + '\n')

    def run(self, timeout: int) -> T.Tuple[int, str]:
        env = {k: v for k, v in os.environ.items() if not k.startswith(('PKG_CONFIG', 'MESON', 'CMAKE', 'NINJA'))}
        env.update({'PATH': str(self.root / 'bin'), 'LC_ALL': 'C.UTF-8', 'PYTHONDONTWRITEBYTECODE': '1'})
        cmd = [common.PYTHON, str(common.REPO / 'meson.py'), 'setup', '--backend=none', f'--wrap-mode={self.wm}',
               '--native-file', str(self.root / 'native.ini')]
        if self.cross:
            cmd += ['--cross-file', str(self.root / 'cross.ini')]
        if self.fff:
            cmd.append('--force-fallback-for=' + ','.join(self.fff))
        cmd += ['src', 'build']
        try:
            p = subprocess.run(cmd, cwd=self.root, env=env, stdout=subprocess.PIPE, stderr=subprocess.STDOUT,
                               timeout=timeout, text=True, errors='replace')
        except subprocess.TimeoutExpired as e:
            raise MachineryError(f'meson setup timed out after {timeout}s in an X08 batch project') from e
        return p.returncode, p.stdout

    # -- projection --------------------------------------------------------------------------
    def classify(self, k: int, j: int, path: str) -> T.Tuple[str, str]:
        """full_path() of a found program -> (abstract name, source)."""
        try:
            rel = Path(path).relative_to(self.root)
        except ValueError:
            return 'alien', 'alien:' + path
        parts = rel.parts
        inv = {v: n for n, v in self.conc[k].items()}
        base = parts[-1]
        site = self.site_dir(k).relative_to(self.root).parts
        if len(parts) == 2 and parts[0] in ('bin', 'xd', 'nat', 'crs'):
            return inv.get(base, 'alien'), {'bin': 'path', 'xd': 'dirs', 'nat': 'nat', 'crs': 'crs'}[parts[0]]
        if parts[:len(site)] == site:
            rest = parts[len(site):]
            if len(rest) == 1 and base.startswith('ovm-'):
                return inv.get(base[4:], 'alien'), 'main'
            if len(rest) == 1:
                return inv.get(base, 'alien'), 'src_root'
            if len(rest) == 2 and rest[0] == f'sd{j}':
                return inv.get(base, 'alien'), 'src_sd'
        if len(parts) == 4 and parts[:2] == ('src', 'subprojects') and base.startswith('impl-'):
            n = inv.get(base[5:], 'alien')
            if parts[2] == f's{k}{n}':
                return n, 'sub'
        return inv.get(base, 'alien'), 'alien:' + str(rel)


OBS_RE = re.compile(r'X08OBS (\d+) (\d+) (\w+)(?: (\S+) (\S+))?\s*$')
SUB_RE = re.compile(r'X08SUB (\d+) ([abc]) (begin|end) (true|false)\s*$')
END_RE = re.compile(r'X08END (\d+)\s*$')
EXEC_RE = re.compile(r'Executing subproject (?:\S+:)?w(\d+) ')


def sub_vector(sub: T.Dict[T.Tuple[str, str], str]) -> T.List[str]:
    return [sub.get((n, m), 'unconfigured') for n in NAMES for m in MACHINES]


def parse_run(prj: Project, rc: int, out: str) -> T.Tuple[T.Dict[int, T.Dict[str, T.Any]], T.Optional[int]]:
    """-> ({k: {'obs': [...], 'rc': exit status or -1}} for every session that was run to its end (normal end or
            error), k of a wrapped session during which the whole run died (None normally))."""
    rd = prj.rd
    n = len(prj.sessions)
    tail = n - 1
    obs: T.List[T.List[T.Dict[str, T.Any]]] = [[] for _ in range(n)]
    sub: T.List[T.Dict[T.Tuple[str, str], str]] = [{} for _ in range(n)]
    ended = [False] * n
    attempted = [False] * n
    order: T.List[int] = []
    for line in out.splitlines():
        m = OBS_RE.search(line)
        if m:
            k, j, kind = int(m.group(1)), int(m.group(2)), m.group(3)
            if j != len(obs[k]) + 1:
                raise MachineryError(f'X08: observations of session {k} out of order:\n' + out[-2000:])
            o: T.Dict[str, T.Any] = {'kind': kind, 'name': '', 'src': '', 'v': 0}
            if kind == 'found':
                if m.group(4) is None:
                    raise MachineryError('X08: found without a path: ' + line)
                o['name'], o['src'] = prj.classify(k, j, m.group(4))
                # an override made with a file reports the version of the overriding project
                o['v'] = rd.abstract_version(m.group(5))
            o['sub'] = sub_vector(sub[k])
            obs[k].append(o)
            continue
        m = SUB_RE.search(line)
        if m:
            k, nm = int(m.group(1)), m.group(2)
            mach = 'build' if prj.cross and m.group(4) == 'false' else 'host'
            sub[k][(nm, mach)] = 'failed' if m.group(3) == 'begin' else 'ok'
            continue
        m = END_RE.search(line)
        if m:
            ended[int(m.group(1))] = True
            continue
        m = EXEC_RE.search(line)
        if m:
            k = int(m.group(1))
            attempted[k] = True
            order.append(k)
    if 'Traceback (most recent call last)' in out and rc == 0:
        raise MachineryError('X08: python traceback in a successful run:\n' + out[-3000:])
    # the tail session runs iff every wrapper has been attempted
    tail_reached = all(attempted[k] for k in range(n) if k != tail)
    died_in: T.Optional[int] = None
    if rc != 0 and not tail_reached:
        # the whole run died inside a wrapped session (an exception that required: false does not contain)
        died_in = order[-1] if order else None
        if died_in is None:
            raise MachineryError('X08: meson setup failed before any session:\n' + out[-3000:])
    if rc == 0 and not ended[tail]:
        raise MachineryError('X08: meson setup succeeded but the main project did not reach its end:\n' + out[-3000:])
    result: T.Dict[int, T.Dict[str, T.Any]] = {}
    for k, ses in enumerate(prj.sessions):
        if k == tail:
            if not tail_reached:
                continue
        elif not attempted[k]:
            continue
        if not ended[k]:
            if len(obs[k]) >= len(ses['evs']):
                raise MachineryError(f'X08: session {k} has all observations but no end marker:\n' + out[-3000:])
            obs[k].append({'kind': 'error', 'name': '', 'src': '', 'v': 0, 'sub': sub_vector(sub[k])})
        elif len(obs[k]) != len(ses['evs']):
            raise MachineryError(f'X08: session {k} ended with {len(obs[k])} of {len(ses["evs"])} observations')
        result[k] = {'obs': obs[k], 'rc': rc if k == tail else -1, 'died': k == died_in}
    if rc != 0 and tail_reached and ended[tail]:
        raise MachineryError('X08: meson setup failed after the build definition was fully evaluated:\n' + out[-3000:])
    return result, died_in


def run_sessions(root: Path, wm: str, cross: bool, sessions: T.List[Session], rd: Rendering, duds: bool, timeout: int = 1200,
                 max_reruns: int = 6) -> T.Tuple[T.Dict[str, T.Dict[str, T.Any]], T.Dict[str, T.Any]]:
    """Run all sessions (same wrap_mode, same kind of build); -> ({session id: {'obs', 'rc', 'died'}}, stats)."""
    done: T.Dict[str, T.Dict[str, T.Any]] = {}
    stats = {'setups': 0, 'whole_run_died': 0, 'exit_status_observed': 0, 'unobserved': 0, 'log_tail': ''}
    pending = list(sessions)
    attempt = 0
    while pending:
        attempt += 1
        prj = Project(root / f'p{attempt}', wm, cross, pending, rd, duds)
        prj.materialise()
        rc, out = prj.run(timeout)
        stats['setups'] += 1
        stats['log_tail'] = out[-1500:]
        res, died_in = parse_run(prj, rc, out)
        for k, r in res.items():
            done[pending[k]['id']] = r
            if r['rc'] >= 0:
                stats['exit_status_observed'] += 1
        left = [s for s in pending if s['id'] not in done]
        if left:
            if died_in is None:
                raise MachineryError('X08: sessions left unobserved although the run did not die:\n' + out[-2500:])
            stats['whole_run_died'] += 1
            if attempt > max_reruns:
                stats['unobserved'] += len(left)
                break
        pending = left
    return done, stats


def worker(args: T.Tuple[str, str, bool, T.List[Session], int, bool]) -> T.Tuple[T.Dict[str, T.Dict[str, T.Any]], T.Dict[str, T.Any]]:
    label, wm, cross, sessions, seed, duds = args
    rd = Rendering(seed, label)
    with common.scratch('x08-') as d:
        return run_sessions(d, wm, cross, sessions, rd, duds)


# ---------------------------------------------------------------------------------------------
# abstract keys (signatures, non-triviality)

def ev_key(ev: T.Dict[str, T.Any]) -> str:
    if ev['op'] == 'find':
        return (f"find({'+'.join(ev['names'])},{ev['req']},{'native' if ev['native'] else 'host'},{ev['con']},"
                f"{'dirs' if ev['dirs'] else '-'},{ev['site']}{',disabler' if ev['dis'] else ''})")
    if ev['op'] == 'override':
        return f"override({ev['names'][0]},{'native' if ev['native'] else 'host'},{ev['okind']})"
    return f"sub({ev['names'][0]},{ev['req']},{'native' if ev['native'] else 'host'})"


def env_key(env: T.Dict[str, T.Any]) -> str:
    per = []
    for n in NAMES:
        per.append(f"{n}:nat{env['nat'][n]}crs{env['crs'][n]}xd{env['xd'][n]}r{env['src']['root'][n]}s{env['src']['sd'][n]}"
                   f"p{env['path'][n]}{env['prov'][n]}{env['subv'][n]}")
    return (f"{env['wm']}/fff={'+'.join(sorted(env['fff'])) or '-'}/{'cross' if env['cross'] else 'native'}/"
            f"{'/'.join(per)}/main{env['mainv']}proj{env['projv']}")
