"""Projection of the artefacts of a configured build directory to the views judged by
``specs/ninja/IntroConsistent.tla`` (C15).  Runs in a worker process; computes no verdicts.

Every view is a list of records with uniform field types (strings, ints, booleans, lists); absent values
are '' (strings) so that TLC never compares values of different types.  Paths inside the build directory are
made relative to it (canonical, like ninja_ref does), paths inside the source directory become '@src/<rel>'.
"""
from __future__ import annotations

import json
import os
import typing as T
from pathlib import Path

from . import common, ninja_ref, projgen


def read_json(p: Path) -> T.Any:
    with open(p, encoding='utf-8') as f:
        return json.load(f)


class Mapper:
    def __init__(self, src: Path, build: Path):
        self.src = os.path.realpath(src)
        self.build = os.path.realpath(build)

    def path(self, p: str) -> str:
        """Absolute or build-relative path -> build-relative canonical path (the form used in M)."""
        if not os.path.isabs(p):
            p = os.path.join(self.build, p)
        p = os.path.normpath(p)
        return ninja_ref.canonicalize(os.path.relpath(p, self.build))

    def srcrel(self, p: str) -> str:
        """A path as a source-relative name when it is inside the source tree, else absolute."""
        if not os.path.isabs(p):
            p = os.path.join(self.build, p)
        p = os.path.normpath(p)
        if p == self.src or p.startswith(self.src + os.sep):
            return os.path.relpath(p, self.src)
        return p


def s(v: T.Any) -> str:
    return '' if v is None else str(v)


def env_pairs(env: T.Dict[str, str]) -> T.List[T.List[str]]:
    return [[k, str(v)] for k, v in sorted(env.items())]


def test_view(entries: T.List[T.Dict[str, T.Any]]) -> T.List[T.Dict[str, T.Any]]:
    out = []
    for x in entries:
        out.append({
            'name': x['name'], 'cmd': [str(c) for c in x['cmd']], 'env': env_pairs(x['env']), 'suite': list(x['suite']),
            'depends': sorted(x['depends']), 'workdir': s(x['workdir']), 'timeout': int(x['timeout'] or 0),
            'is_parallel': bool(x['is_parallel']), 'priority': int(x['priority']), 'protocol': str(x['protocol']),
            'extra_paths': list(x['extra_paths']),
        })
    return out


def dat_test_view(path: Path) -> T.List[T.Dict[str, T.Any]]:
    """meson_test_setup.dat / meson_benchmark_setup.dat: what `meson test` loads."""
    if not path.exists():
        return []
    from . import backend_views as bv
    objs = bv.unpickle(path)
    out = []
    for t in objs:
        fname = [t.fname] if isinstance(t.fname, str) else list(t.fname)
        env = t.env.get_env({}) if hasattr(t.env, 'get_env') else dict(t.env)
        out.append({'name': t.name, 'cmd': fname + list(t.cmd_args), 'env': env, 'suite': list(t.suite),
                    'depends': list(t.depends), 'workdir': t.workdir, 'timeout': t.timeout, 'is_parallel': t.is_parallel,
                    'priority': t.priority, 'protocol': str(t.protocol), 'extra_paths': list(t.extra_paths)})
    return test_view(out)


def option_text(value: T.Any) -> str:
    if isinstance(value, bool):
        return 'true' if value else 'false'
    if isinstance(value, list):
        return '\x1f'.join(str(v) for v in value)
    return str(value)


def split_dest(dest: str) -> T.Tuple[str, str]:
    """'{bindir}/prog' -> ('bindir', 'prog'); no placeholder -> ('', dest)."""
    if dest.startswith('{') and '}' in dest:
        ph, rest = dest[1:].split('}', 1)
        return ph, rest.lstrip('/')
    return '', dest


def listing(root: str) -> T.List[str]:
    out = []
    for base, dirs, files in os.walk(root):
        for f in files:
            out.append(os.path.relpath(os.path.join(base, f), root))
        for d in list(dirs):
            full = os.path.join(base, d)
            if os.path.islink(full):
                out.append(os.path.relpath(full, root))
            elif not os.listdir(full):
                out.append(os.path.relpath(full, root) + '/')
    return sorted(out)


def project_views(src: Path, build: Path, setup_result: projgen.SetupResult, p: T.Optional[T.Dict[str, T.Any]],
                  job: T.Dict[str, T.Any]) -> T.Dict[str, T.Any]:
    mp = Mapper(src, build)
    info = build / 'meson-info'
    priv = build / 'meson-private'
    v: T.Dict[str, T.Any] = {}

    # ---- targets
    targets = []
    for t in read_json(info / 'intro-targets.json'):
        srcs: T.List[str] = []
        gens: T.List[str] = []
        unity: T.List[str] = []
        has_compile = False
        for blk in t['target_sources']:
            if 'sources' in blk:
                has_compile = True
                srcs += [mp.path(x) for x in blk.get('sources', [])]
                gens += [mp.path(x) for x in blk.get('generated_sources', [])]
                unity += [mp.path(x) for x in blk.get('unity_sources', [])]
        targets.append({
            'id': t['id'], 'name': t['name'], 'type': t['type'], 'sp': s(t['subproject']), 'bbd': bool(t['build_by_default']),
            'installed': bool(t['installed']), 'filenames': [mp.path(x) for x in t['filename']],
            'install_filenames': [s(x) for x in (t.get('install_filename') or [])],
            'srcs': srcs, 'gens': gens, 'unity': unity, 'has_compile': has_compile,
            'defined_in': mp.srcrel(t['defined_in']), 'depends': list(t.get('depends', [])),
        })
    v['targets'] = targets

    # ---- tests / benchmarks
    v['tests'] = test_view(read_json(info / 'intro-tests.json'))
    v['benchmarks'] = test_view(read_json(info / 'intro-benchmarks.json'))
    v['tests_dat'] = dat_test_view(priv / 'meson_test_setup.dat')
    v['benchmarks_dat'] = dat_test_view(priv / 'meson_benchmark_setup.dat')

    # ---- options: introspection vs get_option() messages
    opts = []
    for o in read_json(info / 'intro-buildoptions.json'):
        opts.append({'name': o['name'], 'type': o['type'], 'text': option_text(o['value']), 'section': o['section']})
    v['options'] = opts
    msgs = []
    for m in setup_result.messages:
        if m.startswith('OPT|'):
            parts = m.split('|', 4)
            if len(parts) == 5:
                msgs.append({'sp': parts[1], 'name': parts[2], 'type': parts[3], 'text': parts[4]})
    v['messages'] = msgs
    optval = {o['name']: o['text'] for o in opts}
    v['dirs'] = [[k, optval.get(k, '')] for k in ('prefix', 'bindir', 'libdir', 'datadir', 'includedir', 'mandir', 'libexecdir',
                                                   'localedir', 'sbindir', 'sysconfdir', 'localstatedir', 'sharedstatedir',
                                                   'infodir', 'licensedir')]

    # ---- install plan / installed vs install.dat
    plan = []
    for section, entries in read_json(info / 'intro-install_plan.json').items():
        for srcp, e in entries.items():
            ph, rest = split_dest(e['destination'])
            plan.append({'section': section, 'src': mp.path(srcp), 'dest': e['destination'], 'ph': ph, 'rest': rest,
                         'tag': s(e.get('tag')), 'sp': s(e.get('subproject'))})
    v['plan'] = plan
    v['installed'] = [[mp.path(a) if os.path.isabs(a) else '@name/' + a, b]
                      for a, b in read_json(info / 'intro-installed.json').items()]
    dat = []
    dirs_listing = []
    if (priv / 'install.dat').exists():
        from . import backend_views as bv
        d = bv.unpickle(priv / 'install.dat')
        pre = d.prefix
        for t in d.targets:
            dat.append({'section': 'targets', 'src': mp.path(os.path.join(d.build_dir, t.fname)),
                        'dest': os.path.join(pre, t.outdir, os.path.basename(t.fname)), 'name': t.out_name, 'tag': s(t.tag),
                        'sp': s(t.subproject), 'isdir': False})
        for sect, items in (('data', d.data), ('man', d.man)):
            for i in items:
                dat.append({'section': i.data_type or sect, 'src': mp.path(i.path), 'dest': os.path.join(pre, i.install_path),
                            'name': i.install_path_name, 'tag': s(i.tag), 'sp': s(i.subproject), 'isdir': False})
        for i in d.headers:
            dat.append({'section': i.data_type or 'headers', 'src': mp.path(i.path),
                        'dest': os.path.join(pre, i.install_path, os.path.basename(i.path)),
                        'name': os.path.join(i.install_path_name, os.path.basename(i.path)), 'tag': s(i.tag),
                        'sp': s(i.subproject), 'isdir': False})
        for i in d.install_subdirs:
            dat.append({'section': i.data_type or 'install_subdirs', 'src': mp.path(i.path),
                        'dest': os.path.join(pre, i.install_path), 'name': i.install_path_name, 'tag': s(i.tag),
                        'sp': s(i.subproject), 'isdir': True})
            dirs_listing.append([mp.path(i.path), [x for x in listing(i.path) if not x.endswith('/')]])
        v['dat_other'] = {'symlinks': len(d.symlinks), 'emptydir': len(d.emptydir), 'scripts': len(d.install_scripts)}
    v['dat'] = dat
    v['dir_listing'] = dirs_listing

    # ---- a real `meson install --destdir` (only for projects that need no build step)
    v['did_install'] = False
    v['tree'] = []
    if job.get('install'):
        dest = build.parent / 'destdir'
        r = projgen.run_meson(['install', '-C', str(build), '--destdir', str(dest), '--no-rebuild'])
        if r.returncode != 0:
            raise common.MachineryError(f'meson install failed in {job["id"]}: {(r.stdout + r.stderr)[-600:]}')
        v['did_install'] = True
        v['tree'] = ['/' + x for x in listing(str(dest))]

    # ---- tests really run by `meson test` (script tests record argv + environment)
    runs = []
    v['did_test'] = False
    if job.get('run_tests'):
        r = projgen.run_meson(['test', '-C', str(build), '--no-rebuild', '--num-processes', '2'],
                              env={'VERIF_RUN_DIR': str(build)})
        r2 = projgen.run_meson(['test', '-C', str(build), '--no-rebuild', '--benchmark'], env={'VERIF_RUN_DIR': str(build)})
        v['bench_rc'] = r2.returncode
        v['did_test'] = True
        v['test_rc'] = r.returncode
        for f in sorted(build.glob('run_*.txt')):
            argv: T.List[str] = []
            envd: T.Dict[str, str] = {}
            for ln in f.read_text(encoding='utf-8', errors='surrogateescape').split('\n'):
                if ln.startswith('ARG '):
                    argv.append(ln[4:])
                elif ln.startswith('ENV ') and '=' in ln:
                    k, val = ln[4:].split('=', 1)
                    envd[k] = val
            runs.append({'key': f.name[len('run_'):-len('.txt')], 'argv': argv, 'env': env_pairs(envd)})
    v['runs'] = runs

    # ---- build system files
    bs = read_json(info / 'intro-buildsystem_files.json')
    v['bsfiles'] = [mp.srcrel(x) for x in bs]
    v['bs_missing'] = [mp.srcrel(x) for x in bs if not os.path.exists(x)]
    v['has_ninja'] = (build / 'build.ninja').exists()
    regen = []
    v['M'] = {'rules': [], 'dup_rules': [], 'pools': [], 'edges': [], 'edge_pools': [], 'defaults': [], 'errors': []}
    if v['has_ninja']:
        import shlex
        man = ninja_ref.parse_file(build / 'build.ninja')
        # the manifest with every path in the same normal form as the views, and each statement flagged `cc`
        # when its command starts with a compiler command line that intro-targets.json names ("compiler" key)
        compilers = set()
        for t in read_json(info / 'intro-targets.json'):
            for blk in t['target_sources']:
                if 'sources' in blk and blk.get('language') != 'unknown' and blk.get('compiler'):
                    compilers.add(tuple(blk['compiler']))
        M = man.to_json()
        for ej, e in zip(M['edges'], man.edges):
            for k in ('ins', 'imp', 'ord', 'outs', 'iouts'):
                ej[k] = [mp.path(q) for q in ej[k]]
            cc = False
            if not e.is_phony and compilers:
                try:
                    argv = shlex.split(e.command)
                except (ValueError, ninja_ref.NinjaSyntaxError):
                    argv = []
                cc = any(tuple(argv[:len(c)]) == c for c in compilers)
            ej['cc'] = cc
        M['defaults'] = [mp.path(q) for q in M['defaults']]
        v['M'] = M
        for e in man.edges:
            if 'build.ninja' in e.outs:
                for q in e.ins:
                    full = os.path.normpath(q if os.path.isabs(q) else os.path.join(mp.build, q))
                    if full == mp.build or full.startswith(mp.build + os.sep):
                        continue  # coredata.dat and other build-directory state
                    regen.append(mp.srcrel(q))
    v['regen_inputs'] = regen
    return v
