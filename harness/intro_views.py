"""Projection of the artefacts of a configured build directory to the views judged by
``specs/ninja/IntroConsistent.tla`` (C15).  Runs in a worker process; computes no verdicts.

Every view is a list of records with uniform field types (strings, ints, booleans, lists); absent values
are '' (strings) so that TLC never compares values of different types.  Paths inside the build directory are
made relative to it (canonical, like ninja_ref does), paths inside the source directory become '@src/<rel>'.
"""
from __future__ import annotations

import json
import os
import typing as T
from pathlib import Path

from . import common, ninja_ref, projgen


def read_json(p: Path) -> T.Any:
    with open(p, encoding='utf-8') as f:
        return json.load(f)


class Mapper:
    def __init__(self, src: Path, build: Path):
        self.src = os.path.realpath(src)
        self.build = os.path.realpath(build)

    def path(self, p: str) -> str:
        """Absolute or build-relative path -> build-relative canonical path (the form used in M)."""
        if not os.path.isabs(p):
            p = os.path.join(self.build, p)
        p = os.path.normpath(p)
        return ninja_ref.canonicalize(os.path.relpath(p, self.build))

    def srcrel(self, p: str) -> str:
        """A path as a source-relative name when it is inside the source tree, else absolute."""
        if not os.path.isabs(p):
            p = os.path.join(self.build, p)
        p = os.path.normpath(p)
        if p == self.src or p.startswith(self.src + os.sep):
            return os.path.relpath(p, self.src)
        return p


def s(v: T.Any) -> str:
    return '' if v is None else str(v)


def env_pairs(env: T.Dict[str, str]) -> T.List[T.List[str]]:
    return [[k, str(v)] for k, v in sorted(env.items())]


def test_view(entries: T.List[T.Dict[str, T.Any]]) -> T.List[T.Dict[str, T.Any]]:
    out = []
    for x in entries:
        out.append({
            'name': x['name'], 'cmd': [str(c) for c in x['cmd']], 'env': env_pairs(x['env']), 'suite': list(x['suite']),
            'depends': sorted(x['depends']), 'workdir': s(x['workdir']), 'timeout': int(x['timeout'] or 0),
            'is_parallel': bool(x['is_parallel']), 'priority': int(x['priority']), 'protocol': str(x['protocol']),
            'extra_paths': list(x['extra_paths']),
        })
    return out


def dat_test_view(path: Path) -> T.List[T.Dict[str, T.Any]]:
    """meson_test_setup.dat / meson_benchmark_setup.dat: what `meson test` loads."""
    if not path.exists():
        return []
    from . import backend_views as bv
    objs = bv.unpickle(path)
    out = []
    for t in objs:
        fname = [t.fname] if isinstance(t.fname, str) else list(t.fname)
        env = t.env.get_env({}) if hasattr(t.env, 'get_env') else dict(t.env)
        out.append({'name': t.name, 'cmd': fname + list(t.cmd_args), 'env': env, 'suite': list(t.suite),
                    'depends': list(t.depends), 'workdir': t.workdir, 'timeout': t.timeout, 'is_parallel': t.is_parallel,
                    'priority': t.priority, 'protocol': str(t.protocol), 'extra_paths': list(t.extra_paths)})
    return test_view(out)


def option_text(value: T.Any) -> str:
    if isinstance(value, bool):
        return 'true' if value else 'false'
    if isinstance(value, list):
        return '\x1f'.join(str(v) for v in value)
    return str(value)


def split_dest(dest: str) -> T.Tuple[str, str]:
    """'{bindir}/prog' -> ('bindir', 'prog'); no placeholder -> ('', dest)."""
    if dest.startswith('{') and '}' in dest:
        ph, rest = dest[1:].split('}', 1)
        return ph, rest.lstrip('/')
    return '', dest


def listing(root: str) -> T.List[str]:
    out = []
    for base, dirs, files in os.walk(root):
        for f in files:
            out.append(os.path.relpath(os.path.join(base, f), root))
        for d in list(dirs):
            full = os.path.join(base, d)
            if os.path.islink(full):
                out.append(os.path.relpath(full, root))
            elif not os.listdir(full):
                out.append(os.path.relpath(full, root) + '/')
    return sorted(out)


RECORDING_NINJA = """#!/bin/sh
# stand-in for ninja: answers --version / -t compdb like tools/ninja-stub and appends every other invocation to
# $C15_NINJA_LOG as: arg NUL arg NUL ... newline
case "$1" in
  --version) echo "1.11.1"; exit 0;;
esac
for a in "$@"; do
  if [ "$a" = "compdb" ]; then echo "[]"; exit 0; fi
done
if [ "$1" = "-n" ]; then echo "ninja: no work to do."; exit 0; fi
if [ -n "$C15_NINJA_LOG" ]; then
  { printf '%s\\0' "$@"; printf '\\n'; } >> "$C15_NINJA_LOG"
fi
exit 0
"""


def pretend_build(build: Path) -> int:
    """There is no ninja here: create (as small text files) the outputs the statements of build.ninja promise, so
    that `meson install --no-rebuild` finds what a build would have produced.  Existing files (configure-time
    outputs, alias links) are left alone."""
    man = ninja_ref.parse_file(build / 'build.ninja')
    n = 0
    for e in man.edges:
        if e.is_phony:
            continue
        for o in e.all_outs():
            full = o if os.path.isabs(o) else os.path.join(build, o)
            full = os.path.normpath(full)
            if not full.startswith(str(build) + os.sep) or os.path.lexists(full):
                continue
            os.makedirs(os.path.dirname(full), exist_ok=True)
            if full.endswith('.jar'):
                # (`meson install` rewrites the manifest of a jar: it has to be a real archive)
                import zipfile
                with zipfile.ZipFile(full, 'w') as z:
                    z.writestr('META-INF/MANIFEST.MF', 'Manifest-Version: 1.0\n')
            else:
                with open(full, 'w', encoding='utf-8') as f:
                    f.write('built\n')
            n += 1
    return n


def test_requests(build: Path, tests: T.List[T.Dict[str, T.Any]]) -> T.List[T.Dict[str, T.Any]]:
    """Run `meson test <selection>` (two complementary strict selections of the test names; the tests themselves
    are replaced by /bin/true through --wrapper) with a recording ninja; returns per selection the names asked."""
    names = sorted({x['name'] for x in tests})
    if len(names) < 2:
        return []
    stub = build.parent / 'ninja-recording'
    stub.write_text(RECORDING_NINJA)
    stub.chmod(0o755)
    out = []
    for k, sel in enumerate((names[:1], names[1:])):
        log = build.parent / f'ninja-log-{k}'
        r = projgen.run_meson(['test', '-C', str(build), '--wrapper', '/bin/true', '--num-processes', '2'] + sel,
                              env={'NINJA': str(stub), 'C15_NINJA_LOG': str(log)}, timeout=CLI_TIMEOUT)
        if r.returncode not in (0, 1):
            raise common.MachineryError(f'meson test {sel} failed: {(r.stdout + r.stderr)[-600:]}')
        asked: T.List[str] = []
        if log.exists():
            for ln in log.read_bytes().split(b'\n'):
                args = [a.decode('utf-8', 'surrogateescape') for a in ln.split(b'\0') if a]
                if not args:
                    continue
                # ninja -C <dir> <targets...>
                rest = args[2:] if args[0] == '-C' else args
                asked += [ninja_ref.canonicalize(a) for a in rest]
        out.append({'sel': sel, 'asked': asked})
    return out


BUILD_DEF_NAMES = ('meson.build', 'meson.options', 'meson_options.txt')
CLI_TIMEOUT = 1800    # seconds for one `meson install` / `meson test` (the box may be heavily loaded)


def traced_setup(src: Path, build2: Path, p: T.Optional[T.Dict[str, T.Any]], job: T.Dict[str, T.Any]) -> T.Tuple[T.List[str], T.List[str]]:
    """Configure the same source tree once more, under `strace -f -e trace=open,openat`; returns (the build-definition
    files below the source directory that were opened successfully, intro-buildsystem_files.json of that build
    directory), both source-relative."""
    import re
    import subprocess
    log = build2.parent / 'strace.out'
    cmd = ['strace', '-f', '-qq', '-e', 'trace=open,openat', '-o', str(log)] + projgen.meson_cmd() + \
        ['setup', f"--backend={job.get('backend', 'ninja')}"]
    if p is not None:
        cmd += projgen.setup_args(p)
    cmd += list(job.get('extra_args', [])) + [str(build2), str(src)]
    try:
        r = subprocess.run(cmd, env=projgen.run_env(), stdout=subprocess.PIPE, stderr=subprocess.PIPE, text=True, errors='replace',
                           stdin=subprocess.DEVNULL, timeout=job.get('timeout', 300) * 3)
    except (OSError, subprocess.TimeoutExpired) as ex:
        raise common.MachineryError(f'traced meson setup failed to run in {job["id"]}: {ex}') from ex
    if r.returncode != 0 or not log.exists():
        raise common.MachineryError(f'traced meson setup failed in {job["id"]}: {(r.stdout + r.stderr)[-600:]}')
    mp = Mapper(src, build2)
    opened = set()
    call = re.compile(r'^(\d+)?\s*open(?:at)?\((?:AT_FDCWD, )?"((?:[^"\\]|\\.)*)", ([A-Z_|0-9]+)')
    done = re.compile(r'\)\s+= (-?\d+)')
    resumed = re.compile(r'^(\d+)?\s*<\.\.\. open(?:at)? resumed>.*\)\s+= (-?\d+)')
    pending: T.Dict[str, T.Tuple[str, str]] = {}

    def note(path: str, flags: str, ret: int) -> None:
        if ret < 0 or 'O_DIRECTORY' in flags or 'O_WRONLY' in flags or '\\' in path:
            return      # (escaped non-ASCII names are not generated for these projects)
        if os.path.basename(path) not in BUILD_DEF_NAMES:
            return
        full = os.path.realpath(os.path.normpath(path if os.path.isabs(path) else os.path.join(str(build2.parent), path)))
        if full.startswith(mp.src + os.sep):
            opened.add(os.path.relpath(full, mp.src))

    for ln in log.read_text(encoding='utf-8', errors='replace').splitlines():
        m = call.search(ln)
        if m:
            if '<unfinished' in ln:
                pending[m.group(1) or ''] = (m.group(2), m.group(3))
                continue
            r2 = done.search(ln[m.end():])
            if r2:
                note(m.group(2), m.group(3), int(r2.group(1)))
            continue
        m = resumed.search(ln)
        if m and (m.group(1) or '') in pending:
            path, flags = pending.pop(m.group(1) or '')
            note(path, flags, int(m.group(2)))
    bs = [mp.srcrel(x) for x in read_json(build2 / 'meson-info' / 'intro-buildsystem_files.json')]
    return sorted(opened), bs


def project_views(src: Path, build: Path, setup_result: projgen.SetupResult, p: T.Optional[T.Dict[str, T.Any]],
                  job: T.Dict[str, T.Any]) -> T.Dict[str, T.Any]:
    mp = Mapper(src, build)
    info = build / 'meson-info'
    priv = build / 'meson-private'
    v: T.Dict[str, T.Any] = {}

    # ---- targets
    targets = []
    for t in read_json(info / 'intro-targets.json'):
        srcs: T.List[str] = []
        gens: T.List[str] = []
        unity: T.List[str] = []
        has_compile = False
        for blk in t['target_sources']:
            if 'sources' in blk:
                has_compile = True
                srcs += [mp.path(x) for x in blk.get('sources', [])]
                gens += [mp.path(x) for x in blk.get('generated_sources', [])]
                unity += [mp.path(x) for x in blk.get('unity_sources', [])]
        targets.append({
            'id': t['id'], 'name': t['name'], 'type': t['type'], 'sp': s(t['subproject']), 'bbd': bool(t['build_by_default']),
            'installed': bool(t['installed']), 'filenames': [mp.path(x) for x in t['filename']],
            'install_filenames': [s(x) for x in (t.get('install_filename') or [])],
            'srcs': srcs, 'gens': gens, 'unity': unity, 'has_compile': has_compile,
            'defined_in': mp.srcrel(t['defined_in']), 'depends': list(t.get('depends', [])),
        })
    v['targets'] = targets

    # ---- tests / benchmarks
    v['tests'] = test_view(read_json(info / 'intro-tests.json'))
    v['benchmarks'] = test_view(read_json(info / 'intro-benchmarks.json'))
    v['tests_dat'] = dat_test_view(priv / 'meson_test_setup.dat')
    v['benchmarks_dat'] = dat_test_view(priv / 'meson_benchmark_setup.dat')

    # ---- options: introspection vs get_option() messages
    opts = []
    for o in read_json(info / 'intro-buildoptions.json'):
        opts.append({'name': o['name'], 'type': o['type'], 'text': option_text(o['value']), 'section': o['section']})
    v['options'] = opts
    msgs = []
    # (message() lines of a subproject are printed with a "<subproject>| " prefix)
    for ln in setup_result.stdout.splitlines():
        at = ln.find('Message: OPT|')
        if at < 0 or (at > 0 and not ln[:at].endswith('| ')):
            continue
        parts = ln[at + len('Message: '):].split('|', 4)
        if len(parts) == 5:
            msgs.append({'sp': parts[1], 'name': parts[2], 'type': parts[3], 'text': parts[4]})
    v['messages'] = msgs
    optval = {o['name']: o['text'] for o in opts}
    v['dirs'] = [[k, optval.get(k, '')] for k in ('prefix', 'bindir', 'libdir', 'datadir', 'includedir', 'mandir', 'libexecdir',
                                                   'localedir', 'sbindir', 'sysconfdir', 'localstatedir', 'sharedstatedir',
                                                   'infodir', 'licensedir')]

    # ---- install plan / installed vs install.dat
    plan = []
    for section, entries in read_json(info / 'intro-install_plan.json').items():
        for srcp, e in entries.items():
            ph, rest = split_dest(e['destination'])
            plan.append({'section': section, 'src': mp.path(srcp), 'dest': e['destination'], 'ph': ph, 'rest': rest,
                         'tag': s(e.get('tag')), 'sp': s(e.get('subproject'))})
    v['plan'] = plan
    v['installed'] = [[mp.path(a) if os.path.isabs(a) else '@name/' + a, b]
                      for a, b in read_json(info / 'intro-installed.json').items()]
    dat = []
    dirs_listing = []
    if (priv / 'install.dat').exists():
        from . import backend_views as bv
        d = bv.unpickle(priv / 'install.dat')
        pre = d.prefix
        for t in d.targets:
            dat.append({'section': 'targets', 'src': mp.path(os.path.join(d.build_dir, t.fname)),
                        'dest': os.path.join(pre, t.outdir, os.path.basename(t.fname)), 'name': t.out_name, 'tag': s(t.tag),
                        'sp': s(t.subproject), 'isdir': False})
        for sect, items in (('data', d.data), ('man', d.man)):
            for i in items:
                dat.append({'section': i.data_type or sect, 'src': mp.path(i.path), 'dest': os.path.join(pre, i.install_path),
                            'name': i.install_path_name, 'tag': s(i.tag), 'sp': s(i.subproject), 'isdir': False})
        for i in d.headers:
            dat.append({'section': i.data_type or 'headers', 'src': mp.path(i.path),
                        'dest': os.path.join(pre, i.install_path, os.path.basename(i.path)),
                        'name': os.path.join(i.install_path_name, os.path.basename(i.path)), 'tag': s(i.tag),
                        'sp': s(i.subproject), 'isdir': False})
        for i in d.install_subdirs:
            dat.append({'section': i.data_type or 'install_subdirs', 'src': mp.path(i.path),
                        'dest': os.path.join(pre, i.install_path), 'name': i.install_path_name, 'tag': s(i.tag),
                        'sp': s(i.subproject), 'isdir': True})
            dirs_listing.append([mp.path(i.path), [x for x in listing(i.path) if not x.endswith('/')]])
        v['dat_other'] = {'symlinks': len(d.symlinks), 'emptydir': len(d.emptydir), 'scripts': len(d.install_scripts)}
        # symbolic links (intro-installed.json lists them by name) and empty directories (in no introspection file)
        v['dat_links'] = [os.path.join(pre, x.name) for x in d.symlinks]
        v['dat_empty'] = [os.path.join(pre, x.path) for x in d.emptydir]
    v.setdefault('dat_links', [])
    v.setdefault('dat_empty', [])
    v['dat'] = dat
    v['dir_listing'] = dirs_listing

    # ---- a real `meson install --destdir` (only for projects that need no build step)
    v['did_install'] = False
    v['tree'] = []
    if job.get('install'):
        if (build / 'build.ninja').exists():
            pretend_build(build)
        dest = build.parent / 'destdir'
        r = projgen.run_meson(['install', '-C', str(build), '--destdir', str(dest), '--no-rebuild'], timeout=CLI_TIMEOUT)
        if r.returncode != 0:
            raise common.MachineryError(f'meson install failed in {job["id"]}: {(r.stdout + r.stderr)[-600:]}')
        v['did_install'] = True
        v['tree'] = ['/' + x for x in listing(str(dest))]

    # ---- tests really run by `meson test` (script tests record argv + environment)
    runs = []
    v['did_test'] = False
    if job.get('run_tests'):
        r = projgen.run_meson(['test', '-C', str(build), '--no-rebuild', '--num-processes', '2'],
                              env={'VERIF_RUN_DIR': str(build)}, timeout=CLI_TIMEOUT)
        r2 = projgen.run_meson(['test', '-C', str(build), '--no-rebuild', '--benchmark'], env={'VERIF_RUN_DIR': str(build)},
                               timeout=CLI_TIMEOUT)
        v['bench_rc'] = r2.returncode
        v['did_test'] = True
        v['test_rc'] = r.returncode
        for f in sorted(build.glob('run_*.txt')):
            argv: T.List[str] = []
            envd: T.Dict[str, str] = {}
            for ln in f.read_text(encoding='utf-8', errors='surrogateescape').split('\n'):
                if ln.startswith('ARG '):
                    argv.append(ln[4:])
                elif ln.startswith('ENV ') and '=' in ln:
                    k, val = ln[4:].split('=', 1)
                    envd[k] = val
            runs.append({'key': f.name[len('run_'):-len('.txt')], 'argv': argv, 'env': env_pairs(envd)})
    v['runs'] = runs

    # ---- what `meson test <selection>` asks the backend to build (the ninja stand-in records its argv)
    v['requests'] = test_requests(build, v['tests']) if job.get('ask_rebuild') and (build / 'build.ninja').exists() else []

    # ---- build system files
    bs = read_json(info / 'intro-buildsystem_files.json')
    v['bsfiles'] = [mp.srcrel(x) for x in bs]
    v['bs_missing'] = [mp.srcrel(x) for x in bs if not os.path.exists(x)]
    v['has_ninja'] = (build / 'build.ninja').exists()
    regen = []
    v['M'] = {'rules': [], 'dup_rules': [], 'pools': [], 'edges': [], 'edge_pools': [], 'defaults': [], 'errors': []}
    if v['has_ninja']:
        import shlex
        man = ninja_ref.parse_file(build / 'build.ninja')
        # the manifest with every path in the same normal form as the views, and each statement flagged `cc`
        # when its command starts with a compiler command line that intro-targets.json names ("compiler" key)
        compilers = set()
        for t in read_json(info / 'intro-targets.json'):
            for blk in t['target_sources']:
                if 'sources' in blk and blk.get('language') != 'unknown' and blk.get('compiler'):
                    compilers.add(tuple(blk['compiler']))
        M = man.to_json()
        for ej, e in zip(M['edges'], man.edges):
            for k in ('ins', 'imp', 'ord', 'outs', 'iouts'):
                ej[k] = [mp.path(q) for q in ej[k]]
            cc = False
            if not e.is_phony and compilers:
                try:
                    argv = shlex.split(e.command)
                except (ValueError, ninja_ref.NinjaSyntaxError):
                    argv = []
                cc = any(tuple(argv[:len(c)]) == c for c in compilers)
            ej['cc'] = cc
        M['defaults'] = [mp.path(q) for q in M['defaults']]
        v['M'] = M
        for e in man.edges:
            if 'build.ninja' in e.outs:
                for q in e.ins:
                    full = os.path.normpath(q if os.path.isabs(q) else os.path.join(mp.build, q))
                    if full == mp.build or full.startswith(mp.build + os.sep):
                        continue  # coredata.dat and other build-directory state
                    regen.append(mp.srcrel(q))
    v['regen_inputs'] = regen

    # ---- the build-definition files meson really opens (a second, identical `meson setup` run under strace)
    v['did_trace'] = False
    v['read_files'] = []
    v['read_bsfiles'] = []
    if job.get('trace_reads'):
        v['read_files'], v['read_bsfiles'] = traced_setup(src, build.parent / 'b-traced', p, job)
        v['did_trace'] = True
    return v
