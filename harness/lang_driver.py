"""Driver shared by the language-family checks (C01, C02, C16, C17).

* renders abstract token sequences (the alphabet of specs/lang) to concrete
  text with seeded trivia, remembering the byte extent of every token;
* tokenises real text with the real Lexer and projects it to abstract tokens;
* runs the real ``mparser.Parser`` / ``RawPrinter`` and projects the tree to
  the node shape of MesonGrammar.tla (nested tuples ``[k, v, n, cs, c, d]``);
* converts the recorded line/column extents of FunctionNode / ArrayNode to
  token indices.
"""
from __future__ import annotations

import json
import random
import typing as T

from . import common

WORDLIKE = {'id', 'number', 'true', 'false', 'if', 'elif', 'else', 'endif', 'foreach', 'endforeach', 'and', 'or',
            'not', 'in', 'continue', 'break', 'string'}
SYMTEXT = {
    'lparen': '(', 'rparen': ')', 'lbracket': '[', 'rbracket': ']', 'lcurl': '{', 'rcurl': '}', 'comma': ',', 'dot': '.',
    'plus': '+', 'dash': '-', 'star': '*', 'percent': '%', 'fslash': '/', 'colon': ':', 'assign': '=', 'plusassign': '+=',
    'equal': '==', 'nequal': '!=', 'lt': '<', 'le': '<=', 'gt': '>', 'ge': '>=', 'questionmark': '?', 'eol': '\n',
}
KEYWORDS = {'true', 'false', 'if', 'elif', 'else', 'endif', 'foreach', 'endforeach', 'and', 'or', 'not', 'in',
            'continue', 'break'}
# pairs of adjacent symbol tokens that would fuse into another token when written without a space
FUSE = {('plus', 'assign'), ('assign', 'assign'), ('lt', 'assign'), ('gt', 'assign'), ('plus', 'equal'),
        ('assign', 'equal'), ('lt', 'equal'), ('gt', 'equal')}


def tok(t: str, s: str = '', n: int = 0, cs: T.Sequence[int] = ()) -> T.Dict[str, T.Any]:
    return {'t': t, 's': s, 'n': n, 'cs': list(cs)}


def ident(name: str) -> T.Dict[str, T.Any]:
    return tok('id', s=name, cs=[ord(c) for c in name])


def token_text(tk: T.Dict[str, T.Any], rnd: T.Optional[random.Random] = None) -> str:
    t = tk['t']
    if t == 'id':
        return tk['s']
    if t == 'number':
        n = tk['n']
        if rnd is not None and n > 0:
            return rnd.choice([str(n), str(n), hex(n), '0o%o' % n, '0b' + bin(n)[2:], '0X%X' % n])
        return str(n)
    if t == 'string':
        body = ''.join(chr(c) for c in tk['cs'])
        fl = tk['s']
        return {'s': "'%s'", 'ms': "'''%s'''", 'fs': "f'%s'", 'mfs': "f'''%s'''"}[fl] % body
    if t in KEYWORDS:
        return t
    return SYMTEXT[t]


def render(tokens: T.Sequence[T.Dict[str, T.Any]], rnd: random.Random, trivia: bool = True,
           continuations: bool = True, comments: float = 0.2) -> T.Tuple[str, T.List[T.Tuple[int, int]]]:
    """tokens -> (text, [(start, end) byte extent of each token])."""
    out: T.List[str] = []
    spans: T.List[T.Tuple[int, int]] = []
    pos = 0
    prev: T.Optional[str] = None

    def emit(s: str) -> None:
        nonlocal pos
        out.append(s)
        pos += len(s)

    for tk in tokens:
        t = tk['t']
        need = False
        if prev is not None:
            if prev in WORDLIKE and t in WORDLIKE:
                need = True
            elif (prev, t) in FUSE:
                need = True
            elif prev == 'number' and t == 'dot':
                need = False
        if trivia:
            r = rnd.random()
            if need or r < 0.35:
                emit(rnd.choice([' ', ' ', '  ', '\t', ' \t ']))
            if continuations and prev is not None and prev != 'eol' and r > 0.93:
                emit('\\\n' + rnd.choice(['', '  ']))       # line continuation is whitespace
            if t == 'eol' and rnd.random() < (0.6 if prev == 'not' else comments):
                emit(rnd.choice(['# comment', '#', ' # a, b = (c']))
        elif need:
            emit(' ')
        start = pos
        emit(token_text(tk, rnd if trivia else None))
        spans.append((start, pos))
        prev = t
    if trivia and rnd.random() < 0.15:
        emit(rnd.choice([' ', ' # trailing comment', '\t']))
    return ''.join(out), spans


# ---------------------------------------------------------------------------
# projection of the real tree


def node(k: str, v: str = '', n: int = 0, cs: T.Sequence[int] = (), c: T.Sequence[T.Any] = (), d: T.Sequence[T.Any] = ()) -> T.List[T.Any]:
    return [k, v, n, list(cs), list(c), list(d)]


def clamp(n: int) -> int:
    return n if -2 ** 31 < n < 2 ** 31 else 0


def project_ast(x: T.Any, mp: T.Any) -> T.List[T.Any]:
    P = lambda y: project_ast(y, mp)  # noqa: E731
    if isinstance(x, mp.CodeBlockNode):
        return node('block', c=[P(l) for l in x.lines])
    if isinstance(x, mp.IfClauseNode):
        c: T.List[T.Any] = []
        for i in x.ifs:
            c += [P(i.condition), P(i.block)]
        d = [P(x.elseblock.block)] if isinstance(x.elseblock, mp.ElseNode) else []
        return node('if', c=c, d=d)
    if isinstance(x, mp.ForeachClauseNode):
        return node('foreach', c=[P(x.items), P(x.block)], d=[node('id', v=i.value, cs=[ord(ch) for ch in i.value]) for i in x.varnames])
    if isinstance(x, mp.PlusAssignmentNode):
        return node('plusassign', v=x.var_name.value, cs=[ord(ch) for ch in x.var_name.value], c=[P(x.value)])
    if isinstance(x, mp.AssignmentNode):
        return node('assign', v=x.var_name.value, cs=[ord(ch) for ch in x.var_name.value], c=[P(x.value)])
    if isinstance(x, mp.TernaryNode):
        return node('ternary', c=[P(x.condition), P(x.trueblock), P(x.falseblock)])
    if isinstance(x, mp.OrNode):
        return node('or', c=[P(x.left), P(x.right)])
    if isinstance(x, mp.AndNode):
        return node('and', c=[P(x.left), P(x.right)])
    if isinstance(x, mp.ComparisonNode):
        return node('cmp', v=x.ctype, c=[P(x.left), P(x.right)])
    if isinstance(x, mp.ArithmeticNode):
        op = {'add': '+', 'sub': '-', 'mul': '*', 'div': '/', 'mod': '%'}.get(x.operation, x.operation)
        return node('arith', v=op, c=[P(x.left), P(x.right)])
    if isinstance(x, mp.NotNode):
        return node('not', c=[P(x.value)])
    if isinstance(x, mp.UMinusNode):
        return node('neg', c=[P(x.value)])
    if isinstance(x, mp.IndexNode):
        return node('idx', c=[P(x.iobject), P(x.index)])
    if isinstance(x, mp.MethodNode):
        return node('method', v=x.name.value, c=[P(x.source_object), P(x.args)])
    if isinstance(x, mp.FunctionNode):
        return node('call', v=x.func_name.value, c=[P(x.args)])
    if isinstance(x, mp.ArrayNode):
        return node('arr', c=[P(x.args)])
    if isinstance(x, mp.DictNode):
        return node('dict', c=[P(x.args)])
    if isinstance(x, mp.ParenthesizedNode):
        return node('paren', c=[P(x.inner)])
    if isinstance(x, mp.ArgumentNode):
        return node('args', n=1 if x.incorrect_order() else 0, c=[P(a) for a in x.arguments],
                    d=[node('kw', c=[P(k), P(v)]) for k, v in x.kwargs.items()])
    if isinstance(x, mp.EmptyNode):
        return node('empty')
    if isinstance(x, mp.IdNode):
        return node('id', v=x.value, cs=[ord(ch) for ch in x.value])
    if isinstance(x, mp.NumberNode):
        return node('num', n=clamp(x.value))
    if isinstance(x, mp.StringNode):
        fl = ('m' if x.is_multiline else '') + ('f' if x.is_fstring else '') + 's'
        return node('str', v=fl, cs=[ord(ch) for ch in x.raw_value])
    if isinstance(x, mp.BooleanNode):
        return node('bool', n=1 if x.value else 0)
    if isinstance(x, mp.ContinueNode):
        return node('continue')
    if isinstance(x, mp.BreakNode):
        return node('break')
    return node('alien:' + type(x).__name__)


def collect_extent_nodes(x: T.Any, mp: T.Any, out: T.List[T.Any]) -> None:
    """All FunctionNode / ArrayNode of the real tree (generic walk over dataclass-ish attributes)."""
    seen: T.Set[int] = set()

    def walk(y: T.Any) -> None:
        if isinstance(y, mp.BaseNode):
            if id(y) in seen:
                return
            seen.add(id(y))
            if isinstance(y, (mp.FunctionNode, mp.ArrayNode)):
                out.append(y)
            for name, val in vars(y).items():
                if name in ('whitespaces', 'pre_whitespaces'):
                    continue
                walk(val)
        elif isinstance(y, (list, tuple)):
            for z in y:
                walk(z)
        elif isinstance(y, dict):
            for k, v in y.items():
                walk(k)
                walk(v)
    walk(x)


def line_starts(text: str) -> T.List[int]:
    starts = [0]
    for i, ch in enumerate(text):
        if ch == '\n':
            starts.append(i + 1)
    return starts


def extents(ast: T.Any, mp: T.Any, text: str, spans: T.Sequence[T.Tuple[int, int]]) -> T.List[T.List[T.Any]]:
    nodes: T.List[T.Any] = []
    collect_extent_nodes(ast, mp, nodes)
    ls = line_starts(text)
    start_at = {s: i + 1 for i, (s, e) in enumerate(spans)}
    end_at = {e: i + 1 for i, (s, e) in enumerate(spans)}
    out = []
    for nd in nodes:
        kind = 'call' if isinstance(nd, mp.FunctionNode) else 'arr'
        try:
            so = ls[nd.lineno - 1] + nd.colno
            eo = ls[nd.end_lineno - 1] + nd.end_colno
        except (IndexError, TypeError):
            out.append([kind, -1, -1])
            continue
        out.append([kind, start_at.get(so, -1), end_at.get(eo, -1)])
    # a set on the TLA+ side: de-duplicate
    uniq = []
    for e in out:
        if e not in uniq:
            uniq.append(e)
    return uniq


def located(e: T.Any, text: str) -> bool:
    ln = getattr(e, 'lineno', None)
    col = getattr(e, 'colno', None)
    if not isinstance(ln, int) or not isinstance(col, int):
        return False
    lines = text.split('\n')
    if ln < 1 or ln > len(lines):
        return False
    # one past the end of the line is allowed (the error is "at" the newline / end of file)
    return 0 <= col <= len(lines[ln - 1]) + 1


def run_parser(text: str, spans: T.Sequence[T.Tuple[int, int]], mp: T.Any, printer_mod: T.Any, mesonlib: T.Any,
               want_ast: bool = True) -> T.Dict[str, T.Any]:
    """Parse ``text`` with the real parser; returns the observation part of a trace case."""
    obs: T.Dict[str, T.Any] = {'acc': False, 'ast': [], 'ext': [], 'lossless': True, 'located': True, 'exc': ''}
    try:
        ast = mp.Parser(text, 'verif.build').parse()
    except mesonlib.MesonException as e:
        obs['located'] = located(e, text)
        return obs
    except RecursionError:
        obs['exc'] = ''          # resource exhaustion on absurd nesting is not the parser's logic; treated as reject
        obs['located'] = True
        return obs
    except Exception as e:  # noqa: BLE001
        obs['exc'] = type(e).__name__
        return obs
    obs['acc'] = True
    try:
        pr = printer_mod.RawPrinter()
        ast.accept(pr)
        obs['lossless'] = (pr.result == text)
        if not obs['lossless']:
            obs['printed'] = pr.result
        if want_ast:
            obs['ast'] = project_ast(ast, mp)
        obs['ext'] = extents(ast, mp, text, spans)
    except Exception as e:  # noqa: BLE001
        obs['exc'] = 'post:' + type(e).__name__
    return obs


# ---------------------------------------------------------------------------
# real lexer -> abstract tokens


def lex_real(text: str, mp: T.Any) -> T.Tuple[T.List[T.Dict[str, T.Any]], T.List[T.Tuple[int, int]]]:
    """Tokenise with the real Lexer; returns abstract significant tokens + byte spans.

    Nested newlines arrive as 'whitespace' from the lexer; they are passed on as 'eol' tokens when the
    token text is a newline so that the *specification* decides which newlines separate statements."""
    toks: T.List[T.Dict[str, T.Any]] = []
    spans: T.List[T.Tuple[int, int]] = []
    for tkn in mp.Lexer(text).lex('verif.build'):
        tid = tkn.tid
        if tid == 'whitespace':
            if tkn.value == '\n':
                toks.append(tok('eol'))
                spans.append(tuple(tkn.bytespan))
            continue
        if tid == 'comment':
            continue
        if tid == 'id':
            toks.append(tok('id', s=tkn.value, cs=[ord(ch) for ch in tkn.value]))
        elif tid == 'number':
            toks.append(tok('number', n=clamp(int(tkn.value, base=0))))
        elif tid in ('string', 'fstring', 'multiline_string', 'multiline_fstring'):
            fl = {'string': 's', 'fstring': 'fs', 'multiline_string': 'ms', 'multiline_fstring': 'mfs'}[tid]
            toks.append(tok('string', s=fl, cs=[ord(ch) for ch in tkn.value]))
        else:
            toks.append(tok(tid))
        spans.append(tuple(tkn.bytespan))
    return toks, spans


def merge_batches(batches: T.Iterable[T.Dict[str, T.Any]]) -> T.Tuple[T.List[T.Dict[str, T.Any]], T.List[T.Dict[str, T.Any]]]:
    """Merge per-worker {'alphabet', 'cases'} batches into one alphabet and case list (token indices re-interned)."""
    alpha = Alphabet()
    cases: T.List[T.Dict[str, T.Any]] = []
    for b in batches:
        remap = [alpha.add(t) for t in b['alphabet']]
        for c in b['cases']:
            for key in ('t', 'tin', 'tout'):
                if key in c:
                    c[key] = [remap[j] for j in c[key]]
            for key in ('files', 'subs'):
                if key in c:
                    c[key] = [[name, [remap[j] for j in ix]] for name, ix in c[key]]
            cases.append(c)
    return alpha.items, cases


class Alphabet:
    """Interns abstract tokens for a batch file."""

    def __init__(self, initial: T.Sequence[T.Dict[str, T.Any]] = ()):
        self.items: T.List[T.Dict[str, T.Any]] = []
        self.index: T.Dict[str, int] = {}
        for t in initial:
            self.add(t)

    def add(self, t: T.Dict[str, T.Any]) -> int:
        key = json.dumps(t, sort_keys=True)
        i = self.index.get(key)
        if i is None:
            i = len(self.items)
            self.index[key] = i
            self.items.append(t)
        return i


def load_modules() -> T.Tuple[T.Any, T.Any, T.Any]:
    common.use_repo_meson()
    from mesonbuild import mparser, mesonlib, mlog
    from mesonbuild.ast import printer
    mlog.set_quiet()
    mlog._logger.log_disable_stdout = True
    return mparser, printer, mesonlib
