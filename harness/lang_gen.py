"""Grammar-based generator of Meson core-language programs (as abstract token lists).

Mostly well-typed (so that programs run deep), with a small rate of ill-typed
sub-expressions, undefined names, wrong arities and missing operands.
Used by C01 (evaluation), C16 (formatter) and C17 (rewriter)."""
from __future__ import annotations

import random
import typing as T

from .lang_driver import tok, ident

Tok = T.Dict[str, T.Any]
TYPES = ('int', 'bool', 'str', 'arr', 'dict')


def S(t: str) -> Tok:
    return tok(t)


def num(n: int) -> Tok:
    return tok('number', n=n)


def string(text: str, flavour: str = 's') -> Tok:
    return tok('string', s=flavour, cs=[ord(c) for c in text])


STR_BODIES = ['', 'a', 'ab', 'abc', 'a b', 'x_y', 'Hello', 'foo.c', '42', ' 7 ', '-3', '0x1f', 'a,b,c', 'k1', 'k2', 'zz', '/usr',
              'lib/', 'A-b c', '@0@', '@0@-@1@', 'v@x@', 'a\\nb', 'q\\\'q', 'tab\\t', '\\x41', '\\101', '\\u00e9', '\\q', 'back\\\\slash',
              # an escaped backslash followed by text that looks like another escape (decoding is one left-to-right pass)
              'C:\\\\x86\\\\bin', '\\\\u0041', 'dir\\\\1st', '\\\\N{DIGIT ONE}', '\\\\\\x41', '\\\\n', '\\\\\\\\101',
              'é', 'ünï', 'a  b', 'x=1']
ML_BODIES = ['', 'a', "it's", 'a\\nb', 'line1\nline2', '@0@', 'v@x@', '\\x41 raw']


class Gen:
    def __init__(self, rnd: random.Random, err_rate: float = 0.05, subst: float = 0.0, newmeth: float = 0.0):
        self.r = rnd
        self.err = err_rate
        # rate of array.flatten / array.slice / dict.values / str.splitlines (off by default, like subst)
        self.newmeth = newmeth
        # rate of the "values that look like placeholders" class (off by default: the random stream of the other users
        # of this generator is unchanged)
        self.subst = subst
        self.vars: T.Dict[str, str] = {}
        self.loop_depth = 0
        self.in_ternary = 0
        self.names = ['a', 'b', 'c', 'x', 'y', 'i', 'k', 'v', 'res', 'tmp_1']

    # -- helpers
    def pick_var(self, ty: str) -> T.Optional[str]:
        c = [n for n, t in self.vars.items() if t == ty]
        return self.r.choice(c) if c else None

    def maybe_wrong(self, ty: str) -> str:
        if self.r.random() < self.err:
            return self.r.choice([t for t in TYPES if t != ty])
        return ty

    # -- text that looks like a placeholder of an f-string / .format() for names that are (or may come) in scope
    PH_SHAPES = ['@%s@', 'see @%s@', '@@%s@@', '@%s', '%s@', '%s', '@%s@@%t@', '@%t@ and @%s@', '@', '@@', '@0@', '@1@', '@1@@0@', '0', '1@']
    F_SHAPES = ['@%s@ / @%t@', '@@%s@@ = @%t@', '@%s@@%t@', '@%s@@@%t@', '@%s@%t@', '@%t@ @%s@ @%t@', '@%s@@%t@@%u@', '@@%s@@@%t@@',
                'x@%s@@%t@y', '@%s@@0@@%t@', '@%u@@%s@ @%t@@%u@', '@%s@@%s@']
    N_SHAPES = ['@0@@1@', '@@0@@ @1@', '@1@ @0@ @1@', '@0@@@1@', '@0@1@', '@0@@a@', '@@0@@1@', '@1@@0@@2@', '@0@ / @1@', '@00@@1@']

    def ph_names(self, kinds: T.Tuple[str, ...] = ('str', 'int', 'bool')) -> T.List[str]:
        c = [n for n, t in self.vars.items() if t in kinds]
        return c or self.names[:3]

    def ph_fill(self, shape: str, names: T.Optional[T.List[str]] = None) -> str:
        names = names or self.ph_names()
        picks = [self.r.choice(names) for _ in range(3)]
        if len(set(names)) >= 2:
            while picks[1] == picks[0]:
                picks[1] = self.r.choice(names)
        return shape.replace('%s', picks[0]).replace('%t', picks[1]).replace('%u', picks[2])

    def ph_strlit(self) -> T.List[Tok]:
        return [string(self.ph_fill(self.r.choice(self.PH_SHAPES)), 's' if self.r.random() < 0.85 else 'ms')]

    def fstring_multi(self) -> T.List[Tok]:
        body = self.ph_fill(self.r.choice(self.F_SHAPES))
        if self.r.random() < 0.06:
            body += '@nope@'
        return [string(body, self.r.choice(['fs', 'fs', 'mfs']))]

    def format_multi(self, d: int) -> T.List[Tok]:
        r = self.r
        fmt = r.choice(self.N_SHAPES)
        n = 3 if '@2@' in fmt and r.random() < 0.9 else r.choice([2, 2, 2, 2, 1])
        args = []
        for _ in range(n):
            c = r.random()
            v = self.pick_var('str')
            if c < 0.4 and v is not None:
                args.append([ident(v)])
            elif c < 0.8:
                args.append(self.ph_strlit())
            else:
                args.append(self.expr(r.choice(['int', 'str', 'bool']), d))
        return self.method(self.strlit(fmt) if r.random() < 0.8 else self.fstring_multi(), 'format', args, atom=True)

    def subst_cluster(self) -> T.List[Tok]:
        """values that name each other, used in one literal with several identifiers, in .format() arguments, and the
        results substituted once more (statements separated by eol)"""
        r = self.r
        n1, n2, n3 = r.sample(self.names, 3)
        out: T.List[Tok] = []

        def assign(name: str, e: T.List[Tok], ty: str = 'str') -> None:
            nonlocal out
            if out:
                out.append(S('eol'))
            out += [ident(name), S('assign')] + e
            self.vars[name] = ty
        assign(n1, [string(self.ph_fill(r.choice(self.PH_SHAPES[:8]), [n2, n2, n3]))])
        assign(n2, [string(self.ph_fill(r.choice(self.PH_SHAPES[:8]), [n1, n1, n3]))])
        c = r.random()
        if c < 0.4:
            assign(n3, [string(self.ph_fill(r.choice(self.PH_SHAPES), [n1, n2]))])
        elif c < 0.7:
            assign(n3, [num(r.choice([0, 1, 7]))], 'int')
        elif c < 0.85:
            assign(n3, [S(r.choice(['true', 'false']))], 'bool')
        elif n3 not in self.vars:
            n3 = n1
        trio = [n1, n2, n3]
        res = r.sample([n for n in self.names if n not in trio], 3)
        assign(res[0], [string(self.ph_fill(r.choice(self.F_SHAPES), trio), r.choice(['fs', 'fs', 'mfs']))])
        fargs = [[ident(r.choice(trio))], [ident(r.choice(trio))] if r.random() < 0.7 else self.ph_strlit()]
        assign(res[1], self.method(self.strlit(r.choice(self.N_SHAPES)), 'format', fargs, atom=True))
        if r.random() < 0.7:
            assign(res[2], [string(self.ph_fill(r.choice(self.F_SHAPES), [res[0], res[1], r.choice(trio)]), 'fs')])
        return out

    def strlit(self, body: T.Optional[str] = None, plain_only: bool = False) -> T.List[Tok]:
        r = self.r
        if body is None and self.subst and r.random() < self.subst * 0.5:
            return self.ph_strlit()
        if body is None:
            if not plain_only and r.random() < 0.15:
                return [string(r.choice(ML_BODIES), 'ms')]
            body = r.choice(STR_BODIES)
        return [string(body, 's')]

    def call(self, name: str, args: T.List[T.List[Tok]]) -> T.List[Tok]:
        out = [ident(name), S('lparen')]
        for i, a in enumerate(args):
            if i:
                out.append(S('comma'))
            out += a
        if args and self.r.random() < 0.1:
            out.append(S('comma'))
        return out + [S('rparen')]

    def method(self, obj: T.List[Tok], name: str, args: T.List[T.List[Tok]], atom: bool = False) -> T.List[Tok]:
        if not atom:
            obj = [S('lparen')] + obj + [S('rparen')]
        return obj + [S('dot')] + self.call(name, args)

    def paren(self, e: T.List[Tok]) -> T.List[Tok]:
        return [S('lparen')] + e + [S('rparen')]

    # -- expressions
    def expr(self, ty: str, d: int = 0) -> T.List[Tok]:
        ty = self.maybe_wrong(ty)
        r = self.r
        if d > 3 or r.random() < 0.25 + 0.15 * d:
            return self.atom(ty)
        if r.random() < 0.002:
            return []                                        # missing operand
        f = getattr(self, 'e_' + ty)
        return f(d + 1)

    def atom(self, ty: str) -> T.List[Tok]:
        r = self.r
        v = self.pick_var(ty)
        if v is not None and r.random() < 0.45:
            return [ident(v)]
        if r.random() < 0.003:
            return [ident('undefined_name')]
        if ty == 'int':
            return [num(r.choice([0, 1, 2, 3, 7, 10, 42]))]
        if ty == 'bool':
            return [S(r.choice(['true', 'false']))]
        if ty == 'str':
            return self.strlit()
        if ty == 'arr':
            n = r.choice([0, 1, 2, 2, 3])
            ety = r.choice(['int', 'str', 'str', 'bool', 'arr']) if r.random() < 0.8 else None
            out = [S('lbracket')]
            for i in range(n):
                if i:
                    out.append(S('comma'))
                out += self.atom(ety or r.choice(['int', 'str']))
            if n and r.random() < 0.15:
                out.append(S('comma'))
            return out + [S('rbracket')]
        n = r.choice([0, 1, 2, 3])
        keys = r.sample(['k1', 'k2', 'zz', 'a', 'b c'], n)
        if n >= 2 and r.random() < 0.04:
            keys[1] = keys[0]                                 # duplicate key: must fail
        out = [S('lcurl')]
        for i, k in enumerate(keys):
            if i:
                out.append(S('comma'))
            out += [string(k)] + [S('colon')] + self.atom(r.choice(['int', 'str', 'bool', 'arr']))
        return out + [S('rcurl')]

    def binop(self, lt: str, ops: T.List[str], rt: str, d: int, wrap: bool = True) -> T.List[Tok]:
        l = self.expr(lt, d)
        rr = self.expr(rt, d)
        e = self.wrap(l) + [S(self.r.choice(ops))] + self.wrap(rr)
        return e

    def wrap(self, e: T.List[Tok]) -> T.List[Tok]:
        """parenthesise a compound operand most of the time (the rest exercises precedence)"""
        if len(e) > 1 and self.r.random() < 0.6:
            return self.paren(e)
        return e

    def e_int(self, d: int) -> T.List[Tok]:
        r = self.r
        c = r.random()
        if c < 0.4:
            return self.binop('int', ['plus', 'dash', 'star'], 'int', d)
        if c < 0.55:
            return self.wrap(self.expr('int', d)) + [S(r.choice(['fslash', 'percent']))] + [num(r.choice([1, 2, 3, 7]) if r.random() < 0.98 else 0)]
        if c < 0.62:
            return [S('dash')] + self.wrap(self.expr('int', d))
        if c < 0.7:
            return self.method(self.expr('arr', d), 'length', [])
        if c < 0.76:
            return self.method(self.strlit(r.choice(['42', ' 7 ', '-3', '0x1f', '007', '42', '10', '0b101', '+5', 'abc' if r.random() < 0.1 else '9', '' if r.random() < 0.1 else '0'])), 'to_int', [], atom=True)
        if c < 0.8:
            return self.method(self.expr('bool', d), 'to_int', [])
        if c < 0.9:
            return self.ternary('int', d)
        return self.index_into('int', d)

    def ternary(self, ty: str, d: int) -> T.List[Tok]:
        if self.in_ternary and self.r.random() < 0.97:
            return self.atom(ty)
        self.in_ternary += 1
        try:
            return self._ternary(ty, d)
        finally:
            self.in_ternary -= 1

    def _ternary(self, ty: str, d: int) -> T.List[Tok]:
        return self.wrap(self.expr('bool', d)) + [S('questionmark')] + self.wrap(self.expr(ty, d + 1)) + [S('colon')] + self.wrap(self.expr(ty, d + 1))

    def index_into(self, ty: str, d: int) -> T.List[Tok]:
        r = self.r
        n = r.choice([1, 2, 3])
        arr = [S('lbracket')]
        for i in range(n):
            if i:
                arr.append(S('comma'))
            arr += self.atom(ty)
        arr.append(S('rbracket'))
        ix = r.choice([0, 0, 1, 2, -1, -2, 3, -4])
        ixt = [num(ix)] if ix >= 0 else [S('dash'), num(-ix)]
        if r.random() < 0.3:
            return self.method(arr, 'get', [ixt] + ([self.atom(ty)] if r.random() < 0.5 else []), atom=True)
        return arr + [S('lbracket')] + ixt + [S('rbracket')]

    def e_bool(self, d: int) -> T.List[Tok]:
        r = self.r
        c = r.random()
        if c < 0.2:
            return self.binop('int', ['lt', 'le', 'gt', 'ge', 'equal', 'nequal'], 'int', d)
        if c < 0.3:
            return self.binop('str', ['equal', 'nequal', 'lt', 'ge'], 'str', d)
        if c < 0.36:
            t = r.choice(['arr', 'dict', 'bool'])
            return self.binop(t, ['equal', 'nequal'], t, d)
        if c < 0.5:
            return self.binop('bool', ['and', 'or'], 'bool', d)
        if c < 0.58:
            return [S('not')] + self.wrap(self.expr('bool', d))
        if c < 0.7:
            op = [S('in')] if r.random() < 0.6 else [S('not'), S('in')]
            which = r.random()
            if which < 0.5:
                return self.wrap(self.expr(r.choice(['int', 'str']), d)) + op + self.wrap(self.expr('arr', d))
            if which < 0.75:
                return self.wrap(self.expr('str', d)) + op + self.wrap(self.expr('dict', d))
            return self.wrap(self.expr('str', d)) + op + self.wrap(self.expr('str', d))
        if c < 0.8:
            m = r.choice(['contains', 'startswith', 'endswith'])
            return self.method(self.expr('str', d), m, [self.expr('str', d)])
        if c < 0.85:
            return self.method(self.expr('arr', d), 'contains', [self.expr(r.choice(['int', 'str']), d)])
        if c < 0.9:
            return self.method(self.expr('dict', d), 'has_key', [self.expr('str', d)])
        if c < 0.94:
            return self.method(self.expr('int', d), r.choice(['is_even', 'is_odd']), [])
        if c < 0.97:
            return self.call('is_variable', [self.strlit(r.choice(self.names + ['nope']))])
        return self.ternary('bool', d)

    def e_str(self, d: int) -> T.List[Tok]:
        r = self.r
        if self.subst and r.random() < self.subst:
            return self.fstring_multi() if r.random() < 0.55 else self.format_multi(d)
        c = r.random()
        if c < 0.2:
            return self.binop('str', ['plus'], 'str', d)
        if c < 0.3:
            m = r.choice(['to_upper', 'to_lower', 'strip', 'underscorify'])
            args = [self.strlit(r.choice(['a', 'xy', ' ', 'ab']))] if m == 'strip' and r.random() < 0.4 else []
            return self.method(self.expr('str', d), m, args)
        if c < 0.38:
            e = self.method(self.expr('int', d), 'to_string', [])
            if r.random() < 0.4:
                e = e[:-1] + [ident('fill'), S('colon'), num(r.choice([0, 1, 3, 5]))] + [S('rparen')]
            return e
        if c < 0.48:
            fmt = r.choice(['@0@', '@0@-@1@', 'x@0@y@0@', '@1@@0@', 'no placeholders', '@0', '@a@', '@@0@@', '@2@'])
            n = 3 if fmt == '@2@' and r.random() < 0.9 else r.choice([2, 2, 2, 1, 0])
            args = [self.expr(r.choice(['int', 'str', 'bool']), d) for _ in range(n)]
            return self.method(self.strlit(fmt), 'format', args, atom=True)
        if c < 0.58:
            names = [n for n, t in self.vars.items() if t in ('int', 'str', 'bool')]
            if names:
                body = r.choice(['@%s@', 'v=@%s@.', '@%s@@%s@'])
                body = body.replace('%s', r.choice(names))
                if r.random() < 0.1:
                    body += '@nope@'
                return [string(body, r.choice(['fs', 'fs', 'mfs']))]
            return self.strlit()
        if c < 0.66:
            e = self.expr('str', d)
            ix = r.choice([0, 1, -1, 5])
            return self.wrap(e) + [S('lbracket')] + ([num(ix)] if ix >= 0 else [S('dash'), num(-ix)]) + [S('rbracket')]
        if c < 0.74:
            parts = [S('lbracket')]
            for i in range(r.choice([0, 1, 2, 3])):
                if i:
                    parts.append(S('comma'))
                parts += self.atom('str')
            parts.append(S('rbracket'))
            return self.method(self.strlit(r.choice([',', '', ' - ', '/'])), 'join', [parts], atom=True)
        if c < 0.8:
            return self.method(self.expr('str', d), 'replace', [self.strlit(r.choice(['a', 'b', 'ab', ' '])), self.strlit(r.choice(['', 'X', 'aa']))])
        if c < 0.86:
            def ival() -> T.List[Tok]:
                v = r.choice([0, 1, 2, 3, -1, -2, 10, -10])
                return [num(v)] if v >= 0 else [S('dash'), num(-v)]
            return self.method(self.expr('str', d), 'substring', [ival() for _ in range(r.choice([0, 1, 2, 2]))])
        if c < 0.9:
            return self.binop('str', ['fslash'], 'str', d)
        if c < 0.94:
            args = [] if r.random() < 0.5 else [self.strlit(r.choice(['yes', 'Y', ''])), self.strlit(r.choice(['no', 'N', '']))]
            return self.method(self.expr('bool', d), 'to_string', args)
        if c < 0.97:
            return self.call('get_variable', [self.strlit(r.choice(self.names)), self.strlit('fallback')])
        return self.ternary('str', d)

    LINE_BODIES = ['', 'one', 'a\\nb', 'a\\nb\\n', 'a\\r\\nb', 'a\\rb\\n\\nc', '\\n', '\\n\\r\\n\\r', ' x \\n\\ty ', 'a\\n\\n', '\\r\\n', 'a b\\r']

    def signed(self, n: int) -> T.List[Tok]:
        return [num(n)] if n >= 0 else [S('dash'), num(-n)]

    def nested_arr(self, depth: int = 0) -> T.List[Tok]:
        r = self.r
        out = [S('lbracket')]
        for i in range(r.choice([0, 1, 2, 3])):
            if i:
                out.append(S('comma'))
            if depth < 3 and r.random() < 0.4:
                out += self.nested_arr(depth + 1)
            else:
                out += self.atom(r.choice(['int', 'str', 'bool', 'arr', 'dict']))
        return out + [S('rbracket')]

    def new_method(self, d: int) -> T.List[Tok]:
        """array.flatten(), array.slice(), dict.values(), str.splitlines() (all array-valued)"""
        r = self.r
        c = r.random()
        if c < 0.25:
            return self.method(self.nested_arr() if r.random() < 0.6 else self.expr('arr', d), 'flatten', [] if r.random() < 0.97 else [self.atom('int')])
        if c < 0.65:
            obj = self.expr('arr', d) if r.random() < 0.5 else self.nested_arr(2)
            k = r.random()
            args = [] if k < 0.3 else [self.signed(r.choice([-5, -3, -2, -1, 0, 0, 1, 2, 3, 5, 40])) for _ in range(2 if k < 0.96 else r.choice([1, 3]))]
            if r.random() < 0.03 and args:
                args[0] = self.atom('str')
            e = self.method(obj, 'slice', args)
            if r.random() < 0.45:
                # explicit bounds with a negative step are outside the reference; mostly avoided so that programs run on
                st = r.choice([1, 2, 3, 2, 3, 0] if args and r.random() < 0.9 else [-1, -2, -3, 1, 2, 0])
                kw = [ident('step' if r.random() < 0.98 else 'stride'), S('colon')] + self.signed(st)
                e = e[:-1] + ([S('comma')] if e[-2]['t'] != 'lparen' and e[-2]['t'] != 'comma' else []) + kw + [S('rparen')]
            return e
        if c < 0.85:
            return self.method(self.expr('dict', d), 'values', [])
        if r.random() < 0.7:
            return self.method(self.strlit(r.choice(self.LINE_BODIES)), 'splitlines', [], atom=True)
        return self.method(self.expr('str', d), 'splitlines', [])

    def e_arr(self, d: int) -> T.List[Tok]:
        r = self.r
        if self.newmeth and r.random() < self.newmeth:
            return self.new_method(d)
        c = r.random()
        if c < 0.35:
            return self.binop('arr', ['plus'], r.choice(['arr', 'arr', 'int', 'str']), d)
        if c < 0.55:
            return self.method(self.strlit(r.choice(['a,b,c', 'a b  c', ' x ', '', 'abc'])), 'split',
                               [] if r.random() < 0.3 else [self.strlit(r.choice([',', ' ', 'b', 'ab']))], atom=True)
        if c < 0.7:
            return self.method(self.expr('dict', d), 'keys', [])
        if c < 0.8:
            return self.ternary('arr', d)
        return self.atom('arr')

    def e_dict(self, d: int) -> T.List[Tok]:
        r = self.r
        if r.random() < 0.5:
            return self.binop('dict', ['plus'], 'dict', d)
        return self.atom('dict')

    # -- statements
    def scoped_block(self, depth: int, n: int) -> T.List[Tok]:
        """a block that may not run: names (or types) it introduces are not relied upon afterwards"""
        snap = dict(self.vars)
        out = self.block(depth, n)
        self.vars = {k: t for k, t in snap.items() if self.vars.get(k) == t}
        return out

    def block(self, depth: int, n: int) -> T.List[Tok]:
        out: T.List[Tok] = []
        for _ in range(n):
            out += self.stmt(depth)
            out.append(S('eol'))
            if self.r.random() < 0.1:
                out.append(S('eol'))
        return out

    def stmt(self, depth: int) -> T.List[Tok]:
        r = self.r
        if self.subst and r.random() < self.subst * 0.4:
            return self.subst_cluster()
        c = r.random()
        if c < 0.45 or depth >= 3:
            ty = r.choice(TYPES)
            name = r.choice(self.names)
            e = self.expr(ty)
            self.vars[name] = ty
            return [ident(name), S('assign')] + e
        if c < 0.6:
            cands = [(n, t) for n, t in self.vars.items() if t in ('int', 'str', 'arr', 'dict')]
            if not cands:
                return self.stmt(depth)
            name, ty = r.choice(cands)
            if ty == 'arr':
                e = self.expr(r.choice(['arr', 'int', 'str']))
            else:
                e = self.expr(ty)
            return [ident(name), S('plusassign')] + e
        if c < 0.65:
            # aliasing: b = a ; mutate-looking operation through b
            cands = [(n, t) for n, t in self.vars.items() if t in ('arr', 'dict', 'str')]
            if not cands:
                return self.stmt(depth)
            name, ty = r.choice(cands)
            alias = r.choice([n for n in self.names if n != name])
            self.vars[alias] = ty
            return [ident(alias), S('assign'), ident(name), S('eol'), ident(alias), S('plusassign')] + self.atom(ty)
        if c < 0.78:
            out = [S('if')] + self.expr('bool') + [S('eol')] + self.scoped_block(depth + 1, r.choice([1, 2]))
            for _ in range(r.choice([0, 0, 1])):
                out += [S('elif')] + self.expr('bool') + [S('eol')] + self.scoped_block(depth + 1, 1)
            if r.random() < 0.5:
                out += [S('else'), S('eol')] + self.scoped_block(depth + 1, r.choice([1, 2]))
            return out + [S('endif')]
        if c < 0.9:
            kind = r.random()
            self.loop_depth += 1
            snap = dict(self.vars)
            if kind < 0.5:
                v = r.choice(['i', 'v', 'x'])
                head = [S('foreach'), ident(v), S('colon')] + self.expr('arr')
                self.vars[v] = r.choice(['int', 'str'])
            elif kind < 0.75:
                head = [S('foreach'), ident('k'), S('comma'), ident('v'), S('colon')] + self.expr('dict')
                self.vars['k'] = 'str'
                self.vars['v'] = 'int'
            else:
                na = r.choice([1, 1, 2, 3])
                lo = r.choice([0, 1, 2])
                args = [[num(r.choice([0, 1, 2, 3, 4]))]] if na == 1 else [[num(lo)], [num(lo + r.choice([0, 1, 2, 3]))]]
                if na == 3:
                    args.append([num(r.choice([1, 2]))])
                if r.random() < 0.03:
                    args = [[num(3)], [num(1)]]
                head = [S('foreach'), ident('i'), S('colon')] + self.call('range', args)
                self.vars['i'] = 'int'
            if r.random() < 0.01:
                head = head[:1] + [ident('k'), S('comma')] + head[1:]     # wrong number of loop variables
            body = self.block(depth + 1, r.choice([1, 2, 3]))
            if r.random() < 0.35:
                body += [S('if')] + self.expr('bool') + [S('eol'), S(r.choice(['break', 'continue'])), S('eol'), S('endif'), S('eol')]
                body += self.block(depth + 1, 1)
            self.loop_depth -= 1
            self.vars = {k: t for k, t in snap.items() if self.vars.get(k) == t}
            return head + [S('eol')] + body + [S('endforeach')]
        if c < 0.94:
            name = r.choice(self.names)
            ty = r.choice(TYPES)
            e = self.expr(ty)
            self.vars[name] = ty
            return self.call('set_variable', [self.strlit(name), e])
        if c < 0.96:
            if self.vars:
                name = r.choice(list(self.vars))
                del self.vars[name]
                return self.call('unset_variable', [self.strlit(name)])
            return self.call('message', [self.strlit('nothing to unset')])
        if c < 0.98:
            return self.call('message', [self.expr(r.choice(['str', 'int', 'bool']))])
        if c < 0.983 and self.loop_depth == 0:
            return [S(r.choice(['break', 'continue']))]
        return self.expr(r.choice(TYPES))


def program(rnd: random.Random, nstmts: T.Optional[int] = None, err_rate: T.Optional[float] = None, subst: float = 0.0,
            newmeth: float = 0.0) -> T.List[Tok]:
    g = Gen(rnd, err_rate if err_rate is not None else rnd.choice([0.0, 0.0, 0.02, 0.05, 0.12]), subst=subst, newmeth=newmeth)
    n = nstmts if nstmts is not None else rnd.randint(2, 9)
    return g.block(0, n)


# ---------------------------------------------------------------------------
# build-file flavoured statements (for the formatter / rewriter checks: parseable, not necessarily evaluable)

FILES = ['a.c', 'b.c', 'main.c', 'src/x.c', 'src/y.c', 'lib/util.c', 'z10.c', 'z9.c', 'Z.c', 'dir/sub/file.cpp', "we'ird.c".replace("'", '')]
FUNCS = ['executable', 'library', 'static_library', 'custom_target', 'dependency', 'configure_file', 'test', 'message']
KWS = ['sources', 'dependencies', 'install', 'include_directories', 'c_args', 'link_with', 'version', 'required', 'output', 'command']


class BuildGen(Gen):
    def value(self, d: int = 0) -> T.List[Tok]:
        r = self.r
        c = r.random()
        if d > 2 or c < 0.35:
            return self.strlit(r.choice(FILES + ['-DFOO=1', 'name', '1.2.3', '@INPUT@', "it\\'s", 'a\\\\b'])) if r.random() < 0.8 else self.atom(r.choice(TYPES))
        if c < 0.5:
            out = [S('lbracket')]
            for i in range(r.choice([0, 1, 2, 3, 5, 8])):
                if i:
                    out.append(S('comma'))
                out += self.value(d + 1)
            if len(out) > 1 and r.random() < 0.4:
                out.append(S('comma'))
            return out + [S('rbracket')]
        if c < 0.6:
            return self.files_call()
        if c < 0.7:
            return self.fcall(d + 1)
        if c < 0.78:
            return [ident(r.choice(['meson', 'cc', 'dep', 'conf'])), S('dot')] + self.call(r.choice(['get_compiler', 'found', 'version', 'get_variable', 'set']), [self.value(d + 1) for _ in range(r.choice([0, 1, 2]))])
        if c < 0.86:
            return self.expr(r.choice(['bool', 'int', 'str']), 2)
        if c < 0.93:
            return self.atom('dict')
        return [ident(r.choice(['src', 'deps', 'inc', 'x']))]

    def files_call(self) -> T.List[Tok]:
        r = self.r
        n = r.choice([0, 1, 2, 3, 4, 6])
        names = [r.choice(FILES) for _ in range(n)]
        items: T.List[Tok] = []
        for i, nm in enumerate(names):
            if i:
                items.append(S('comma'))
            items += [string(nm, r.choice(['s', 's', 's', 'ms']))] if r.random() < 0.95 else [ident('x')]
        if items and r.random() < 0.3:
            items.append(S('comma'))
        if r.random() < 0.4:
            items = [S('lbracket')] + items + [S('rbracket')]
        return [ident('files'), S('lparen')] + items + [S('rparen')]

    def fcall(self, d: int = 0) -> T.List[Tok]:
        r = self.r
        out = [ident(r.choice(FUNCS)), S('lparen')]
        parts: T.List[T.List[Tok]] = [self.value(d + 1) for _ in range(r.choice([0, 1, 1, 2, 4]))]
        for kw in r.sample(KWS, r.choice([0, 0, 1, 2, 4])):
            parts.append([ident(kw), S('colon')] + self.value(d + 1))
        for i, p in enumerate(parts):
            if i:
                out.append(S('comma'))
            out += p
        if parts and r.random() < 0.3:
            out.append(S('comma'))
        return out + [S('rparen')]

    def stmt(self, depth: int) -> T.List[Tok]:
        r = self.r
        c = r.random()
        if c < 0.3:
            return self.fcall()
        if c < 0.5:
            name = r.choice(['src', 'deps', 'exe', 'lib', 'x'])
            return [ident(name), S(r.choice(['assign', 'assign', 'plusassign']))] + self.value()
        return super().stmt(depth)


def build_program(rnd: random.Random, nstmts: T.Optional[int] = None) -> T.List[Tok]:
    g = BuildGen(rnd, 0.0)
    n = nstmts if nstmts is not None else rnd.randint(1, 8)
    return g.block(0, n)


def decorate_nested(tokens: T.List[Tok], rnd: random.Random, rate: float = 0.3, anywhere: float = 0.04) -> T.List[Tok]:
    """Insert newlines inside brackets: legal layout trivia.  Mostly after openers and commas and before closers, and with
    a small probability between any two tokens (a newline inside brackets is plain whitespace wherever it stands)."""
    out: T.List[Tok] = []
    depth = 0
    for i, t in enumerate(tokens):
        k = t['t']
        if k in ('rparen', 'rbracket', 'rcurl'):
            if depth > 0 and rnd.random() < rate:
                out.append(S('eol'))
            depth -= 1
        elif depth > 0 and out and out[-1]['t'] != 'eol' and (
                rnd.random() < anywhere or (k == 'in' and out[-1]['t'] == 'not' and rnd.random() < 0.5)):
            # (the gap inside `not in` is stored in the operator token itself by the parser: a sensitive spot)
            out.append(S('eol'))
        out.append(t)
        if k in ('lparen', 'lbracket', 'lcurl'):
            depth += 1
            if rnd.random() < rate:
                out.append(S('eol'))
        elif k == 'comma' and depth > 0 and rnd.random() < rate * 1.5:
            out.append(S('eol'))
            if rnd.random() < 0.2:
                out.append(S('eol'))
    return out


# ---------------------------------------------------------------------------
# programs spread over sub-directories and subprojects (C01: subdir() / subproject())

def tree_program(rnd: random.Random) -> T.Tuple[T.List[Tok], T.Dict[str, T.List[Tok]], T.Dict[str, T.List[Tok]]]:
    """returns (main tokens, {subdir path: tokens}, {subproject name: tokens})"""
    g = Gen(rnd, rnd.choice([0.0, 0.0, 0.0, 0.02]))
    files: T.Dict[str, T.List[Tok]] = {}
    subs: T.Dict[str, T.List[Tok]] = {}
    main: T.List[Tok] = g.block(0, rnd.randint(1, 2))
    dirs = rnd.sample(['d1', 'd2', 'lib', 'src_x'], rnd.choice([0, 1, 1, 2]))
    for d in dirs:
        # the included file sees and changes the includer's variables
        body = g.block(0, rnd.randint(1, 2))
        if rnd.random() < 0.4:
            inner = rnd.choice(['e', 'inner'])
            g2body = g.block(0, rnd.randint(1, 2))
            files[d + '/' + inner] = g2body
            body += g.call('subdir', [g.strlit(inner)]) + [S('eol')]
            body += g.block(0, 1)
        files[d] = body
        call = g.call('subdir', [g.strlit(d)])
        if rnd.random() < 0.25:
            main += [S('if')] + g.expr('bool') + [S('eol')] + call + [S('eol'), S('endif'), S('eol')]
            g.vars = {}                               # whatever the file defines may not exist afterwards
        else:
            main += call + [S('eol')]
        main += g.block(0, rnd.randint(0, 2))
    if rnd.random() < 0.08:
        main += g.call('subdir', [g.strlit('no_such_dir')]) + [S('eol')]
    for name in rnd.sample(['sp1', 'sp2'], rnd.choice([0, 1, 1, 2])):
        sg = Gen(rnd, rnd.choice([0.0, 0.0, 0.0, 0.05]))
        sbody = sg.block(0, rnd.randint(1, 3))
        if rnd.random() < 0.1 and g.vars:
            sbody += [ident('leak'), S('assign'), ident(rnd.choice(list(g.vars))), S('eol')]   # parent variables are not visible
        subs[name] = sbody
        handle = rnd.choice(['sp', 'proj', 'h'])
        main += [ident(handle), S('assign')] + g.call('subproject', [g.strlit(name)]) + [S('eol')]
        for _ in range(rnd.randint(1, 3)):
            target = rnd.choice(g.names)
            cand = list(sg.vars) or ['nope']
            wanted = rnd.choice(cand) if rnd.random() < 0.85 else 'nope'
            args = [g.strlit(wanted)]
            if rnd.random() < 0.3:
                args.append(g.atom(rnd.choice(['int', 'str'])))
            main += [ident(target), S('assign'), ident(handle), S('dot')] + g.call('get_variable', args) + [S('eol')]
            g.vars.pop(target, None)
            # the subproject's names are not names of the parent
            if rnd.random() < 0.5:
                main += [ident('seen'), S('assign')] + g.call('is_variable', [g.strlit(wanted)]) + [S('eol')]
                g.vars['seen'] = 'bool'
    if rnd.random() < 0.05:
        main += [ident('h'), S('assign')] + g.call('subproject', [g.strlit('missing_sp')]) + [S('eol')]
    main += g.block(0, rnd.randint(0, 2))
    return main, files, subs
