"""Character level of C02: the real Lexer against specs/lang/MesonLexer.tla."""
from __future__ import annotations

import json
import random
import typing as T
from concurrent.futures import ProcessPoolExecutor

from . import common, lang_driver as ld
from .common import Check, MachineryError, SPECS, run_tlc, scratch

LEX_CFG = '''SPECIFICATION Spec
CONSTANTS MaxLen = %d
INVARIANT Total
INVARIANT Tiles
INVARIANT RejectLocated
INVARIANT QuoteFree
INVARIANT DoubleQuoteRejects
CHECK_DEADLOCK FALSE
POSTCONDITION EmitAlphabet
'''

BS = chr(92)
NL = chr(10)
FRAGS = ["'", "'''", 'f', "f'", BS, NL, ' ', chr(9), '#', '(', ')', '[', ']', '{', '}', 'a', 'if', 'not', '0', '0x', '0b1', '0o8',
         '12', '+=', '==', '!=', '<=', '>', '!', '"', '.', ',', ':', '?', BS + NL, BS + "'", 'é', '@', '$', '_x1', '-', '*', '/', '%']


def lex_observe(text: str, mp: T.Any, ml: T.Any) -> T.Dict[str, T.Any]:
    cps = [ord(c) for c in text]
    try:
        toks = [[t.tid if t.tid not in ld.KEYWORDS else 'id', t.bytespan[0] + 1, t.bytespan[1]] for t in mp.Lexer(text).lex('x')]
        return {'s': cps, 'acc': True, 'toks': toks, 'pos': 0}
    except ml.MesonException as e:
        ls = ld.line_starts(text)
        ln, col = getattr(e, 'lineno', 0), getattr(e, 'colno', 0)
        pos = (ls[ln - 1] + col + 1) if isinstance(ln, int) and 1 <= ln <= len(ls) else -1
        return {'s': cps, 'acc': False, 'toks': [], 'pos': pos}
    except Exception as e:  # noqa: BLE001
        return {'s': cps, 'acc': False, 'toks': [], 'pos': -2, 'exc': type(e).__name__}


def _worker_lex(args: T.Tuple[T.List[int], int, int, int, int, int]) -> T.List[T.Dict[str, T.Any]]:
    alphabet, n, lo, hi, sd, nrand = args
    mp, pr, ml = ld.load_modules()
    out = []
    k = len(alphabet)
    if nrand == 0:
        for code in range(lo, hi):
            cs = []
            c = code
            for _ in range(n):
                cs.append(alphabet[c % k])
                c //= k
            o = lex_observe(''.join(chr(x) for x in cs), mp, ml)
            o['id'] = f'L{n}:{code}'
            out.append(o)
    else:
        for j in range(lo, hi):
            rnd = random.Random(sd * 7654321 + j)
            text = ''.join(rnd.choice(FRAGS) for _ in range(rnd.randint(0, 14)))
            o = lex_observe(text, mp, ml)
            o['id'] = f'LR:{j}'
            out.append(o)
    return out


def judge_lexer(chk: Check, cases: T.List[T.Dict[str, T.Any]], label: str) -> None:
    by_id = {c['id']: c for c in cases}
    for c in cases:
        if c.get('exc'):
            chk.violation(f"InternalError@lexer:{c['exc']}:{''.join(chr(x) for x in c['s'])[:60]!r}", c)
    cases = [c for c in cases if not c.get('exc')]
    for part_no, part in enumerate(common.size_chunks(cases, 300000, lambda c: {k: c[k] for k in ('id', 's', 'acc', 'toks', 'pos')})):
        with scratch('lex-') as d:
            tf = d / 'cases.json'
            tf.write_text(json.dumps([{k: c[k] for k in ('id', 's', 'acc', 'toks', 'pos')} for c in part]))
            env = {'TRACE_FILE': str(tf)}
            res = run_tlc(SPECS / 'lang', 'TraceLexer', env=env, timeout=3600, heap='8g')
            if not res.clean:
                raise MachineryError('TraceLexer did not complete cleanly:\n' + res.stdout[-2000:])
            if res.distinct != 2 * len(part):
                raise MachineryError(f'TraceLexer judged {res.distinct // 2} of {len(part)} cases')
            bad = res.json_lines()
            if bad:
                bad = run_tlc(SPECS / 'lang', 'TraceLexer', env=env, timeout=3600, workers=1, heap='8g').json_lines()
        chk.add_tlc(f'TraceLexer[{label}#{part_no}]', res, model=False)
        chk.traces += len(part)
        for v in bad:
            c = by_id.get(v['id'], {})
            text = ''.join(chr(x) for x in c.get('s', []))
            chk.violation(f"Lexer{v['clause']}@{text[:60]!r}",
                          {'verdict': v, 'text': text, 'observed': {k: c.get(k) for k in ('acc', 'toks', 'pos')}})


def run_lexer_level(chk: Check, ex: ProcessPoolExecutor, nmc: int, nimpl: int, nrand: int) -> None:
    res = run_tlc(SPECS / 'lang', 'MesonLexer_MC', cfg_text=LEX_CFG % nmc, collect=['alphabet.json'], timeout=3600, heap='8g',
                  allow_violation=False)
    chk.add_tlc(f'MesonLexer_MC[MaxLen={nmc}]', res)
    alphabet = json.loads(res.collected['alphabet.json'])
    k = len(alphabet)
    cases: T.List[T.Dict[str, T.Any]] = []
    for n in range(0, nimpl + 1):
        total = k ** n
        step = max(1, min(40000, total // (common.NCPU * 2) + 1))
        for part in ex.map(_worker_lex, [(alphabet, n, lo, min(total, lo + step), chk.seed, 0) for lo in range(0, total, step)]):
            cases.extend(part)
    step = max(1, nrand // (common.NCPU * 2))
    for part in ex.map(_worker_lex, [(alphabet, 0, lo, min(nrand, lo + step), chk.seed, 1) for lo in range(0, nrand, step)]):
        cases.extend(part)
    chk.evaluations += len(cases)
    chk.extra['lexer_cases'] = len(cases)
    judge_lexer(chk, cases, 'lexer')
