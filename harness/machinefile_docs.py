"""X01: the documentation's own machine-file examples, verbatim, with their abstract syntax (binding D).

Each case: name, doc (file below docs/markdown the text is taken from), texts (one per file, in command-line order)
and files (the same in the abstract syntax of MachineFile.tla).  Lines marked `# probe` in a text are not part of
the documentation: they make a constant observable through a section.  The harness checks that every other line
really occurs in the named document of the tree under test.
"""
from __future__ import annotations

import typing as T

from .machinefile_gen import a_arr, a_bool, a_id, a_int, a_str, entry

S, I, N, B = a_str, a_id, a_int, a_bool


def ex(*terms: T.Any) -> T.List[T.List[T.Dict[str, T.Any]]]:
    """ex(t1, t2, ..) = t1 + t2 + ..; a term is an atom or a list of atoms joined by `/`."""
    return [t if isinstance(t, list) else [t] for t in terms]


def sec(name: str, *entries: T.Dict[str, T.Any]) -> T.Dict[str, T.Any]:
    return {'name': name, 'entries': list(entries)}


DOC_CASES: T.List[T.Dict[str, T.Any]] = [
    {'name': 'constants-example', 'doc': 'Machine-files.md',
     'texts': ["[constants]\ntoolchain = '/toolchain'\ncommon_flags = ['--sysroot=' + toolchain / 'sysroot']\n\n"
               "[properties]\nc_args = common_flags + ['-DSOMETHING']\ncpp_args = c_args + ['-DSOMETHING_ELSE']\n\n"
               "[binaries]\nc = toolchain / 'gcc'\n"],
     'files': [[sec('constants', entry('toolchain', ex(S('/toolchain'))),
                    entry('common_flags', ex(a_arr([ex(S('--sysroot='), [I('toolchain'), S('sysroot')])])))),
                sec('properties', entry('c_args', ex(I('common_flags'), a_arr([ex(S('-DSOMETHING'))]))),
                    entry('cpp_args', ex(I('c_args'), a_arr([ex(S('-DSOMETHING_ELSE'))])))),
                sec('binaries', entry('c', ex([I('toolchain'), S('gcc')])))]]},
    {'name': 'composition-aarch64', 'doc': 'Machine-files.md',
     'texts': ["# aarch64.ini\n[constants]\narch = 'aarch64-linux-gnu'\n",
               "# cross.ini\n[binaries]\nc = arch + '-gcc'\ncpp = arch + '-g++'\nstrip = arch + '-strip'\npkg-config = arch + '-pkg-config'\n"],
     'files': [[sec('constants', entry('arch', ex(S('aarch64-linux-gnu'))))],
               [sec('binaries', entry('c', ex(I('arch'), S('-gcc'))), entry('cpp', ex(I('arch'), S('-g++'))),
                    entry('strip', ex(I('arch'), S('-strip'))), entry('pkg-config', ex(I('arch'), S('-pkg-config'))))]]},
    {'name': 'composition-before-values', 'doc': 'Machine-files.md',
     'texts': ["# file1.ini:\n[constants]\na = 'Foo'\nb = a + 'World'\n", "#file2.ini:\n[constants]\na = 'Hello'\n",
               "[properties]\nprobe = b  # probe\n"],
     'files': [[sec('constants', entry('a', ex(S('Foo'))), entry('b', ex(I('a'), S('World'))))],
               [sec('constants', entry('a', ex(S('Hello'))))],
               [sec('properties', entry('probe', ex(I('b'))))]]},
    {'name': 'defined-before-use-error', 'doc': 'Machine-files.md',
     'texts': ["# file1.ini:\n[constants]\nb = a + 'World'\n", "#file2.ini:\n[constants]\na = 'Hello'\n"],
     'files': [[sec('constants', entry('b', ex(I('a'), S('World'))))], [sec('constants', entry('a', ex(S('Hello'))))]]},
    {'name': 'defined-before-use-other-order', 'doc': 'Machine-files.md',
     'texts': ["#file2.ini:\n[constants]\na = 'Hello'\n", "# file1.ini:\n[constants]\nb = a + 'World'\n", "[properties]\nprobe = b  # probe\n"],
     'files': [[sec('constants', entry('a', ex(S('Hello'))))], [sec('constants', entry('b', ex(I('a'), S('World'))))],
               [sec('properties', entry('probe', ex(I('b'))))]]},
    {'name': 'dirname-tokens', 'doc': 'Machine-files.md',
     'texts': ["[binaries]\nc = '@DIRNAME@/toolchain/gcc'\nexe_wrapper = '@GLOBAL_SOURCE_ROOT@' / 'build-aux' / 'my-exe-wrapper.sh'\n"],
     'files': [[sec('binaries', entry('c', ex(S('@DIRNAME@/toolchain/gcc'))),
                    entry('exe_wrapper', ex([S('@GLOBAL_SOURCE_ROOT@'), S('build-aux'), S('my-exe-wrapper.sh')])))]]},
    {'name': 'binaries-native', 'doc': 'Machine-files.md',
     'texts': ["[binaries]  # probe\nc = '/usr/bin/clang'\nc_ld = 'lld'\nsed = 'C:\\\\program files\\\\gnu\\\\sed.exe'\n"
               "llvm-config = '/usr/lib/llvm8/bin/llvm-config'\n"],
     'files': [[sec('binaries', entry('c', ex(S('/usr/bin/clang'))), entry('c_ld', ex(S('lld'))),
                    entry('sed', ex(S('C:\\\\program files\\\\gnu\\\\sed.exe'))),
                    entry('llvm-config', ex(S('/usr/lib/llvm8/bin/llvm-config'))))]]},
    {'name': 'binaries-cross', 'doc': 'Machine-files.md',
     'texts': ["[binaries]  # probe\nc = ['ccache', '/usr/bin/i586-mingw32msvc-gcc']\ncpp = ['ccache', '/usr/bin/i586-mingw32msvc-g++']\n"
               "c_ld = 'gold'\ncpp_ld = 'gold'\nar = '/usr/i586-mingw32msvc/bin/ar'\nstrip = '/usr/i586-mingw32msvc/bin/strip'\n"
               "pkg-config = '/usr/bin/i586-mingw32msvc-pkg-config'\n"],
     'files': [[sec('binaries', entry('c', ex(a_arr([ex(S('ccache')), ex(S('/usr/bin/i586-mingw32msvc-gcc'))]))),
                    entry('cpp', ex(a_arr([ex(S('ccache')), ex(S('/usr/bin/i586-mingw32msvc-g++'))]))),
                    entry('c_ld', ex(S('gold'))), entry('cpp_ld', ex(S('gold'))), entry('ar', ex(S('/usr/i586-mingw32msvc/bin/ar'))),
                    entry('strip', ex(S('/usr/i586-mingw32msvc/bin/strip'))),
                    entry('pkg-config', ex(S('/usr/bin/i586-mingw32msvc-pkg-config'))))]]},
    {'name': 'cmake-variables', 'doc': 'Machine-files.md',
     'texts': ["[cmake]\n\nCMAKE_C_COMPILER    = '/usr/bin/gcc'\nCMAKE_CXX_COMPILER  = 'C:\\\\usr\\\\bin\\\\g++'\n"
               "CMAKE_SOME_VARIABLE = ['some', 'value with spaces']\n"],
     'files': [[sec('cmake', entry('CMAKE_C_COMPILER', ex(S('/usr/bin/gcc'))), entry('CMAKE_CXX_COMPILER', ex(S('C:\\\\usr\\\\bin\\\\g++'))),
                    entry('CMAKE_SOME_VARIABLE', ex(a_arr([ex(S('some')), ex(S('value with spaces'))]))))]]},
    {'name': 'data-types-and-options', 'doc': 'Machine-files.md',
     'texts': ["[section]\noption1 = 'false'\noption2 = '2'\n", "[section]\noption = ['value']\n", "[section]  # probe\noption = false\n",
               "[section]  # probe\noption = 42\n",
               "[project options]\nbuild-tests = true\n\n[zlib:project options]\nbuild-tests = false\n",
               "[built-in options]\nc_std = 'c99'\n", "[zlib:built-in options]\ndefault_library = 'static'\nwerror = false\n",
               "[paths]\nlibdir = 'mylibdir'\nprefix = '/my prefix'\n"],
     'files': [[sec('section', entry('option1', ex(S('false'))), entry('option2', ex(S('2'))))],
               [sec('section', entry('option', ex(a_arr([ex(S('value'))]))))],
               [sec('section', entry('option', ex(B(False))))],
               [sec('section', entry('option', ex(N(42))))],
               [sec('project options', entry('build-tests', ex(B(True)))), sec('zlib:project options', entry('build-tests', ex(B(False))))],
               [sec('built-in options', entry('c_std', ex(S('c99'))))],
               [sec('zlib:built-in options', entry('default_library', ex(S('static'))), entry('werror', ex(B(False))))],
               [sec('paths', entry('libdir', ex(S('mylibdir'))), entry('prefix', ex(S('/my prefix'))))]]},
    {'name': 'home-constant', 'doc': 'Release-notes-for-1.11.0.md',
     'texts': ["[constants]\ntoolchain = ~ / 'Android/sdk/ndk/27.1.12297006/toolchains/llvm/prebuilt/linux-x86_64'\n\n"
               "[binaries]\nc = toolchain / 'bin/clang'\ncpp = toolchain / 'bin/clang++'\nar = toolchain / 'bin/llvm-ar'\n"],
     'files': [[sec('constants', entry('toolchain', ex([I('~'), S('Android/sdk/ndk/27.1.12297006/toolchains/llvm/prebuilt/linux-x86_64')]))),
                sec('binaries', entry('c', ex([I('toolchain'), S('bin/clang')])), entry('cpp', ex([I('toolchain'), S('bin/clang++')])),
                    entry('ar', ex([I('toolchain'), S('bin/llvm-ar')])))]]},
    {'name': 'trailing-comment', 'doc': 'Cross-compilation.md',
     'texts': ["[binaries]\nexe_wrapper = 'wine' # A command used to run generated executables.\n"],
     'files': [[sec('binaries', entry('exe_wrapper', ex(S('wine'))))]]},
]


def missing_lines(case: T.Dict[str, T.Any], doc_text: str) -> T.List[str]:
    """Lines of the example that are not in the document (probe lines excepted)."""
    have = {ln.strip() for ln in doc_text.splitlines()}
    out = []
    for t in case['texts']:
        for ln in t.splitlines():
            ln = ln.strip()
            if ln and not ln.endswith('# probe') and ln not in have:
                out.append(ln)
    return out
