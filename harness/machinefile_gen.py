"""X01 helpers: abstract machine files -> text, random abstract file lists, projection of real results.

Nothing here decides what a file list *means*; that is specs/machinefile/MachineFile.tla evaluated by TLC.
This module only (a) renders the abstract syntax of the specification to the concrete INI-like text,
(b) generates abstract file lists, (c) projects what the real code returned to the value records of the spec.
"""
from __future__ import annotations

import random
import typing as T

Atom = T.Dict[str, T.Any]
Expr = T.List[T.List[Atom]]


# ---------------------------------------------------------------------------
# abstract syntax constructors (same record shapes as MachineFile.tla)

def atom(k: str, s: str = '', n: int = 0, items: T.Optional[T.List[Expr]] = None) -> Atom:
    return {'k': k, 's': s, 'n': n, 'items': items or []}


def a_str(s: str) -> Atom:
    return atom('str', s)


def a_int(n: int) -> Atom:
    return atom('int', '', n)


def a_bool(b: bool) -> Atom:
    return atom('bool', '', 1 if b else 0)


def a_id(s: str) -> Atom:
    return atom('id', s)


def a_arr(items: T.List[Expr]) -> Atom:
    return atom('arr', '', 0, items)


def a_bad(s: str) -> Atom:
    return atom('bad', s)


def e1(a: Atom) -> Expr:
    return [[a]]


def entry(key: str, e: Expr) -> T.Dict[str, T.Any]:
    return {'key': key, 'kind': 'val', 'e': e}


# ---------------------------------------------------------------------------
# rendering

#: one concrete spelling per unsupported construct ("bad" atom); none of them is one of the four data types,
#: an identifier, `+` or `/`
BAD_TEXT = {
    'call': "f('u')",
    'method': "'u'.strip()",
    'dict': "{'k': 'v'}",
    'cmp': "1 == 1",
    'not': "not true",
    'minus': "3 - 1",
    'mul': "2 * 3",
    'mod': "7 % 2",
    'ternary': "true ? 'x' : 'y'",
    'dquote': '"text"',
    'two': "'x' 'y'",
    'index': "['x'][0]",
    'and': "true and false",
    'unterminated': "'x",
}

NOEQ_LINES = ['this line has no equals sign', 'garbage', "'x'", 'key : value', 'c']


class Style:
    """Spelling choices.  plain: canonical single spaces.  odd: seeded odd spacing, comments, blank lines."""

    def __init__(self, rnd: T.Optional[random.Random] = None, odd: bool = False):
        self.rnd = rnd or random.Random(0)
        self.odd = odd

    def sp(self, canonical: str = ' ') -> str:
        if not self.odd:
            return canonical
        return self.rnd.choice(['', '', ' ', ' ', '  ', '\t', ' \t '])

    def comment(self) -> str:
        return self.rnd.choice(['# a comment', '#', "# key = 'value'", '#[section]', "#   indented = text ", '# ünïcode'])


def r_atom(a: Atom, st: Style) -> str:
    k = a['k']
    if k == 'str':
        return "'" + a['s'] + "'"
    if k == 'int':
        return str(a['n'])
    if k == 'bool':
        return 'true' if a['n'] else 'false'
    if k == 'id':
        return a['s']
    if k == 'arr':
        sep = ',' + st.sp()
        if st.odd:
            sep = st.sp('') + ',' + st.sp()
        return '[' + st.sp('') + sep.join(r_expr(e, st) for e in a['items']) + st.sp('') + ']'
    if k == 'bad':
        return BAD_TEXT[a['s']]
    raise ValueError(k)


def r_expr(e: Expr, st: Style) -> str:
    terms = []
    for term in e:
        terms.append((st.sp() + '/' + st.sp()).join(r_atom(a, st) for a in term))
    return (st.sp() + '+' + st.sp()).join(terms)


def render_file(sections: T.List[T.Dict[str, T.Any]], st: Style) -> str:
    out: T.List[str] = []
    if st.odd and st.rnd.random() < 0.3:
        out.append(st.comment())
    for sec in sections:
        if st.odd and st.rnd.random() < 0.3:
            out.append('')
        out.append('[' + sec['name'] + ']' + (st.rnd.choice(['', '', ' ', '  ']) if st.odd else ''))
        for en in sec['entries']:
            if st.odd and st.rnd.random() < 0.15:
                out.append(st.comment())
            if st.odd and st.rnd.random() < 0.1:
                out.append('')
            if en['kind'] == 'noeq':
                out.append(st.rnd.choice(NOEQ_LINES) if st.odd else NOEQ_LINES[0])
                continue
            if en['kind'] == 'empty':
                line = en['key'] + st.sp() + '=' + (st.rnd.choice(['', ' ', '  ']) if st.odd else '')
            else:
                line = en['key'] + st.sp() + '=' + st.sp() + r_expr(en['e'], st)
            if st.odd and st.rnd.random() < 0.15:
                # Cross-compilation.md: `exe_wrapper = 'wine' # A command used to run generated executables.`
                line += st.rnd.choice([' ', '  ', '\t']) + st.comment()
            out.append(line)
    eol = '\n'
    text = eol.join(out)
    if out and (not st.odd or st.rnd.random() < 0.85):
        text += eol
    return text


# ---------------------------------------------------------------------------
# projection of what the real parser returned

def pval(v: T.Any) -> T.Dict[str, T.Any]:
    if isinstance(v, bool):
        return {'t': 'bool', 's': '', 'n': int(v), 'a': []}
    if isinstance(v, int):
        if abs(v) >= 2 ** 31:
            return {'t': 'alien:bigint', 's': str(v), 'n': 0, 'a': []}
        return {'t': 'int', 's': '', 'n': v, 'a': []}
    if isinstance(v, str):
        return {'t': 'str', 's': v, 'n': 0, 'a': []}
    if isinstance(v, (list, tuple)):
        return {'t': 'arr', 's': '', 'n': 0, 'a': [pval(x) for x in v]}
    return {'t': 'alien:' + type(v).__name__, 's': repr(v)[:80], 'n': 0, 'a': []}


def project_sections(res: T.Mapping[str, T.Mapping[str, T.Any]]) -> T.List[T.Dict[str, T.Any]]:
    out = []
    for sec, kv in res.items():
        if sec == 'constants':
            continue
        for k, v in kv.items():
            out.append({'sec': sec, 'key': k, 'v': pval(v)})
    return out


# ---------------------------------------------------------------------------
# decoding of the model's codes (for rendering only; TLC decodes on its own with MachineFileAlphabet!Decode)

def decode(code: T.Sequence[int], alphabet: T.Dict[str, T.Any]) -> T.List[T.List[T.Dict[str, T.Any]]]:
    files: T.List[T.List[T.Dict[str, T.Any]]] = []
    for t in code:
        if t == 0:
            files.append([])
        elif t < 1000:
            files[-1].append({'name': alphabet['secs'][t - 101], 'entries': []})
        else:
            fm = alphabet['forms'][t % 1000 - 1]
            key = '' if fm['kind'] == 'noeq' else alphabet['keys'][t // 1000 - 1]
            files[-1][-1]['entries'].append({'key': key, 'kind': fm['kind'], 'e': fm['e']})
    return files


# ---------------------------------------------------------------------------
# random abstract file lists (binding B)

CONST_NAMES = ['toolchain', 'arch', 'prefix', 'sysroot', 'common_flags', 'cc', 'level', 'enable', 'triple', 'x', 'y_2', '_z', 'Arch']
SECTION_KEYS = {
    'binaries': ['c', 'cpp', 'ar', 'strip', 'pkg-config', 'exe_wrapper', 'llvm-config', 'c_ld', 'cmake'],
    'properties': ['sys_root', 'needs_exe_wrapper', 'cmake_toolchain_file', 'java_home', 'bindgen_clang_arguments',
                   'sizeof_int', 'has_function_printf', 'skip_sanity_check', 'root', 'myprop', 'MyProp'],
    'built-in options': ['c_std', 'default_library', 'werror', 'unity_size', 'prefix', 'libdir', 'c_args', 'cpp_args',
                         'pkg_config_path', 'build.c_args'],
    'project options': ['build-tests', 'docs', 'level', 'Level'],
    'zlib:project options': ['build-tests', 'shared'],
    'zlib:built-in options': ['default_library', 'werror'],
    'host_machine': ['system', 'cpu_family', 'cpu', 'endian'],
    'paths': ['prefix', 'libdir', 'bindir'],
    'cmake': ['CMAKE_C_COMPILER', 'CMAKE_SOME_VARIABLE'],
}
SECTION_WEIGHTS = [('constants', 5), ('binaries', 4), ('properties', 4), ('built-in options', 3), ('project options', 1.5),
                   ('zlib:project options', 1), ('zlib:built-in options', 0.7), ('host_machine', 1), ('paths', 0.5), ('cmake', 0.5)]
STR_POOL = ['/toolchain', '/toolchain/', 'gcc', 'aarch64-linux-gnu', '-gcc', '--sysroot=', 'sysroot', 'bin', 'usr/lib',
            '/usr/bin/clang', '-DSOMETHING', '-DFOO=1', 'value with spaces', ' lead', 'trail ', 'a#b', 'not # a comment',
            'x=y', 'say "hi"', 'héllo wörld', '[x]', 'semi;colon', '%(interp)s', '$HOME', '~', 'true', '42', 'c99',
            'static', 'little', 'linux', 'x86_64', ',', '.', '..', 'a/b/c', '/', 'C:/tools', 'tab\there', '{brace}',
            '@DIRNAME@', '@DIRNAME@/bin', '@GLOBAL_SOURCE_ROOT@', '@GLOBAL_SOURCE_ROOT@/build-aux', '@@DIRNAME@@', '@DIRNAME',
            '@OTHER@', 'x@DIRNAME@y@DIRNAME@', '']
INT_POOL = [0, 1, 2, 7, 42, 100, 65536, 2000000000]
BAD_KINDS = sorted(BAD_TEXT)


def _is_ident(s: str) -> bool:
    return s.replace('_', 'a').isalnum() and not s[0].isdigit() and s.isascii()


class Gen:
    """Seeded generator of abstract file lists.  It aims at mostly loadable inputs with a steady share of every
    documented failure; it does not know the outcome (TLC decides)."""

    def __init__(self, rnd: random.Random):
        self.rnd = rnd
        # (section, name) -> intended type of the latest expression written for that name
        self.types: T.Dict[T.Tuple[str, str], str] = {}
        self.order: T.Dict[str, T.List[str]] = {}
        self.p_err = rnd.choice([0.0, 0.0, 0.01, 0.02, 0.04])

    # -- names visible (as far as the generator can tell) to an entry of section `sec`
    def visible(self, sec: str, typ: str) -> T.List[str]:
        out = [n for n in self.order.get(sec, []) if self.types.get((sec, n)) == typ and _is_ident(n)]
        if sec != 'constants':
            out += [n for n in self.order.get('constants', []) if self.types.get(('constants', n)) == typ]
        return out

    def lit_str(self) -> Atom:
        return a_str(self.rnd.choice(STR_POOL))

    def str_atom(self, sec: str) -> Atom:
        r = self.rnd.random()
        vis = self.visible(sec, 'str')
        if vis and r < 0.4:
            return a_id(self.rnd.choice(vis))
        if r < 0.43:
            return a_id('~')
        return self.lit_str()

    def str_expr(self, sec: str, small: bool = False) -> Expr:
        nterms = self.rnd.choice([1, 1, 1, 2] if small else [1, 1, 1, 2, 2, 3, 4])
        e: Expr = []
        for _ in range(nterms):
            natoms = self.rnd.choice([1, 1, 1, 2] if small else [1, 1, 1, 2, 2, 3])
            e.append([self.str_atom(sec) for _ in range(natoms)])
        return e

    def arr_lit(self, sec: str) -> Atom:
        n = self.rnd.choice([0, 1, 1, 2, 2, 3, 4])
        items: T.List[Expr] = []
        for _ in range(n):
            r = self.rnd.random()
            if r < 0.012:   # rare: every such array currently hits the known AssertionError and hides the rest of the case
                items.append(e1(a_bool(self.rnd.random() < 0.5)))
            else:
                items.append(self.str_expr(sec, small=True))
        return a_arr(items)

    def arr_expr(self, sec: str) -> Expr:
        nterms = self.rnd.choice([1, 1, 1, 2, 2, 3])
        e: Expr = []
        vis = self.visible(sec, 'arr')
        for _ in range(nterms):
            if vis and self.rnd.random() < 0.45:
                e.append([a_id(self.rnd.choice(vis))])
            else:
                e.append([self.arr_lit(sec)])
        return e

    def bool_expr(self, sec: str) -> Expr:
        r = self.rnd.random()
        vis = self.visible(sec, 'bool')
        if vis and r < 0.2:
            return e1(a_id(self.rnd.choice(vis)))
        if r < 0.3:
            return e1(a_id(self.rnd.choice(['True', 'False'])))
        return e1(a_bool(self.rnd.random() < 0.5))

    def int_expr(self, sec: str) -> Expr:
        vis = self.visible(sec, 'int')
        if vis and self.rnd.random() < 0.2:
            return e1(a_id(self.rnd.choice(vis)))
        return e1(a_int(self.rnd.choice(INT_POOL)))

    def typed(self, sec: str, typ: str) -> Expr:
        return {'str': self.str_expr, 'arr': self.arr_expr, 'bool': self.bool_expr, 'int': self.int_expr}[typ](sec)

    def broken(self, sec: str) -> T.Tuple[str, Expr]:
        """An expression with one documented reason to fail (as far as the generator can tell)."""
        rnd = self.rnd
        kind = rnd.choice(['undef', 'undef', 'othersec', 'othersec', 'types', 'types', 'types', 'bad', 'bad', 'bad', 'later', 'later',
                           'arrelem', 'nested'])
        if kind == 'undef':
            return 'str', [[a_id(rnd.choice(['nosuch', 'undefined_name', 'TRUE', 'true_', 'Toolchain']))]] + \
                (self.str_expr(sec, small=True) if rnd.random() < 0.5 else [])
        if kind == 'othersec':
            others = [(s, n) for (s, n) in self.types if s not in (sec, 'constants') and _is_ident(n)
                      and n not in self.order.get(sec, []) and n not in self.order.get('constants', [])]
            if others:
                return 'str', e1(a_id(rnd.choice(others)[1]))
            return 'str', e1(a_id('from_other_section'))
        if kind == 'types':
            l, r = rnd.choice([('str', 'int'), ('int', 'int'), ('arr', 'str'), ('str', 'arr'), ('bool', 'bool'), ('int', 'str'),
                               ('bool', 'str'), ('arr', 'int')])
            op = rnd.choice(['+', '/'])
            if (l, r, op) in (('str', 'str', '+'), ('arr', 'arr', '+'), ('str', 'str', '/')):
                op = '/'
            la, ra = self.typed(sec, l), self.typed(sec, r)
            if op == '+':
                return 'str', la + ra
            # `/` binds tighter: only single-term operands can be joined
            return 'str', [la[0] + ra[0]]
        if kind == 'bad':
            b = a_bad(rnd.choice(BAD_KINDS))
            if rnd.random() < 0.6:
                return 'str', e1(b)
            return 'str', [[self.lit_str()], [b]] if rnd.random() < 0.5 else [[b], [self.lit_str()]]
        if kind == 'arrelem':
            return 'arr', e1(a_arr([e1(self.lit_str()), e1(a_int(rnd.choice(INT_POOL)))]))
        if kind == 'nested':
            return 'arr', e1(a_arr([e1(self.arr_lit(sec))]))
        # 'later': a name that is only defined further down in this section
        return 'str', e1(a_id('defined_later'))

    def gen_entry(self, sec: str, key: str) -> T.Dict[str, T.Any]:
        rnd = self.rnd
        if rnd.random() < self.p_err:
            r = rnd.random()
            if r < 0.1:
                self.note(sec, key, 'str')
                return {'key': key, 'kind': 'empty', 'e': []}
            typ, e = self.broken(sec)
            self.note(sec, key, typ)
            return entry(key, e)
        typ = rnd.choice(['str', 'str', 'str', 'arr', 'arr', 'bool', 'int'])
        e = self.typed(sec, typ)
        self.note(sec, key, typ)
        return entry(key, e)

    def note(self, sec: str, key: str, typ: str) -> None:
        self.types[(sec, key)] = typ
        if key not in self.order.setdefault(sec, []):
            self.order[sec].append(key)

    def gen_files(self) -> T.List[T.List[T.Dict[str, T.Any]]]:
        rnd = self.rnd
        nfiles = rnd.choice([1, 1, 2, 2, 2, 3, 3, 4])
        names = [n for n, _ in SECTION_WEIGHTS]
        weights = [w for _, w in SECTION_WEIGHTS]
        files = []
        for _ in range(nfiles):
            nsec = rnd.choice([0, 1, 1, 2, 2, 3, 3, 4])
            secs: T.List[str] = []
            while len(secs) < nsec:
                s = rnd.choices(names, weights)[0]
                if s not in secs:
                    secs.append(s)
            file = []
            for s in secs:
                pool = CONST_NAMES if s == 'constants' else SECTION_KEYS[s] + ['k1', 'K1', 'extra']
                nent = rnd.choice([0, 1, 1, 2, 2, 3, 3, 4, 5])
                keys: T.List[str] = []
                # prefer re-using keys of earlier files half of the time (overrides)
                prior = [k for k in self.order.get(s, [])]
                while len(keys) < min(nent, len(pool)):
                    k = rnd.choice(prior) if prior and rnd.random() < 0.35 else rnd.choice(pool)
                    if k not in keys:
                        keys.append(k)
                ents = [self.gen_entry(s, k) for k in keys]
                if rnd.random() < 0.004:
                    ents.insert(rnd.randrange(len(ents) + 1), {'key': '', 'kind': 'noeq', 'e': []})
                file.append({'name': s, 'entries': ents})
            files.append(file)
        r = rnd.random()
        if r < 0.12 and len(files) > 1:
            rnd.shuffle(files)
        elif r < 0.15:
            # not decided by the documentation: a key or a section twice in one file (the judge only requires a clean outcome)
            cand = [f for f in files if f]
            if cand:
                f = rnd.choice(cand)
                s = rnd.choice(f)
                if s['entries'] and rnd.random() < 0.5:
                    s['entries'].append(dict(rnd.choice(s['entries'])))
                else:
                    f.append({'name': s['name'], 'entries': [entry('dup', e1(a_str('x')))]})
        return files
