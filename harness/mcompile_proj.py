"""Helpers of the X03 check (`meson compile`): abstract targets/expressions <-> concrete things.

Nothing here decides whether meson is right; it renders the model's abstract inputs (targets, TARGET expressions,
flags) to concrete ones (a source tree, introspection data, argv), and projects what the real code did (exceptions,
ninja's argv, intro-targets.json) back to the abstract records that specs/mcompile/TraceMCompile.tla judges.

Abstract target (as in specs/mcompile/MCompile.tla):
    {"n": [name pieces split at '.'], "s": name_suffix or "", "ty": type with '_', "d": dir of the meson.build ('.' = root),
     "od": dir of the first output, "o": [outputs relative to the build dir], "id": id}
Abstract expression: {"p": path or "", "g": [pieces of NAME.SUFFIX], "ty": type or ""}
"""
from __future__ import annotations

import hashlib
import json
import os
import random
import re
import subprocess
import typing as T
from pathlib import Path

from . import common
from .common import MachineryError

STUB = str(common.VERIF / 'tools' / 'ninja-stub-x03')

TYPE_SUFFIX = {'executable': '@exe', 'static_library': '@sta', 'shared_library': '@sha', 'shared_module': '@sha',
               'custom': '@cus', 'run': '@run', 'alias': '@run', 'jar': '@jar'}


# ---------------------------------------------------------------------------
# expressions

def render_expr(e: T.Dict[str, T.Any], rnd: random.Random) -> str:
    """abstract expression -> the text `[PATH/]NAME.SUFFIX[:TYPE]` (seeded choice between equivalent path spellings)."""
    name = '.'.join(e['g'])
    p = e['p']
    if p == '':
        txt = name
    elif p == '.':
        txt = './' + name
    else:
        txt = rnd.choice([p + '/', './' + p + '/']) + name
    if e['ty']:
        txt += ':' + e['ty']
    return txt


def parse_candidate(line: str) -> T.Dict[str, T.Any]:
    """one candidate named by an ambiguity report (`- ./sub/foo.bin:static_library`) -> abstract expression."""
    txt = line.strip()
    if txt.startswith('- '):
        txt = txt[2:]
    ty = ''
    if ':' in txt:
        txt, ty = txt.rsplit(':', 1)
    d, _, name = txt.rpartition('/')
    d = os.path.normpath(d) if d else ''
    return {'p': d, 'g': name.split('.'), 'ty': ty}


def classify_error(msg: str) -> T.Dict[str, T.Any]:
    """Error text of `meson compile` -> {"k": class, "blamed": expression text or "", "c": [candidates]}.

    The class is recognised by the few words that name it; the candidate lines are parsed, not compared as text."""
    blamed = ''
    m = re.search(r"Can't invoke target `(.*?)`:", msg, re.S)
    if m:
        blamed = m.group(1)
    k = 'other'
    cands: T.List[T.Dict[str, T.Any]] = []
    if 'unknown target type' in msg:
        k = 'badtype'
    elif 'ambiguous name' in msg:
        k = 'ambiguous'
        for ln in msg.splitlines():
            if ln.startswith('- '):
                cands.append(parse_candidate(ln))
    elif 'target not found' in msg:
        k = 'notfound'
    elif "can't be used simultaneously" in msg:
        k = 'usage'
    elif 'not a meson build directory' in msg:
        k = 'nobuilddir'
    return {'k': k, 'blamed': blamed, 'c': cands}


# ---------------------------------------------------------------------------
# synthesised introspection data (binding A): exactly the keys `meson introspect --targets` writes

def real_id(t: T.Dict[str, T.Any]) -> str:
    qual = '.'.join(t['n']) + ('.' + t['s'] if t['s'] else '')
    my = qual + TYPE_SUFFIX[t['ty']]
    sub = '' if t['d'] == '.' else t['d']
    if sub:
        return hashlib.sha256(sub.encode()).hexdigest()[:7] + '@@' + my
    return my


def intro_entry(t: T.Dict[str, T.Any], srcdir: str, builddir: str) -> T.Dict[str, T.Any]:
    ty = t['ty'].replace('_', ' ')
    ent: T.Dict[str, T.Any] = {
        'name': '.'.join(t['n']),
        'id': real_id(t),
        'type': ty,
        'defined_in': os.path.normpath(os.path.join(srcdir, t['d'], 'meson.build')),
        'filename': [os.path.join(builddir, o) for o in t['o']],
        'build_by_default': t['ty'] not in ('custom', 'run', 'alias'),
        'target_sources': [],
        'extra_files': [],
        'subproject': None,
        'dependencies': [],
        'depends': [],
    }
    if t['ty'] == 'executable':
        ent['win_subsystem'] = 'console'
    ent['installed'] = False
    return ent


# ---------------------------------------------------------------------------
# projection of a real intro-targets.json

def project_intro(intro: T.List[T.Dict[str, T.Any]], srcdir: str, builddir: str) -> T.List[T.Dict[str, T.Any]]:
    out = []
    srcdir = os.path.realpath(srcdir)
    builddir = os.path.realpath(builddir)
    for ent in intro:
        name = ent['name']
        tid = ent['id']
        qual = tid.rsplit('@', 1)[0]
        if '@@' in qual:
            qual = qual.split('@@', 1)[1]
        if qual == name:
            suffix = ''
        elif qual.startswith(name + '.'):
            suffix = qual[len(name) + 1:]
        else:
            raise MachineryError(f'cannot relate id {tid!r} to name {name!r}')
        d = os.path.relpath(os.path.dirname(os.path.realpath(ent['defined_in'])), srcdir).replace(os.sep, '/')
        outs = [os.path.relpath(os.path.realpath(f), builddir).replace(os.sep, '/') for f in ent['filename']]
        od = os.path.dirname(outs[0]) or '.'
        out.append({'n': name.split('.'), 's': suffix, 'ty': ent['type'].replace(' ', '_'), 'd': d, 'od': od,
                    'o': outs, 'id': tid})
    return out


# ---------------------------------------------------------------------------
# real projects (bindings A2 and B)

KIND_TYPE = {'exe': 'executable', 'static': 'static_library', 'shared': 'shared_library', 'module': 'shared_module',
             'custom': 'custom', 'run': 'run', 'alias': 'alias'}


def write_project(targets: T.List[T.Dict[str, T.Any]], srcdir: Path, lang: str) -> None:
    """targets: [{"kind", "name", "suffix", "dir" ('.'|'sub'|'sub/deep'|'subprojects/<sp>'[/x]), "outs": [basenames] (custom),
    "bsub": build_subdir or ""}] -> a source tree.  `lang` is 'c' or '' (no compiler needed: custom/run/alias only)."""
    dirs: T.Dict[str, T.List[str]] = {}

    def lines_of(d: str) -> T.List[str]:
        return dirs.setdefault(d, [])

    lines_of('.')
    for t in targets:
        d = t['dir']
        # make sure all parents exist
        parts = d.split('/') if d != '.' else []
        for k in range(1, len(parts) + 1):
            lines_of('/'.join(parts[:k]))
        if d.startswith('subprojects/') and len(parts) >= 2:
            lines_of('/'.join(parts[:2]))
    nvar = 0
    lastvar: T.Dict[str, str] = {}
    for t in targets:
        d = t['dir']
        depth = 0 if d == '.' else len(d.split('/'))
        if d.startswith('subprojects/'):
            depth -= 2
        up = '../' * depth
        nvar += 1
        var = f't{nvar}'
        nm = t['name'].replace("'", "\\'")
        kw = ''
        if t.get('suffix'):
            kw += f", name_suffix: '{t['suffix']}'"
        if t.get('bsub'):
            kw += f", build_subdir: '{t['bsub']}'"
        k = t['kind']
        if k == 'exe':
            ln = f"{var} = executable('{nm}', '{up}m.c'{kw})"
        elif k == 'static':
            ln = f"{var} = static_library('{nm}', '{up}m.c'{kw})"
        elif k == 'shared':
            ln = f"{var} = shared_library('{nm}', '{up}m.c'{kw})"
        elif k == 'module':
            ln = f"{var} = shared_module('{nm}', '{up}m.c'{kw})"
        elif k == 'both':
            ln = f"{var} = both_libraries('{nm}', '{up}m.c'{kw})"
        elif k == 'custom':
            outs = ', '.join(f"'{o}'" for o in t['outs'])
            ln = f"{var} = custom_target('{nm}', output: [{outs}], command: ['true']{kw})"
        elif k == 'run':
            ln = f"{var} = run_target('{nm}', command: ['true'])"
        elif k == 'alias':
            dep = lastvar.get(d)
            if dep is None:
                nvar += 1
                dep = f't{nvar}'
                lines_of(d).append(f"{dep} = custom_target('aliasdep{nvar}', output: 'aliasdep{nvar}.out', command: ['true'])")
            ln = f"{var} = alias_target('{nm}', {dep})"
        else:
            raise MachineryError('unknown kind ' + k)
        lines_of(d).append(ln)
        if k != 'alias' and k != 'run':
            lastvar[d] = var
    # subdir()/subproject() calls: children after the directory's own targets
    alld = sorted(dirs)
    for d in alld:
        if d == '.':
            continue
        parts = d.split('/')
        if parts[0] == 'subprojects':
            if len(parts) == 2:
                dirs['.'].append(f"subproject('{parts[1]}')")
            elif len(parts) > 2:
                dirs['/'.join(parts[:-1])].append(f"subdir('{parts[-1]}')")
            continue
        parent = '/'.join(parts[:-1]) or '.'
        dirs[parent].append(f"subdir('{parts[-1]}')")
    langs = f", '{lang}'" if lang else ''
    for d, lines in dirs.items():
        dd = srcdir if d == '.' else srcdir / d
        dd.mkdir(parents=True, exist_ok=True)
        parts = d.split('/')
        head = []
        if d == '.':
            head = [f"project('x03'{langs}, meson_version: '>=1.10')"]
        elif parts[0] == 'subprojects' and len(parts) == 2:
            head = [f"project('{parts[1]}'{langs})"]
            (dd / 'm.c').write_text('int main(void) { return 0; }\n')
        elif parts[0] == 'subprojects' and len(parts) == 1:
            continue
        (dd / 'meson.build').write_text('\n'.join(head + lines) + '\n')
    (srcdir / 'm.c').write_text('int main(void) { return 0; }\n')


def meson_setup(srcdir: Path, builddir: Path, timeout: int = 600) -> subprocess.CompletedProcess:
    env = dict(os.environ)
    env['NINJA'] = STUB
    env.pop('X03_NINJA_LOG', None)
    return subprocess.run([common.PYTHON, str(common.REPO / 'meson.py'), 'setup', str(builddir), str(srcdir)],
                          env=env, stdout=subprocess.PIPE, stderr=subprocess.STDOUT, text=True, timeout=timeout)


def expected_type_entries(t: T.Dict[str, T.Any]) -> T.List[str]:
    if t['kind'] == 'both':
        return ['static_library', 'shared_library']
    return [KIND_TYPE[t['kind']]]


def cross_check(declared: T.List[T.Dict[str, T.Any]], projected: T.List[T.Dict[str, T.Any]]) -> None:
    """The projection (which reads the suffix out of the id) must agree with what the generator wrote into meson.build."""
    for t in declared:
        for ty in expected_type_entries(t):
            hits = [p for p in projected if p['d'] == t['dir'] and '.'.join(p['n']) == t['name'] and p['ty'] == ty
                    and p['s'] == (t.get('suffix') or '')]
            if len(hits) != 1:
                raise MachineryError(f'environment-model disagreement: declared target {t} has {len(hits)} '
                                     f'introspection entries of type {ty}')


def read_ninja_log(path: str) -> T.List[T.Dict[str, T.Any]]:
    """log of tools/ninja-stub-x03 -> [{"cwd":..., "argv": [...]}]"""
    try:
        data = Path(path).read_bytes()
    except FileNotFoundError:
        return []
    out = []
    for rec in data.split(b'\n--end--\n'):
        if not rec:
            continue
        parts = rec.split(b'\0')
        if parts and parts[-1] == b'':
            parts = parts[:-1]
        toks = [p.decode('utf-8', 'replace') for p in parts]
        out.append({'cwd': toks[0], 'argv': toks[1:]})
    return out


def project_argv(cwd: str, argv: T.List[str], builddir: str) -> T.Tuple[str, T.List[str]]:
    """Where ninja was started and what it was given, with the build directory made symbolic:
    cwd -> "@B" (the build directory) / "@O"; the argument of every -C -> "@B" when it denotes the build directory."""
    b = os.path.realpath(builddir)
    acwd = '@B' if os.path.realpath(cwd) == b else '@O'
    out = []
    prev = ''
    for a in argv:
        if prev == '-C':
            out.append('@B' if os.path.realpath(os.path.join(cwd, a)) == b else '@X:' + a)
        else:
            out.append(a)
        prev = a
    return acwd, out


# ---------------------------------------------------------------------------
# flags -> argv of `meson compile`

def render_flags(f: T.Dict[str, T.Any], rnd: random.Random, args_opt: str = '--ninja-args') -> T.List[str]:
    out: T.List[str] = []
    groups: T.List[T.List[str]] = []
    if f['clean']:
        groups.append(['--clean'])
    if f['j'] != 0 or rnd.random() < 0.3:
        j = str(f['j'])
        groups.append(rnd.choice([['-j', j], ['-j' + j], ['--jobs', j], ['--jobs=' + j]]) if f['j'] >= 0
                      else rnd.choice([['-j' + j], ['--jobs=' + j]]))
    if f['l10'] != 0 or rnd.random() < 0.3:
        l10 = f['l10']
        sign = '-' if l10 < 0 else ''
        i, d = divmod(abs(l10), 10)
        txt = sign + (f'{i}.{d}' if d or rnd.random() < 0.5 else str(i))
        groups.append(rnd.choice([['-l' + txt], ['--load-average=' + txt]]) if l10 < 0
                      else rnd.choice([['-l', txt], ['-l' + txt], ['--load-average', txt], ['--load-average=' + txt]]))
    if f['v']:
        groups.append([rnd.choice(['-v', '--verbose'])])
    if f['na']:
        na = f['na']
        simple = all(a and ',' not in a and ' ' not in a and "'" not in a and not a.startswith('[') for a in na)
        if simple and rnd.random() < 0.6:
            val = ','.join(na)               # [CMD] "a single string ... values separated by commas"
        else:
            val = '[' + ', '.join("'" + a.replace('\\', '\\\\').replace("'", "\\'") + "'" for a in na) + ']'
        groups.append([args_opt + '=' + val])
    rnd.shuffle(groups)
    for g in groups:
        out += g
    return out


def load_json(path: Path) -> T.Any:
    with open(path, encoding='utf-8') as fh:
        return json.load(fh)
