"""X11 - running `meson subprojects ...` on a world (harness/msubp_world.py) and reading what it printed.

Two ways to start the command, both go through meson's own argument parsing (``mesonmain.run``):

* ``cli``  - a fresh interpreter: ``python <tree>/meson.py subprojects ...`` (what a user types);
* ``fork`` - the calling worker process has imported ``mesonbuild`` from the tree under test once; every command runs
  in a forked child that redirects stdout/stderr to a file and calls ``mesonmain.run(argv, <tree>/meson.py)``.  Same
  code path minus one second of interpreter start-up per command.

``foreach`` commands run a *gate script* in every subproject directory: it reports start (with its working directory)
and end to an event file and, when the run is gated, blocks in the middle until the controller releases it.  The
controller releases the running tasks one at a time according to a *policy*, each time waiting until the released
task's block has appeared in the output, so the schedule of a ``-j N`` run is forced and does not depend on timing.
"""
from __future__ import annotations

import os
import re
import subprocess
import sys
import time
import typing as T
from pathlib import Path

from . import common
from .msubp_world import World, dirname_of

GATE_SH = r'''#!/bin/sh
# usage: gate.sh <control-dir>; cwd = the subproject directory (that is the point)
n=$(basename "$PWD")
echo "start $n $(pwd -P)" >> "$1/events"
echo "X11MARK $n 1"
if [ -e "$1/gated" ]; then
  while [ ! -e "$1/go.$n" ]; do sleep 0.01; done
fi
echo "X11MARK $n 2"
echo "end $n" >> "$1/events"
if [ -e "$1/fail.$n" ]; then exit 3; fi
exit 0
'''

_preloaded = False


def preload() -> None:
    """Import the command's modules from the tree under test (fork mode)."""
    global _preloaded
    if _preloaded:
        return
    common.use_repo_meson()
    import mesonbuild.mesonmain  # noqa: F401
    import mesonbuild.msubprojects  # noqa: F401
    import mesonbuild.wrap.wrap  # noqa: F401
    import mesonbuild.ast  # noqa: F401
    _preloaded = True


def _child(argv: T.List[str], cwd: Path, env: T.Dict[str, str], outf: Path) -> None:
    try:
        fd = os.open(outf, os.O_WRONLY | os.O_CREAT | os.O_TRUNC, 0o644)
        os.dup2(fd, 1)
        os.dup2(fd, 2)
        os.close(fd)
        devnull = os.open(os.devnull, os.O_RDONLY)
        os.dup2(devnull, 0)
        os.chdir(cwd)
        os.environ.clear()
        os.environ.update(env)
        sys.stdout = os.fdopen(1, 'w', buffering=1, encoding='utf-8', errors='replace', closefd=False)
        sys.stderr = os.fdopen(2, 'w', buffering=1, encoding='utf-8', errors='replace', closefd=False)
        sys.argv = [str(common.REPO / 'meson.py')] + argv
        from mesonbuild import mesonmain
        try:
            rc = mesonmain.run(argv, str(common.REPO / 'meson.py'))
        except SystemExit as e:          # argparse errors
            rc = e.code if isinstance(e.code, int) else 0 if e.code is None else 1
        sys.stdout.flush()
        sys.stderr.flush()
        # what `sys.exit(rc)` of meson.py makes of it: an int is truncated to a byte by the system, None is 0, else 1
        os._exit(rc & 0xFF if isinstance(rc, int) else 0 if rc is None else 1)
    except BaseException:
        import traceback
        try:
            traceback.print_exc()
            sys.stderr.flush()
        finally:
            os._exit(254)


class Proc:
    """A running meson command (forked child or subprocess) with a uniform poll()."""

    def __init__(self, argv: T.List[str], cwd: Path, env: T.Dict[str, str], outf: Path, mode: str):
        self.outf = outf
        self.rc: T.Optional[int] = None
        self.mode = mode
        if mode == 'fork':
            preload()
            sys.stdout.flush()
            sys.stderr.flush()
            self.pid = os.fork()
            if self.pid == 0:
                _child(argv, cwd, env, outf)
        else:
            self.fh = open(outf, 'wb')
            self.p = subprocess.Popen([common.PYTHON, str(common.REPO / 'meson.py')] + argv, cwd=cwd, env=env,
                                      stdin=subprocess.DEVNULL, stdout=self.fh, stderr=subprocess.STDOUT)

    def poll(self) -> T.Optional[int]:
        if self.rc is not None:
            return self.rc
        if self.mode == 'fork':
            pid, st = os.waitpid(self.pid, os.WNOHANG)
            if pid == 0:
                return None
            self.rc = os.waitstatus_to_exitcode(st)
        else:
            r = self.p.poll()
            if r is None:
                return None
            self.rc = r
            self.fh.close()
        return self.rc

    def kill(self) -> None:
        try:
            if self.mode == 'fork':
                os.kill(self.pid, 9)
                os.waitpid(self.pid, 0)
            else:
                self.p.kill()
                self.p.wait()
                self.fh.close()
        except Exception:
            pass


def clean_lines(text: str) -> T.List[str]:
    """stdout as the user reads it: progress lines (ending in CR, erased with ESC[K) are not content."""
    text = text.replace('\x1b[K', '')
    out = []
    for ln in re.split(r'[\r\n]', text):
        if not ln.strip() or ln.startswith('Progress: '):
            continue
        out.append(ln)
    return out


def run_command(world: World, ctl: Path, cmd: T.Dict[str, T.Any], mode: str = 'fork',
                timeout: float = 120.0) -> T.Dict[str, T.Any]:
    """Run one abstract command {c, sel, types, j, ...} in the world; returns raw results (rc, text, events)."""
    argv, gated = render(world, ctl, cmd)
    for p in list(ctl.iterdir()):
        if p.name != 'gate.sh':
            p.unlink()
    (ctl / 'events').write_text('')
    if gated:
        (ctl / 'gated').write_text('')
    for n in cmd.get('fail', []):
        (ctl / ('fail.' + dirname_of(world.state[n]))).write_text('')
    outf = ctl / 'stdout.txt'
    t0 = time.time()
    proc = Proc(argv, world.src if cmd.get('cwd', True) else world.root, world.env, outf, mode)
    releases: T.List[str] = []
    try:
        if gated:
            _control(world, ctl, cmd, proc, releases, t0 + timeout)
        while proc.poll() is None:
            if time.time() > t0 + timeout:
                raise common.MachineryError(f'meson subprojects timed out: {argv}')
            time.sleep(0.005)
    finally:
        if proc.rc is None:
            # never leave a blocked gate script behind
            (ctl / 'gated').unlink(missing_ok=True)
            proc.kill()
    text = outf.read_text(errors='replace')
    events = [ln.split(' ', 2) for ln in (ctl / 'events').read_text().splitlines() if ln.strip()]
    return {'rc': proc.rc, 'text': text, 'events': events, 'argv': argv, 'releases': releases,
            'wall': round(time.time() - t0, 3)}


def _control(world: World, ctl: Path, cmd: T.Dict[str, T.Any], proc: Proc, releases: T.List[str], deadline: float) -> None:
    """Release the gated tasks one at a time.  policy: 'fifo' | 'lifo' (which of the running tasks finishes next).
    `hint` (how many tasks are expected at most, how many may run at once) only saves waiting time; when it is wrong
    the controller falls back to waiting for quiescence."""
    policy = cmd.get('policy', 'fifo')
    hint_total = cmd.get('hint_total', 99)
    hint_par = cmd.get('hint_par', 99)
    quiet = float(cmd.get('quiet', 2.0))
    outf = ctl / 'stdout.txt'
    started: T.List[str] = []
    last_change = time.time()
    while proc.poll() is None:
        if time.time() > deadline:
            raise common.MachineryError('gated foreach run timed out')
        evs = [ln.split(' ', 2) for ln in (ctl / 'events').read_text().splitlines() if ln.strip()]
        st = [e[1] for e in evs if e[0] == 'start']
        if len(st) != len(started):
            started = st
            last_change = time.time()
        waiting = [n for n in started if n not in releases]
        if not waiting:
            time.sleep(0.003)
            continue
        expected_running = min(hint_par, hint_total - len(releases))
        if len(waiting) < expected_running:
            if time.time() - last_change < quiet:
                time.sleep(0.003)
                continue
            # a slow machine: a task the command has taken up (its progress line says so) whose script has not reported
            # yet is waited for a good while longer; this only ever delays a release, it decides nothing
            if time.time() - last_change < 45.0 and _taken_up_not_started(world, outf, started):
                time.sleep(0.01)
                continue
        n = waiting[0] if policy == 'fifo' else waiting[-1]
        (ctl / ('go.' + n)).write_text('')
        releases.append(n)
        # wait until the block of the released task is in the output (the runner flushed its log)
        mark = f'X11MARK {n} 2'
        while proc.poll() is None and mark not in outf.read_text(errors='replace'):
            if time.time() > deadline:
                raise common.MachineryError('gated foreach run timed out waiting for a block')
            time.sleep(0.003)
        last_change = time.time()


def _taken_up_not_started(world: World, outf: Path, started: T.List[str]) -> bool:
    try:
        text = outf.read_text(errors='replace')
    except OSError:
        return False
    m = None
    for m in re.finditer(r'Progress: \d+ / \d+ \(([^)\r\n]*)\)', text):
        pass
    if m is None:
        return False
    for name in [x.strip() for x in m.group(1).split(',') if x.strip()]:
        w = world.state.get(name)
        if w is not None and w['dir'] == 'present' and dirname_of(w) not in started:
            return True
    return False


def pattern_of(sel: T.Dict[str, T.Any]) -> T.List[str]:
    if sel['k'] == 'all':
        return []
    if sel['k'] == 'name':
        return [sel['v']]
    if sel['k'] == 'grp':
        return [sel['v'] + '*']
    raise common.MachineryError('unknown selection ' + repr(sel))


def render(world: World, ctl: Path, cmd: T.Dict[str, T.Any]) -> T.Tuple[T.List[str], bool]:
    """abstract command -> argv of `meson` (after the program name)."""
    c = cmd['c']
    argv = ['subprojects', c]
    common_opts: T.List[str] = []
    if cmd.get('cwd', True):
        # run from the source directory; half of the time say so explicitly
        if cmd.get('explicit_sourcedir'):
            common_opts += ['--sourcedir', '.']
    else:
        common_opts += ['--sourcedir', str(world.src)]
    if cmd.get('types'):
        # the model has a set of type names; `types_text` (when given) is the spelling chosen for the command line
        common_opts += ['--types', cmd.get('types_text') or ','.join(cmd['types'])]
    if cmd.get('j', 0):
        common_opts += (['-j', str(cmd['j'])] if cmd.get('shortj', True) else ['--num-processes', str(cmd['j'])])
    pats = pattern_of(cmd.get('sel', {'k': 'all'}))
    gated = False
    if c == 'download':
        argv += common_opts + pats
    elif c == 'update':
        argv += (['--reset'] if cmd.get('reset') else []) + (['--rebase'] if cmd.get('rebase') else []) + common_opts + pats
    elif c == 'checkout':
        argv += (['-b'] if cmd.get('b') else []) + common_opts
        # the branch name is the first positional; names of subprojects follow it
        if cmd.get('branch'):
            argv += [cmd['branch']] + pats
        elif pats:
            raise common.MachineryError('checkout without a branch cannot name subprojects')
    elif c == 'purge':
        argv += (['--confirm'] if cmd.get('confirm') else []) + (['--include-cache'] if cmd.get('cache') else [])
        argv += common_opts + pats
    elif c == 'packagefiles':
        argv += ['--save' if cmd.get('save') else '--apply'] + common_opts + pats
    elif c == 'foreach':
        gate = ctl / 'gate.sh'
        if not gate.exists():
            gate.write_text(GATE_SH)
            gate.chmod(0o755)
        for p in pats:
            common_opts += ['--filter', p]
        argv += common_opts + ['/bin/sh', str(gate), str(ctl)]
        gated = bool(cmd.get('gated'))
    else:
        raise common.MachineryError('unknown command ' + repr(cmd))
    return argv, gated


def tokens(world: World, cmd: T.Dict[str, T.Any], text: str) -> T.List[T.List[str]]:
    """Project the printed lines to abstract tokens [wrap name or "", kind].

    kinds: head (the line that announces a subproject), m1 / m2 (the two lines of the gate script), cont (a line that
    only makes sense as continuation of a head: "  -> ..."), deldir / delcache / delredirect (purge), nothing (the
    closing remark of a purge that was not confirmed), failed (the closing warning naming failures), error, other."""
    by_dir = {dirname_of(w): n for n, w in world.state.items()}
    by_name = dict.fromkeys(world.state)
    toks: T.List[T.List[str]] = []
    c = cmd['c']
    for ln in clean_lines(text):
        m = None
        if c == 'foreach' and (m := re.match(r'Executing command in (.*)$', ln)):
            toks.append([by_dir.get(Path(m.group(1)).name, '?' + m.group(1)), 'head'])
        elif (m := re.match(r'X11MARK (\S+) ([12])$', ln)):
            toks.append([by_dir.get(m.group(1), '?' + m.group(1)), 'm' + m.group(2)])
        elif c == 'download' and (m := re.match(r'Download (\S+)\.\.\.$', ln)):
            toks.append([m.group(1) if m.group(1) in by_name else '?' + m.group(1), 'head'])
        elif c == 'update' and (m := re.match(r'Updating (\S+)\.\.\.$', ln)):
            toks.append([m.group(1) if m.group(1) in by_name else '?' + m.group(1), 'head'])
        elif c == 'checkout' and (m := re.match(r'Checkout (\S+) in (\S+)\.\.\.$', ln)):
            toks.append([m.group(2) if m.group(2) in by_name else '?' + m.group(2), 'head'])
        elif c == 'packagefiles' and (m := re.match(r'Re-applying patchfiles overlay for (\S+)\.\.\.$', ln)):
            toks.append([m.group(1) if m.group(1) in by_name else '?' + m.group(1), 'head'])
        elif c == 'purge' and (m := re.match(r'Deleting (.*)$', ln)):
            p = Path(m.group(1))
            if p.parent.name == 'packagecache':
                mm = re.match(r'(.+)-v[12]\.tar\.gz$', p.name)
                toks.append([mm.group(1) if mm and mm.group(1) in by_name else '?' + p.name, 'delcache'])
            elif p.suffix == '.wrap':
                toks.append([p.stem if p.stem in by_name else '?' + p.name, 'delredirect'])
            else:
                toks.append([by_dir.get(p.name, '?' + p.name), 'deldir'])
        elif c == 'purge' and ln.startswith('Nothing has been deleted'):
            toks.append(['', 'nothing'])
        elif ln.startswith('  ') or ln.startswith('Pass --reset'):
            toks.append(['', 'cont'])
        elif 'command failed in some subprojects' in ln:
            toks.append(['', 'failed'])
        elif ln.startswith('ERROR') or 'Traceback' in ln or 'Unhandled python exception' in ln:
            toks.append(['', 'error'])
        else:
            toks.append(['', 'other'])
    return toks


def failed_names(text: str) -> T.List[str]:
    """The subprojects the closing warning names as failed (the per-subproject verdicts of the command)."""
    out: T.List[str] = []
    for ln in clean_lines(text):
        m = re.search(r'command failed in some subprojects.*?: (.*)$', ln)
        if m:
            out += [x.strip() for x in m.group(1).split(',') if x.strip()]
    return out


def crashed(text: str, rc: T.Optional[int]) -> bool:
    """The command died of an exception nobody handled (as opposed to reporting failures)."""
    return 'Traceback (most recent call last)' in text or 'Unhandled python' in text or (rc is not None and rc < 0)


def schedule(world: World, events: T.List[T.List[str]]) -> T.List[T.Dict[str, T.Any]]:
    """start / end events of the gate script -> [{kind, name (of the wrap), cwd (ran in that wrap's directory)}]."""
    by_dir = {dirname_of(w): n for n, w in world.state.items()}
    out = []
    for e in events:
        kind, dn = e[0], e[1]
        name = by_dir.get(dn, '?' + dn)
        cwd = True
        if kind == 'start':
            try:
                cwd = len(e) > 2 and name in world.state and \
                    os.path.samefile(e[2], world.dirpath(world.state[name])) and \
                    Path(e[2]) == world.dirpath(world.state[name]).resolve()
            except OSError:
                cwd = False
        out.append({'kind': kind, 'name': name, 'cwd': bool(cwd)})
    return out


def crash_site(text: str) -> str:
    """Where an unhandled exception came from, normalised: '<ExceptionType>@<module>.<function>' of the innermost frame
    inside mesonbuild (used to make the signature of a crash specific; never used for a verdict)."""
    frames = re.findall(r'File "[^"]*?mesonbuild/([^"]+?)\.py", line \d+, in (\S+)', text)
    exc = ''
    for ln in text.splitlines():
        m = re.match(r'^([A-Za-z_][\w.]*(?:Error|Exception|Exit|Interrupt))\b', ln.strip())
        if m:
            exc = m.group(1)
    if not frames and not exc:
        return ''
    mod, fn = frames[-1] if frames else ('?', '?')
    return f'{exc or "?"}@{mod.replace("/", ".")}.{fn}'
