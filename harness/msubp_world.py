"""X11 - concrete worlds for the `meson subprojects` rule book (specs/msubprojects/MSubprojects.tla).

An abstract world is a list of wrap states in the vocabulary of the specification (see ``initial_state``).  This module

* renders an abstract initial world to a real source tree: ``src/meson.build``, ``src/subprojects/*.wrap``, wrap-file
  archives served through ``file://`` URLs, real upstream git repositories made with ``git init``, nested wraps behind a
  ``[wrap-redirect]``, ``packagefiles`` overlays, directories without a wrap, and a few files that belong to nobody;
* applies *environment events* (what a user or an upstream does between two meson commands: edit a wrap file, push an
  upstream commit, commit / edit / detach locally ...) with plain file operations and plain git;
* projects the real tree back to the abstract vocabulary (``project``) - this is the only thing the specification ever
  sees of the file system.

Nothing here decides whether meson behaved correctly; that is the trace specification's job.
"""
from __future__ import annotations

import hashlib
import io
import json
import os
import shutil
import subprocess
import tarfile
import typing as T
from pathlib import Path

BRANCHES = ('master', 'dev', 'topic')
REMOTE_BRANCHES = ('master', 'dev')
HASHFILE = '.meson-subproject-wrap-hash.txt'


class WorldError(Exception):
    """The harness could not build / read the world (machinery, never a violation)."""


def _tar(members: T.List[T.Tuple[str, bytes]]) -> bytes:
    buf = io.BytesIO()
    with tarfile.open(fileobj=buf, mode='w:gz', compresslevel=1) as tf:
        for name, data in members:
            ti = tarfile.TarInfo(name)
            ti.size = len(data)
            ti.mode = 0o644
            ti.mtime = 1_600_000_000
            tf.addfile(ti, io.BytesIO(data))
    return buf.getvalue()


def dirname_of(w: T.Dict[str, T.Any]) -> str:
    """Name of the subproject directory: differs from the wrap name for wrap-based kinds (`directory =` key)."""
    return w['name'] if w['kind'] == 'none' else w['name'] + '-d'


def initial_state(spec: T.Dict[str, T.Any]) -> T.Dict[str, T.Any]:
    """Abstract state of one wrap at the start of a session (nothing fetched, nothing cached).

    spec: {name, grp, kind: file|git|redirect|none, ov: 0|1 (has a patch_directory overlay), rev}"""
    kind = spec['kind']
    up = {'master': ['m0'], 'dev': ['m0', 'd1']} if kind == 'git' else {'master': [], 'dev': []}
    return {
        'name': spec['name'], 'grp': spec['grp'], 'kind': kind,
        'live': True, 'wv': 1, 'rev': spec.get('rev', 'master') if kind == 'git' else '',
        'ov': int(spec.get('ov', 0)) if kind in ('file', 'redirect') else 0, 'omod': False,
        'dir': 'present' if kind == 'none' else 'absent',
        'src': 0, 'aov': 0, 'mod': False, 'cache': [],
        'repo': False, 'cur': '', 'det': [],
        'lb': {b: [] for b in BRANCHES}, 'rt': {b: [] for b in REMOTE_BRANCHES},
        'dirty': 'clean', 'stash': 0, 'nloc': 0,
        'up': up,
    }


class World:
    def __init__(self, root: Path, specs: T.List[T.Dict[str, T.Any]], maingit: bool = False):
        self.root = root
        self.maingit = maingit
        # whether the wrap file names a patch_directory (fixed for the life of the world; `ov` is what is in it)
        self.has_ov = {s['name']: bool(int(s.get('ov', 0))) and s['kind'] in ('file', 'redirect') for s in specs}
        self.src = root / 'src'
        self.sp = self.src / 'subprojects'
        self.up = root / 'up'
        self.home = root / 'home'
        self.state: T.Dict[str, T.Dict[str, T.Any]] = {s['name']: initial_state(s) for s in specs}
        self.order = [s['name'] for s in specs]
        self.foreign_digest = ''
        self.env = dict(os.environ)
        self.env.update({
            'HOME': str(self.home), 'GIT_CONFIG_GLOBAL': str(self.home / 'gitconfig'), 'GIT_CONFIG_NOSYSTEM': '1',
            'GIT_TERMINAL_PROMPT': '0', 'LC_ALL': 'C.UTF-8', 'COLUMNS': '200', 'PYTHONUNBUFFERED': '1',
            'GIT_AUTHOR_DATE': '2020-01-01T00:00:00Z', 'GIT_COMMITTER_DATE': '2020-01-01T00:00:00Z',
        })
        for k in ('MESON_PACKAGE_CACHE_DIR', 'GIT_DIR', 'GIT_WORK_TREE'):
            self.env.pop(k, None)

    # ------------------------------------------------------------------ helpers
    def git(self, args: T.List[str], cwd: Path, check: bool = True) -> str:
        p = subprocess.run(['git'] + args, cwd=cwd, env=self.env, stdout=subprocess.PIPE, stderr=subprocess.STDOUT,
                           text=True, errors='replace')
        if check and p.returncode != 0:
            raise WorldError(f'git {args} in {cwd} failed: {p.stdout}')
        return p.stdout if p.returncode == 0 else ''

    def git_ok(self, args: T.List[str], cwd: Path) -> T.Tuple[bool, str]:
        p = subprocess.run(['git'] + args, cwd=cwd, env=self.env, stdout=subprocess.PIPE, stderr=subprocess.STDOUT,
                           text=True, errors='replace')
        return p.returncode == 0, p.stdout

    def wrapfile(self, w: T.Dict[str, T.Any]) -> Path:
        """The file that defines the wrap (for a redirect: the nested, real one)."""
        if w['kind'] == 'redirect':
            return self.sp / (w['name'] + '-host') / 'subprojects' / (w['name'] + '.wrap')
        return self.sp / (w['name'] + '.wrap')

    def archive_name(self, w: T.Dict[str, T.Any], v: int) -> str:
        return f"{w['name']}-v{v}.tar.gz"

    def dirpath(self, w: T.Dict[str, T.Any]) -> Path:
        return self.sp / dirname_of(w)

    # ------------------------------------------------------------------ rendering
    def _file_wrap_text(self, w: T.Dict[str, T.Any], v: int) -> str:
        an = self.archive_name(w, v)
        data = (self.up / an).read_bytes()
        txt = ('[wrap-file]\n'
               f'directory = {dirname_of(w)}\n'
               f'source_url = file://{self.up / an}\n'
               f'source_filename = {an}\n'
               f'source_hash = {hashlib.sha256(data).hexdigest()}\n')
        if self.has_ov[w['name']]:
            txt += f"patch_directory = {w['name']}-ov\n"
        txt += f"\n[provide]\ndependency_names = {w['name']}-dep\n"
        return txt

    def _git_wrap_text(self, w: T.Dict[str, T.Any]) -> str:
        return ('[wrap-git]\n'
                f"url = {self.up / (w['name'] + '.git')}\n"
                f"revision = {w['rev']}\n"
                f'directory = {dirname_of(w)}\n')

    def write_wrap(self, w: T.Dict[str, T.Any]) -> None:
        if w['kind'] in ('file', 'redirect'):
            self.wrapfile(w).write_text(self._file_wrap_text(w, w['wv']))
        elif w['kind'] == 'git':
            self.wrapfile(w).write_text(self._git_wrap_text(w))

    def overlay_dir(self, w: T.Dict[str, T.Any]) -> Path:
        base = self.sp if w['kind'] == 'file' else self.sp / (w['name'] + '-host') / 'subprojects'
        return base / 'packagefiles' / (w['name'] + '-ov')

    def write_overlay(self, w: T.Dict[str, T.Any]) -> None:
        d = self.overlay_dir(w)
        d.mkdir(parents=True, exist_ok=True)
        (d / 'overlay.txt').write_text(f"ov{w['ov']}\n")

    def build(self) -> None:
        self.src.mkdir(parents=True)
        self.sp.mkdir()
        self.up.mkdir()
        self.home.mkdir()
        (self.home / 'gitconfig').write_text(
            '[user]\n\tname = X11 Harness\n\temail = x11@example.invalid\n[init]\n\tdefaultBranch = master\n'
            '[advice]\n\tdetachedHead = false\n[commit]\n\tgpgsign = false\n[gc]\n\tauto = 0\n'
            '[protocol "file"]\n\tallow = always\n')
        (self.src / 'meson.build').write_text("project('x11main', version: '1.0')\n")
        # things that belong to no wrap: they must survive every command
        (self.src / 'main.c').write_text('int main(void) { return 0; }\n')
        (self.sp / 'README.user').write_text('kept by the user\n')
        for name in self.order:
            w = self.state[name]
            if w['kind'] in ('file', 'redirect'):
                for v in (1, 2):
                    dn = dirname_of(w)
                    data = _tar([(f'{dn}/meson.build', f"project('{name}', version: '{v}.0')\n".encode()),
                                 (f'{dn}/data.txt', f'v{v}\n'.encode()),
                                 (f'{dn}/lib/{name}.c', f'int {name}_v(void) {{ return {v}; }}\n'.encode())])
                    (self.up / self.archive_name(w, v)).write_bytes(data)
                if w['kind'] == 'redirect':
                    host = self.sp / (name + '-host')
                    (host / 'subprojects').mkdir(parents=True)
                    (host / 'meson.build').write_text(f"project('{name}-host')\n")
                    (self.sp / (name + '.wrap')).write_text(
                        f'[wrap-redirect]\nfilename = {name}-host/subprojects/{name}.wrap\n')
                self.write_wrap(w)
                if w['ov']:
                    self.write_overlay(w)
            elif w['kind'] == 'git':
                repo = self.up / (name + '.git')
                repo.mkdir()
                self.git(['init', '-q', '-b', 'master'], repo)
                (repo / 'meson.build').write_text(f"project('{name}')\n")
                (repo / 'm0.txt').write_text('m0\n')
                self.git(['add', '.'], repo)
                self.git(['commit', '-q', '-m', 'm0'], repo)
                self.git(['checkout', '-q', '-b', 'dev'], repo)
                (repo / 'd1.txt').write_text('d1\n')
                self.git(['add', '.'], repo)
                self.git(['commit', '-q', '-m', 'd1'], repo)
                self.git(['checkout', '-q', 'master'], repo)
                self.write_wrap(w)
            elif w['kind'] == 'none':
                d = self.sp / name
                d.mkdir(exist_ok=True)
                if not (d / 'meson.build').exists():
                    (d / 'meson.build').write_text(f"project('{name}')\n")
                (d / 'own.txt').write_text('a directory without a wrap\n')
        if self.maingit:
            # the main project is a git repository of its own (as most are); the subprojects are not tracked by it
            self.git(['init', '-q', '-b', 'master'], self.src)
            self.git(['add', 'meson.build', 'main.c', 'subprojects/README.user'], self.src)
            self.git(['commit', '-q', '-m', 'main project'], self.src)
            (self.src / 'main.c').write_text('int main(void) { return 1; } /* uncommitted work in the main project */\n')
        self.foreign_digest = self._foreign()

    # ------------------------------------------------------------------ environment events
    def apply_env(self, ev: T.Dict[str, T.Any]) -> None:
        """Apply one environment event {op, w, ...} with plain file / git operations (never through meson)."""
        op = ev['op']
        w = self.state[ev['w']]
        d = self.dirpath(w)
        if op == 'editwrap':            # the wrap file now names the next source archive
            w['wv'] = 2
            self.write_wrap(w)
        elif op == 'setrev':            # the wrap file now names another revision
            w['rev'] = ev['rev']
            self.write_wrap(w)
        elif op == 'editoverlay':
            w['ov'] = 2
            self.write_overlay(w)
        elif op == 'upcommit':          # upstream gets a new commit on a branch
            b = ev['b']
            repo = self.up / (w['name'] + '.git')
            lab = ('m' if b == 'master' else 'd') + str(len(w['up'][b]))
            self.git(['checkout', '-q', b], repo)
            (repo / f'{lab}.txt').write_text(lab + '\n')
            self.git(['add', '.'], repo)
            self.git(['commit', '-q', '-m', lab], repo)
            self.git(['checkout', '-q', 'master'], repo)
            w['up'][b] = w['up'][b] + [lab]
        elif op == 'localcommit':       # the user commits on the current branch of the subproject
            w['nloc'] += 1
            lab = f"L{w['nloc']}"
            (d / f'{lab}.txt').write_text(lab + '\n')
            self.git(['add', f'{lab}.txt'], d)
            self.git(['commit', '-q', '-m', lab], d)
        elif op == 'dirty':             # uncommitted work in a git subproject
            if ev['how'] == 'tracked':
                (d / 'm0.txt').write_text('m0 edited by the user\n')
            else:
                (d / 'untracked.txt').write_text('new file of the user\n')
        elif op == 'detach':
            self.git(['checkout', '-q', '--detach'], d)
        elif op == 'localmod':          # the user adds a file to an extracted / plain directory
            (d / 'local.txt').write_text('local work\n')
        elif op == 'plaindir':          # the user puts a plain directory where the wrap's checkout would go
            d.mkdir()
            (d / 'meson.build').write_text(f"project('{w['name']}')\n")
        else:
            raise WorldError('unknown environment event ' + repr(ev))

    # ------------------------------------------------------------------ projection
    def _chain(self, d: Path, ref: str) -> T.List[str]:
        ok, out = self.git_ok(['log', '--first-parent', '--format=%s', ref, '--'], d)
        if not ok:
            return []
        return list(reversed([ln for ln in out.splitlines() if ln]))

    def project_wrap(self, w0: T.Dict[str, T.Any]) -> T.Dict[str, T.Any]:
        w = json.loads(json.dumps(w0))
        name, kind = w['name'], w['kind']
        d = self.dirpath(w)
        # what the user / upstream controls is read back from disk as well, so that a command that edits it is seen
        if kind == 'none':
            w['live'] = True
        else:
            w['live'] = (self.sp / (name + '.wrap')).is_file()
        if kind in ('file', 'redirect'):
            w['wv'] = 0
            real = self.wrapfile(w)
            if real.is_file():
                txt = real.read_text()
                for v in (1, 2):
                    if txt == self._file_wrap_text(w0, v):
                        w['wv'] = v
            ovd = self.overlay_dir(w)
            ovf = ovd / 'overlay.txt'
            w['ov'] = 0
            w['omod'] = False
            if ovf.is_file():
                t = ovf.read_text().strip()
                w['ov'] = {'ov1': 1, 'ov2': 2}.get(t, 9)
            if ovd.is_dir():
                w['omod'] = (ovd / 'local.txt').is_file()
                # the wrap-hash file is meson's own bookkeeping; whether `--save` takes it along is not specified
                if {p.name for p in ovd.iterdir()} - {'overlay.txt', 'local.txt', HASHFILE}:
                    w['ov'] = 9
            cache = []
            for v in (1, 2):
                if (self.sp / 'packagecache' / self.archive_name(w, v)).is_file():
                    cache.append(v)
            w['cache'] = cache
        if kind == 'git':
            wf = self.wrapfile(w)
            w['rev'] = '?'
            if wf.is_file():
                txt = wf.read_text()
                for r in REMOTE_BRANCHES:
                    if txt == self._git_wrap_text(dict(w0, rev=r)):
                        w['rev'] = r
            repo = self.up / (name + '.git')
            w['up'] = {b: self._chain(repo, b) for b in REMOTE_BRANCHES}
        # the directory
        for k, v in (('src', 0), ('aov', 0), ('mod', False), ('repo', False), ('cur', ''), ('det', []),
                     ('dirty', 'clean'), ('stash', 0)):
            w[k] = v
        w['lb'] = {b: [] for b in BRANCHES}
        w['rt'] = {b: [] for b in REMOTE_BRANCHES}
        if d.is_symlink() or not d.is_dir():
            w['dir'] = 'absent' if not (d.exists() or d.is_symlink()) else 'odd'
            return w
        w['dir'] = 'present'
        w['mod'] = (d / 'local.txt').is_file()
        if kind in ('file', 'redirect'):
            df = d / 'data.txt'
            bf = d / 'meson.build'
            lf = d / 'lib' / f'{name}.c'
            w['src'] = 9
            for v in (1, 2):
                if (df.is_file() and df.read_text() == f'v{v}\n' and bf.is_file() and f"'{v}.0'" in bf.read_text()
                        and lf.is_file() and f'return {v};' in lf.read_text()):
                    w['src'] = v
            of = d / 'overlay.txt'
            if of.is_file():
                w['aov'] = {'ov1': 1, 'ov2': 2}.get(of.read_text().strip(), 9)
            known = {'data.txt', 'meson.build', 'lib', 'overlay.txt', 'local.txt', HASHFILE}
            if {p.name for p in d.iterdir()} - known or {p.name for p in (d / 'lib').iterdir()} != {f'{name}.c'}:
                w['src'] = 9
        elif kind == 'git':
            if (d / '.git').exists():
                w['repo'] = True
                ok, out = self.git_ok(['rev-parse', '--abbrev-ref', 'HEAD'], d)
                cur = out.strip() if ok else '?'
                if cur == 'HEAD':
                    w['cur'] = ''
                    w['det'] = self._chain(d, 'HEAD')
                else:
                    w['cur'] = cur
                for b in BRANCHES:
                    w['lb'][b] = self._chain(d, 'refs/heads/' + b)
                ok, out = self.git_ok(['for-each-ref', '--format=%(refname:short)', 'refs/heads'], d)
                extra = set(out.split()) - set(BRANCHES)
                if extra:
                    w['cur'] = '?' + ','.join(sorted(extra))
                for b in REMOTE_BRANCHES:
                    w['rt'][b] = self._chain(d, 'refs/remotes/origin/' + b)
                ok, out = self.git_ok(['status', '--porcelain', '--', ':!/' + HASHFILE, '.'], d)
                lines = [ln for ln in out.splitlines() if ln.strip()]
                tracked = any(not ln.startswith('??') for ln in lines)
                untracked = any(ln.startswith('??') for ln in lines)
                w['dirty'] = 'both' if tracked and untracked else 'tracked' if tracked else 'untracked' if untracked else 'clean'
                ok, out = self.git_ok(['stash', 'list'], d)
                w['stash'] = len([ln for ln in out.splitlines() if ln.strip()])
                ok, out = self.git_ok(['remote', 'get-url', 'origin'], d)
                if out.strip() != str(repo):
                    w['cur'] = '?origin=' + out.strip()
                # an unfinished rebase / conflict state is never a legal resting place
                if (d / '.git' / 'rebase-merge').exists() or (d / '.git' / 'rebase-apply').exists():
                    w['dirty'] = 'rebase-in-progress'
        return w

    def _foreign(self) -> str:
        """Digest of everything under src/ that belongs to no wrap (must never change)."""
        owned: T.Set[Path] = set()
        for name in self.order:
            w = self.state[name]
            if w['kind'] == 'none':
                continue
            owned.add(self.dirpath(w))
            owned.add(self.sp / (name + '.wrap'))
            if w['kind'] == 'redirect':
                owned.add(self.wrapfile(w))
            if self.has_ov[name]:
                owned.add(self.overlay_dir(w))
        owned.add(self.sp / 'packagecache')
        owned.add(self.sp / '.wraplock')
        owned.add(self.src / '.git')
        # the user's local file in a directory without a wrap is projected (mod), everything else in there is foreign
        projected = {self.sp / n / 'local.txt' for n in self.order if self.state[n]['kind'] == 'none'}
        h = hashlib.sha256()
        if self.maingit:
            # the main project's repository: where HEAD is, its refs, its stash, its uncommitted work
            for args in (['rev-parse', 'HEAD'], ['symbolic-ref', '-q', 'HEAD'], ['for-each-ref'], ['stash', 'list'],
                         ['status', '--porcelain', '--untracked-files=no']):
                ok, out = self.git_ok(args, self.src)
                h.update((' '.join(args) + f' {ok}\n' + out).encode())
        for base, dirs, files in os.walk(self.src):
            b = Path(base)
            dirs[:] = sorted(x for x in dirs if (b / x) not in owned)
            h.update(('D ' + str(b.relative_to(self.src)) + '\n').encode())
            for f in sorted(files):
                p = b / f
                if p in owned or p in projected:
                    continue
                if p.is_symlink():
                    h.update(('L ' + str(p.relative_to(self.src)) + ' ' + os.readlink(p) + '\n').encode())
                else:
                    h.update(('F ' + str(p.relative_to(self.src)) + ' ').encode() + hashlib.sha256(p.read_bytes()).digest())
        return h.hexdigest()

    def project(self) -> T.Dict[str, T.Any]:
        ws = [self.project_wrap(self.state[n]) for n in self.order]
        # files in the package cache that no wrap accounts for
        stray = 0
        pc = self.sp / 'packagecache'
        if pc.is_dir():
            known = {self.archive_name(self.state[n], v) for n in self.order for v in (1, 2)}
            stray = len([p for p in pc.iterdir() if p.name not in known])
        return {'ws': ws, 'foreign': 0 if self._foreign() == self.foreign_digest and stray == 0 else 1}

    def adopt(self, obs: T.Dict[str, T.Any]) -> None:
        """Take the observed state as the new reference state (fields the harness needs for later events)."""
        for w in obs['ws']:
            st = self.state[w['name']]
            nloc = st['nloc']
            st.update(json.loads(json.dumps(w)))
            st['nloc'] = nloc

    def listing(self) -> T.List[str]:
        """Recursive listing with digests of subprojects/ (replay files: what was on disk)."""
        out = []
        for base, dirs, files in os.walk(self.sp):
            dirs[:] = sorted(x for x in dirs if x != '.git')
            for f in sorted(files):
                p = Path(base) / f
                try:
                    dg = hashlib.sha1(p.read_bytes()).hexdigest()[:10] if p.is_file() else 'special'
                except OSError:
                    dg = 'unreadable'
                out.append(f'{p.relative_to(self.sp)} {dg}')
        return out


def rmtree(p: Path) -> None:
    shutil.rmtree(p, ignore_errors=True)
