"""Deterministic virtual-time asyncio loop + fake subprocesses for C12.

The real ``mesonbuild.mtest`` scheduling code (``mtest.run`` -> ``TestHarness.doit`` ->
``_run_tests`` -> ``SingleTestRunner.run`` -> ``TestSubprocess.wait``/``_kill``) is driven
unchanged; only the environment is replaced from outside:

* the event loop's clock is virtual: ``select()`` never blocks, it advances the clock to the
  next timer, so a run that "takes" seconds costs milliseconds and is exactly reproducible;
* ``asyncio.create_subprocess_exec`` returns a fake process that "runs" for the planned
  virtual duration and then exits with the planned status; ``os.killpg`` reaches the fake
  processes.

Every start/exit of a fake process is appended to ``World.events`` - these are the true
running intervals of the tests.
"""
from __future__ import annotations

import asyncio
import os
import selectors
import signal
import typing as T


class VirtualDeadlock(Exception):
    pass


class _VSelector:
    """Wraps the real selector: polls real fds without blocking and advances virtual time instead of sleeping."""

    def __init__(self, loop: 'VLoop', real: selectors.BaseSelector):
        self._loop = loop
        self._real = real

    def select(self, timeout: T.Optional[float] = None) -> T.List[T.Any]:
        ev = self._real.select(0)
        if ev:
            return ev
        if timeout is None:
            raise VirtualDeadlock('event loop would block forever (no timer, nothing ready)')
        if timeout > 0:
            self._loop._vtime += timeout
        return []

    def __getattr__(self, name: str) -> T.Any:
        return getattr(self._real, name)


class VLoop(asyncio.SelectorEventLoop):
    def __init__(self) -> None:
        super().__init__()
        self._vtime = 1000.0
        self._selector = _VSelector(self, self._selector)  # type: ignore[assignment]

    def time(self) -> float:
        return self._vtime


class VPolicy(asyncio.DefaultEventLoopPolicy):
    _loop_factory = VLoop  # type: ignore[assignment]


class FakeProc:
    def __init__(self, world: 'World', pid: int, key: T.Tuple[str, int], dur: float, code: int,
                 want_stdout: bool, want_stderr: bool):
        loop = asyncio.get_running_loop()
        self.world = world
        self.pid = pid
        self.key = key
        self.returncode: T.Optional[int] = None
        self.stdout = asyncio.StreamReader(loop=loop) if want_stdout else None
        self.stderr = asyncio.StreamReader(loop=loop) if want_stderr else None
        self._done: asyncio.Future = loop.create_future()
        self._timer = loop.call_later(dur, self._exit, code)

    def _exit(self, code: int) -> None:
        if self.returncode is not None:
            return
        self.returncode = code
        self._timer.cancel()
        self.world.events.append(('E', self.key[0], self.key[1]))
        if self.stdout is not None:
            self.stdout.feed_eof()
        if self.stderr is not None:
            self.stderr.feed_eof()
        if not self._done.done():
            self._done.set_result(code)

    async def wait(self) -> int:
        if self.returncode is None:
            await asyncio.shield(self._done)
        return T.cast(int, self.returncode)

    def signalled(self, sig: int) -> None:
        if self.returncode is None:
            # dies a little later, as a real process does
            asyncio.get_running_loop().call_later(self.world.kill_latency, self._exit, -sig)

    def kill(self) -> None:
        self.signalled(signal.SIGKILL)

    def terminate(self) -> None:
        self.signalled(signal.SIGTERM)

    def send_signal(self, sig: int) -> None:
        self.signalled(sig)


class World:
    """Plan and recorder for one virtual run.  plan[(name, iteration)] = (duration_s, exit, spawn_latency_s)."""

    def __init__(self, plan: T.Dict[T.Tuple[str, int], T.Tuple[float, int, float]], kill_latency: float = 0.001):
        self.plan = plan
        self.kill_latency = kill_latency
        self.events: T.List[T.Tuple[str, str, int]] = []
        self.procs: T.Dict[int, FakeProc] = {}
        self.next_pid = 500000
        self.unknown: T.List[T.List[str]] = []

    async def create_subprocess_exec(self, *args: str, stdin: T.Any = None, stdout: T.Any = None,
                                     stderr: T.Any = None, env: T.Optional[T.Dict[str, str]] = None,
                                     cwd: T.Any = None, **kw: T.Any) -> FakeProc:
        name = ''
        for a in args:
            if a.startswith('c12:'):
                name = a[4:]
        it = int((env or {}).get('MESON_TEST_ITERATION', '1'))
        key = (name, it)
        if key not in self.plan:
            self.unknown.append(list(args))
            dur, code, lat = 0.01, 0, 0.0
        else:
            dur, code, lat = self.plan[key]
        # forking takes a moment; a cancellation may arrive in it
        await asyncio.sleep(lat)
        self.next_pid += 1
        self.events.append(('S', name, it))
        p = FakeProc(self, self.next_pid, key, dur, code,
                     stdout == asyncio.subprocess.PIPE, stderr == asyncio.subprocess.PIPE)
        self.procs[p.pid] = p
        return p

    def killpg(self, pid: int, sig: int) -> None:
        p = self.procs.get(pid)
        if p is None:
            raise ProcessLookupError(pid)
        p.signalled(sig)


class installed:
    """Context manager: route asyncio/os through ``world`` and use the virtual loop."""

    def __init__(self, world: World):
        self.world = world

    def __enter__(self) -> World:
        self._cse = asyncio.create_subprocess_exec
        self._killpg = os.killpg
        self._policy = asyncio.get_event_loop_policy()
        asyncio.create_subprocess_exec = self.world.create_subprocess_exec  # type: ignore[assignment]
        os.killpg = self.world.killpg  # type: ignore[assignment]
        asyncio.set_event_loop_policy(VPolicy())
        return self.world

    def __exit__(self, *a: T.Any) -> None:
        asyncio.create_subprocess_exec = self._cse  # type: ignore[assignment]
        os.killpg = self._killpg
        asyncio.set_event_loop_policy(self._policy)
