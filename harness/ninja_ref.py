"""Independent reader of Ninja manifests (the environment model shared by C03, C04, C05, C15).

Written from the Ninja manual (sections "Ninja file reference", "Lexical syntax",
"Variables", "Evaluation and scoping", "Build statements", "Rule variables",
"The phony rule", "Default target statements", "Pools") - not from meson's
writer.  It deliberately shares no code with ``mesonbuild``.

What is implemented
-------------------
* lexing: comments (``#`` at the start of a line), blank lines, indentation
  (spaces only - a tab is an error), identifiers ``[a-zA-Z0-9_.-]+``;
* ``$``-escapes in paths and values: ``$$`` ``$ `` ``$:`` ``$name`` ``${name}``
  and ``$`` + newline (line continuation; leading blanks of the next line are
  skipped); any other ``$x`` is an error;
* declarations: ``rule``, ``build``, ``default``, ``pool``, top-level
  ``name = value``, ``include`` / ``subninja`` (resolved relative to the
  directory of the top manifest);
* ``build outs [| implicit outs]: rule ins [| implicit ins] [|| order-only] [|@ validations]``
  followed by an indented block of bindings;
* scoping: top-level bindings are expanded immediately; bindings of a build
  block are expanded immediately in the *file* scope; paths of the build line
  are expanded in the scope of the build block; rule bindings are kept
  unexpanded and are expanded per edge with the documented lookup order
  (``$in``/``$out``/``$in_newline``; build block; rule block; file; parent file);
* the built-in ``phony`` rule and ``console`` pool;
* path canonicalisation (``./``, ``a/../``, ``//``).

Structural questions (is the rule defined, is a path produced twice, is an
input produced or present, are there cycles) are *not* decided here: the reader
projects the manifest to plain data (``Manifest.to_json``) and the TLA+
specification ``specs/ninja/BuildGraph.tla`` decides them.  Only lexical /
syntactic problems are collected in ``Manifest.errors`` (the reader keeps going
after an error where that is possible so that one report shows all of them).

API
---
``parse_file(path) -> Manifest`` / ``parse_text(text, filename='build.ninja', basedir=None) -> Manifest``

``Manifest``: ``.rules`` (name -> ``Rule``; ``rule.bindings`` name -> unexpanded ``EvalString``),
``.edges`` (list of ``Edge`` in file order), ``.defaults`` (paths), ``.pools`` (name -> depth),
``.globals`` (top-level variables, final values), ``.errors`` (list of ``"file:line: message"``),
``.duplicate_rules``; ``.producers()`` path -> list of edge indices; ``.to_json(with_commands=False)``.

``Edge``: ``.rule`` (name), ``.outs`` ``.implicit_outs`` ``.ins`` ``.implicit_ins`` ``.order_only``
``.validations`` (canonical paths), ``.bindings`` (build-block variables, expanded), ``.lineno``,
``.get(var)`` -> expanded value with the full lookup order (``edge.get('command')``, ``'depfile'``,
``'rspfile'``, ``'rspfile_content'``, ``'description'``, ``'pool'``, ``'deps'``...), ``.command`` property,
``.all_ins()``, ``.all_outs()``, ``.is_phony``, ``.bound(var)`` (bound by the build block or the rule),
``.rsp_view()`` / ``.meta_view()`` (response-file view and special rule variables, projected as ``M.edge_rsp`` /
``M.edge_meta``; ``M.rule_meta`` holds the unexpanded rule-level values, ``M.pool_depths`` the depths of ``M.pools``).

``unescape(text)`` decodes a ``$``-escaped text without variables (used by C03);
``shell_escape(path)`` is how ``$in``/``$out`` quote a path for a POSIX shell.
"""
from __future__ import annotations

import os
import re
import typing as T

IDENT = re.compile(r'[a-zA-Z0-9_.-]+')
SIMPLE_VAR = re.compile(r'[a-zA-Z0-9_-]+')
RULE_VARS = frozenset({'command', 'depfile', 'dyndep', 'description', 'deps', 'generator', 'pool', 'restat',
                       'rspfile', 'rspfile_content', 'msvc_deps_prefix'})


class NinjaSyntaxError(Exception):
    pass


class EvalString:
    """A text with variable references: list of ('lit', text) / ('var', name)."""
    __slots__ = ('parts',)

    def __init__(self, parts: T.Optional[T.List[T.Tuple[str, str]]] = None):
        self.parts: T.List[T.Tuple[str, str]] = parts or []

    def add(self, kind: str, text: str) -> None:
        if kind == 'lit' and self.parts and self.parts[-1][0] == 'lit':
            self.parts[-1] = ('lit', self.parts[-1][1] + text)
        else:
            self.parts.append((kind, text))

    def evaluate(self, lookup: T.Callable[[str], str]) -> str:
        return ''.join(t if k == 'lit' else lookup(t) for k, t in self.parts)

    def variables(self) -> T.List[str]:
        return [t for k, t in self.parts if k == 'var']

    def unparsed(self) -> str:
        return ''.join(t if k == 'lit' else '${' + t + '}' for k, t in self.parts)

    def __bool__(self) -> bool:
        return bool(self.parts)

    def __repr__(self) -> str:
        return f'EvalString({self.parts!r})'


def canonicalize(path: str) -> str:
    """Ninja's path canonicalisation: drop '.', fold 'x/..', collapse '//'."""
    if not path:
        return path
    absolute = path.startswith('/')
    comps: T.List[str] = []
    for c in path.split('/'):
        if c == '' or c == '.':
            continue
        if c == '..':
            if comps and comps[-1] != '..':
                comps.pop()
            elif absolute:
                # ninja keeps going above the root the same way the kernel does: stays at root
                continue
            else:
                comps.append(c)
        else:
            comps.append(c)
    out = '/'.join(comps)
    if absolute:
        return '/' + out
    return out or '.'


_SHELL_SAFE = re.compile(r'^[a-zA-Z0-9_+\-./]*$')


def shell_escape(path: str) -> str:
    """How $in / $out quote one path for a POSIX shell."""
    if _SHELL_SAFE.match(path):
        return path
    return "'" + path.replace("'", "'\\''") + "'"


class Rule:
    def __init__(self, name: str, lineno: int = 0):
        self.name = name
        self.lineno = lineno
        self.bindings: T.Dict[str, EvalString] = {}

    def to_json(self) -> T.Dict[str, T.Any]:
        return {'name': self.name, 'vars': {k: v.unparsed() for k, v in self.bindings.items()}}


class Scope:
    def __init__(self, parent: T.Optional['Scope'] = None):
        self.vars: T.Dict[str, str] = {}
        self.parent = parent

    def lookup(self, name: str) -> str:
        s: T.Optional[Scope] = self
        while s is not None:
            if name in s.vars:
                return s.vars[name]
            s = s.parent
        return ''


class Edge:
    def __init__(self, manifest: 'Manifest', rule: str, scope: Scope, lineno: int, filename: str):
        self.manifest = manifest
        self.rule = rule
        self.file_scope = scope
        self.lineno = lineno
        self.filename = filename
        self.outs: T.List[str] = []
        self.implicit_outs: T.List[str] = []
        self.ins: T.List[str] = []
        self.implicit_ins: T.List[str] = []
        self.order_only: T.List[str] = []
        self.validations: T.List[str] = []
        self.bindings: T.Dict[str, str] = {}

    @property
    def is_phony(self) -> bool:
        return self.rule == 'phony'

    def all_ins(self) -> T.List[str]:
        return self.ins + self.implicit_ins + self.order_only

    def all_outs(self) -> T.List[str]:
        return self.outs + self.implicit_outs

    def get(self, var: str, _stack: T.Optional[T.List[str]] = None) -> str:
        """Expanded value of ``var`` for this edge: $in/$out, build block, rule block (late), file scopes."""
        if var == 'in':
            return ' '.join(shell_escape(p) for p in self.ins)
        if var == 'in_newline':
            return '\n'.join(shell_escape(p) for p in self.ins)
        if var == 'out':
            return ' '.join(shell_escape(p) for p in self.outs)
        if var in self.bindings:
            return self.bindings[var]
        rule = self.manifest.rules.get(self.rule)
        if rule is not None and var in rule.bindings:
            stack = _stack or []
            if var in stack:
                raise NinjaSyntaxError('cycle in rule variables: ' + ' -> '.join(stack + [var]))
            return rule.bindings[var].evaluate(lambda v: self.get(v, stack + [var]))
        return self.file_scope.lookup(var)

    @property
    def command(self) -> str:
        return '' if self.is_phony else self.get('command')

    def bound(self, var: str) -> bool:
        """Is ``var`` bound for this edge by its build block or by its rule (whatever it expands to)."""
        if var in self.bindings:
            return True
        rule = self.manifest.rules.get(self.rule)
        return rule is not None and var in rule.bindings

    def rsp_view(self) -> T.Dict[str, T.Any]:
        """Response-file view of the statement ("Rule variables": rspfile, rspfile_content): ninja writes a
        response file iff ``rspfile`` expands to a non-empty path; is there content for it; does the expanded
        command name the file; the two expanded lengths."""
        try:
            cmd = self.command
            rspfile = self.get('rspfile')
            content = self.get('rspfile_content')
        except NinjaSyntaxError:
            cmd = rspfile = content = ''
        return {'file': rspfile != '', 'content': content != '' or self.bound('rspfile_content'),
                'used': rspfile != '' and rspfile in cmd, 'cmdlen': len(cmd), 'rsplen': len(content)}

    def meta_view(self) -> T.Dict[str, T.Any]:
        """The special rule variables of the statement, expanded ("Rule variables": deps, depfile, generator,
        restat - the last two are booleans: present and non-empty)."""
        try:
            return {'deps': self.get('deps'), 'depfile': self.get('depfile'),
                    'generator': self.get('generator') != '', 'restat': self.get('restat') != ''}
        except NinjaSyntaxError:
            return {'deps': '', 'depfile': '', 'generator': False, 'restat': False}

    def to_json(self, with_commands: bool = False) -> T.Dict[str, T.Any]:
        d: T.Dict[str, T.Any] = {
            'rule': self.rule, 'line': self.lineno,
            'ins': list(self.ins), 'imp': list(self.implicit_ins), 'ord': list(self.order_only),
            'outs': list(self.outs), 'iouts': list(self.implicit_outs),
        }
        if with_commands:
            d['vars'] = dict(self.bindings)
            try:
                d['command'] = self.command
            except NinjaSyntaxError as e:
                d['command'] = ''
                d['command_error'] = str(e)
            d['validations'] = list(self.validations)
        return d


class Manifest:
    def __init__(self) -> None:
        self.rules: T.Dict[str, Rule] = {}
        self.edges: T.List[Edge] = []
        self.defaults: T.List[str] = []
        self.pools: T.Dict[str, int] = {'console': 1}
        self.globals: T.Dict[str, str] = {}
        self.errors: T.List[str] = []
        self.duplicate_rules: T.List[str] = []
        self.duplicate_pools: T.List[str] = []

    def producers(self) -> T.Dict[str, T.List[int]]:
        out: T.Dict[str, T.List[int]] = {}
        for i, e in enumerate(self.edges):
            for p in e.all_outs():
                out.setdefault(p, []).append(i)
        return out

    def to_json(self, with_commands: bool = False) -> T.Dict[str, T.Any]:
        """The projection M used by the TLA+ specs (uniform field types, every field always present)."""
        m: T.Dict[str, T.Any] = {
            'rules': sorted(self.rules),
            'dup_rules': list(self.duplicate_rules),
            'pools': sorted(self.pools),
            'edges': [e.to_json(with_commands) for e in self.edges],
            'edge_pools': [e.get('pool') for e in self.edges],
            'edge_rsp': [e.rsp_view() for e in self.edges],
            'edge_meta': [e.meta_view() for e in self.edges],
            'rule_meta': [{'name': n, **{v: (r.bindings[v].unparsed() if v in r.bindings else '')
                                         for v in ('deps', 'depfile', 'restat', 'generator', 'pool', 'description')}}
                          for n, r in sorted(self.rules.items())],
            'pool_depths': [self.pools[n] for n in sorted(self.pools)],
            'defaults': list(self.defaults),
            'errors': list(self.errors),
        }
        if with_commands:
            m['rule_vars'] = {r.name: r.to_json()['vars'] for r in self.rules.values()}
            m['globals'] = dict(self.globals)
        return m


class _Parser:
    def __init__(self, manifest: Manifest, text: str, filename: str, basedir: T.Optional[str], scope: Scope,
                 depth: int = 0):
        self.m = manifest
        self.s = text
        self.i = 0
        self.line = 1
        self.filename = filename
        self.basedir = basedir
        self.scope = scope
        self.depth = depth

    # -- error handling -----------------------------------------------------
    def error(self, msg: str, line: T.Optional[int] = None) -> None:
        self.m.errors.append(f'{self.filename}:{line or self.line}: {msg}')

    def skip_to_eol(self) -> None:
        """Error recovery: skip the rest of the logical line."""
        while self.i < len(self.s):
            c = self.s[self.i]
            if c == '$' and self.s.startswith('\n', self.i + 1):
                self.i += 2
                self.line += 1
                continue
            if c == '$' and self.s.startswith('\r\n', self.i + 1):
                self.i += 3
                self.line += 1
                continue
            self.i += 1
            if c == '\n':
                self.line += 1
                return

    # -- low-level lexing ---------------------------------------------------
    def eat_ws(self) -> None:
        """Blanks and line continuations between tokens."""
        s = self.s
        while self.i < len(s):
            if s[self.i] == ' ':
                self.i += 1
            elif s.startswith('$\n', self.i):
                self.i += 2
                self.line += 1
            elif s.startswith('$\r\n', self.i):
                self.i += 3
                self.line += 1
            else:
                break

    def at_eol(self) -> bool:
        return self.i >= len(self.s) or self.s[self.i] == '\n' or self.s.startswith('\r\n', self.i)

    def eat_eol(self) -> bool:
        if self.i >= len(self.s):
            return True
        if self.s[self.i] == '\n':
            self.i += 1
            self.line += 1
            return True
        if self.s.startswith('\r\n', self.i):
            self.i += 2
            self.line += 1
            return True
        return False

    def ident(self) -> T.Optional[str]:
        m = IDENT.match(self.s, self.i)
        if not m:
            return None
        self.i = m.end()
        self.eat_ws()
        return m.group(0)

    def read_eval(self, path: bool) -> EvalString:
        """Read a $-escaped text.  path=True stops at blank, ':', '|' and newline; otherwise at newline."""
        s = self.s
        ev = EvalString()
        while True:
            if self.i >= len(s):
                if not path:
                    # the manual requires every declaration to end with a newline; an unterminated last
                    # line is tolerated by ninja only for paths.  Be strict: record it.
                    self.error('unexpected EOF')
                break
            c = s[self.i]
            if c == '\n' or (c == '\r' and s.startswith('\r\n', self.i)):
                if not path:
                    self.eat_eol()
                break
            if c == '\r':
                self.error('carriage return without newline')
                self.i += 1
                continue
            if path and c in ' :|':
                break
            if c == '$':
                n = s[self.i + 1] if self.i + 1 < len(s) else ''
                if n == '$':
                    ev.add('lit', '$')
                    self.i += 2
                elif n == ' ':
                    ev.add('lit', ' ')
                    self.i += 2
                elif n == ':':
                    ev.add('lit', ':')
                    self.i += 2
                elif n == '\n' or s.startswith('\r\n', self.i + 1):
                    self.i += 2 if n == '\n' else 3
                    self.line += 1
                    while self.i < len(s) and s[self.i] == ' ':
                        self.i += 1
                elif n == '{':
                    m = IDENT.match(s, self.i + 2)
                    if not m or not s.startswith('}', m.end()):
                        self.error('bad $-escape (expected ${varname})')
                        self.i += 2
                    else:
                        ev.add('var', m.group(0))
                        self.i = m.end() + 1
                else:
                    m = SIMPLE_VAR.match(s, self.i + 1)
                    if m:
                        ev.add('var', m.group(0))
                        self.i = m.end()
                    else:
                        self.error('bad $-escape (literal $ must be written as $$)')
                        self.i += 1
                continue
            # literal run
            j = self.i
            stop = '$\n\r :|' if path else '$\n\r'
            while j < len(s) and s[j] not in stop:
                j += 1
            if j == self.i:  # a lone '\r' handled above; anything else is literal
                j += 1
            ev.add('lit', s[self.i:j])
            self.i = j
        if path:
            self.eat_ws()
        return ev

    # -- declarations -------------------------------------------------------
    def parse(self) -> None:
        s = self.s
        while self.i < len(s):
            # start of a line
            j = self.i
            while j < len(s) and s[j] == ' ':
                j += 1
            if j < len(s) and s[j] == '#':
                self.i = j
                while self.i < len(s) and s[self.i] != '\n':
                    self.i += 1
                self.eat_eol()
                continue
            if j >= len(s):
                break
            if s[j] == '\n' or s.startswith('\r\n', j):
                self.i = j
                self.eat_eol()
                continue
            if s[j] == '\t':
                self.error('tabs are not allowed, use spaces')
                self.i = j
                self.skip_to_eol()
                continue
            if j > self.i:
                self.error('unexpected indent')
                self.i = j
                self.skip_to_eol()
                continue
            line = self.line
            word = self.ident()
            if word is None:
                self.error(f'unexpected character {s[self.i]!r}')
                self.skip_to_eol()
                continue
            if not self.at_eol() and s[self.i] == '=':
                self.i += 1
                self.eat_ws()
                val = self.read_eval(False)
                value = val.evaluate(self.scope.lookup)
                self.scope.vars[word] = value
                if self.depth == 0:
                    self.m.globals[word] = value
                continue
            if word == 'rule':
                self.parse_rule(line)
            elif word == 'build':
                self.parse_build(line)
            elif word == 'default':
                self.parse_default(line)
            elif word == 'pool':
                self.parse_pool(line)
            elif word in ('include', 'subninja'):
                self.parse_include(word, line)
            else:
                self.error(f"unexpected identifier '{word}' (expected a declaration or 'name = value')", line)
                self.skip_to_eol()

    def indented_bindings(self) -> T.Iterator[T.Tuple[str, EvalString, int]]:
        """Indented 'name = value' lines following a declaration (comments and blank lines in between
        are allowed by the lexer)."""
        s = self.s
        while self.i < len(s):
            j = self.i
            while j < len(s) and s[j] == ' ':
                j += 1
            if j < len(s) and s[j] == '#':
                k = j
                while k < len(s) and s[k] != '\n':
                    k += 1
                self.i = k
                self.eat_eol()
                continue
            if j < len(s) and (s[j] == '\n' or s.startswith('\r\n', j)):
                self.i = j
                self.eat_eol()
                continue
            if j == self.i or j >= len(s):
                return
            if s[j] == '\t':
                self.error('tabs are not allowed, use spaces')
                self.i = j
                self.skip_to_eol()
                continue
            self.i = j
            line = self.line
            name = self.ident()
            if name is None or self.at_eol() or s[self.i] != '=':
                self.error("expected 'name = value' in an indented block", line)
                self.skip_to_eol()
                continue
            self.i += 1
            self.eat_ws()
            yield name, self.read_eval(False), line

    def parse_rule(self, line: int) -> None:
        name = self.ident()
        if name is None:
            self.error('expected rule name')
            self.skip_to_eol()
            return
        if not self.eat_eol():
            self.error('expected newline after rule name')
            self.skip_to_eol()
        rule = Rule(name, line)
        for var, val, ln in self.indented_bindings():
            if var not in RULE_VARS:
                self.error(f"unexpected variable '{var}' in rule '{name}'", ln)
                continue
            rule.bindings[var] = val
        if ('rspfile' in rule.bindings) != ('rspfile_content' in rule.bindings):
            self.error(f"rule '{name}': rspfile and rspfile_content need to be both specified", line)
        if 'command' not in rule.bindings:
            self.error(f"rule '{name}': expected 'command =' line", line)
        if name in self.m.rules or name == 'phony':
            self.m.duplicate_rules.append(name)
            return
        self.m.rules[name] = rule

    def parse_pool(self, line: int) -> None:
        name = self.ident()
        if name is None:
            self.error('expected pool name')
            self.skip_to_eol()
            return
        if not self.eat_eol():
            self.error('expected newline after pool name')
            self.skip_to_eol()
        depth: T.Optional[int] = None
        for var, val, ln in self.indented_bindings():
            if var != 'depth':
                self.error(f"unexpected variable '{var}' in pool '{name}'", ln)
                continue
            txt = val.evaluate(self.scope.lookup)
            try:
                depth = int(txt)
                if depth < 0:
                    raise ValueError
            except ValueError:
                self.error(f"invalid pool depth '{txt}'", ln)
        if depth is None:
            self.error(f"pool '{name}': expected 'depth =' line", line)
            depth = 0
        if name in self.m.pools:
            self.m.duplicate_pools.append(name)
            self.error(f"duplicate pool '{name}'", line)
            return
        self.m.pools[name] = depth

    def path_list(self) -> T.List[EvalString]:
        out = []
        while True:
            ev = self.read_eval(True)
            if not ev:
                return out
            out.append(ev)

    def parse_build(self, line: int) -> None:
        s = self.s
        outs = self.path_list()
        iouts: T.List[EvalString] = []
        if s.startswith('|', self.i) and not s.startswith('||', self.i):
            self.i += 1
            self.eat_ws()
            iouts = self.path_list()
        if not outs and not iouts:
            self.error('expected path (a build statement needs at least one output)', line)
        if not s.startswith(':', self.i):
            self.error("expected ':' after the outputs of a build statement", line)
            self.skip_to_eol()
            return
        self.i += 1
        self.eat_ws()
        rule = self.ident()
        if rule is None:
            self.error('expected build command name', line)
            self.skip_to_eol()
            return
        ins = self.path_list()
        imps: T.List[EvalString] = []
        ords: T.List[EvalString] = []
        vals: T.List[EvalString] = []
        if s.startswith('|', self.i) and not s.startswith('||', self.i) and not s.startswith('|@', self.i):
            self.i += 1
            self.eat_ws()
            imps = self.path_list()
        if s.startswith('||', self.i):
            self.i += 2
            self.eat_ws()
            ords = self.path_list()
        if s.startswith('|@', self.i):
            self.i += 2
            self.eat_ws()
            vals = self.path_list()
        if not self.eat_eol():
            self.error(f'expected newline at the end of the build statement, got {s[self.i:self.i + 10]!r}', line)
            self.skip_to_eol()
        edge = Edge(self.m, rule, self.scope, line, self.filename)
        for var, val, _ln in self.indented_bindings():
            # bindings of a build block are expanded immediately, in the scope of the file
            edge.bindings[var] = val.evaluate(self.scope.lookup)

        def look(v: str) -> str:
            # paths of the build line see the build block, then the file scope
            if v in edge.bindings:
                return edge.bindings[v]
            return self.scope.lookup(v)

        def paths(evs: T.List[EvalString], what: str) -> T.List[str]:
            res = []
            for ev in evs:
                p = ev.evaluate(look)
                if p == '':
                    self.error(f'empty path in {what}', line)
                    continue
                res.append(canonicalize(p))
            return res

        edge.outs = paths(outs, 'outputs')
        edge.implicit_outs = paths(iouts, 'implicit outputs')
        edge.ins = paths(ins, 'inputs')
        edge.implicit_ins = paths(imps, 'implicit inputs')
        edge.order_only = paths(ords, 'order-only inputs')
        edge.validations = paths(vals, 'validations')
        self.m.edges.append(edge)

    def parse_default(self, line: int) -> None:
        evs = self.path_list()
        if not evs:
            self.error('expected target name after default', line)
        if not self.eat_eol():
            self.error('expected newline after default targets', line)
            self.skip_to_eol()
        for ev in evs:
            p = ev.evaluate(self.scope.lookup)
            if p == '':
                self.error('empty path in default', line)
                continue
            self.m.defaults.append(canonicalize(p))

    def parse_include(self, word: str, line: int) -> None:
        ev = self.read_eval(True)
        if not self.eat_eol():
            self.error(f'expected newline after {word} path', line)
            self.skip_to_eol()
        path = ev.evaluate(self.scope.lookup)
        if self.depth > 16:
            self.error(f'{word} nesting too deep', line)
            return
        full = os.path.join(self.basedir, path) if self.basedir is not None else path
        try:
            with open(full, encoding='utf-8', errors='surrogateescape', newline='') as f:
                text = f.read()
        except OSError as e:
            self.error(f'{word} {path}: {e.strerror}', line)
            return
        scope = Scope(self.scope) if word == 'subninja' else self.scope
        _Parser(self.m, text, path, self.basedir, scope, self.depth + 1).parse()


def parse_text(text: str, filename: str = 'build.ninja', basedir: T.Optional[str] = None) -> Manifest:
    m = Manifest()
    if '\x00' in text:
        m.errors.append(f'{filename}:0: NUL byte in manifest')
        text = text.replace('\x00', '')
    _Parser(m, text, filename, basedir, Scope()).parse()
    return m


def parse_file(path: T.Union[str, os.PathLike]) -> Manifest:
    path = os.fspath(path)
    with open(path, encoding='utf-8', errors='surrogateescape', newline='') as f:
        text = f.read()
    return parse_text(text, os.path.basename(path), os.path.dirname(os.path.abspath(path)))


def unescape(text: str) -> str:
    """Decode a $-escaped text that contains no variable references (raises if it does)."""
    m = Manifest()
    p = _Parser(m, text + '\n', '<text>', None, Scope())
    ev = p.read_eval(False)
    if m.errors:
        raise NinjaSyntaxError(m.errors[0])
    if ev.variables():
        raise NinjaSyntaxError('variable reference in text: ' + ev.variables()[0])
    return ev.evaluate(lambda v: '')


if __name__ == '__main__':
    import json
    import sys
    man = parse_file(sys.argv[1])
    json.dump(man.to_json(with_commands=True), sys.stdout, indent=1)
    sys.stdout.write('\n')
