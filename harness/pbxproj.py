"""Reader for Xcode ``project.pbxproj`` files (old-style ASCII property lists) and the projection of the
object graph to the plain data the TLA+ specifications of ``specs/xcode`` judge (X05).

This module is *projection only*: it computes no verdicts.  It is written from the description of the
format ("Old-Style ASCII Property Lists" in Apple's Property List Programming Guide: dictionaries
``{ key = value; }``, arrays ``( v, v, )``, quoted strings with backslash escapes, unquoted strings made of
alphanumerics and ``_ $ / : . -`` only, ``/* */`` and ``//`` comments) - not from meson's writer.

``parse_text(text) -> (value, errors)``     value: dict -> list of (key, value) pairs (duplicates kept),
                                            array -> list, string -> ``Str`` (str subclass; ``.quoted``)
``project(text, srcdir, builddir) -> G``    the object graph:
    {'root': id, 'errors': [str],
     'objs': [ {'id', 'isa', 'refs': [{'k','v'}], 'attrs': [{'k','v'}], 'dig'} ]   # file order, duplicates kept
    }
  refs  = every scalar leaf that looks like an object id (24 hex digits), with its key path;
  attrs = the scalar leaves the specifications read (names, types, paths) plus derived, purely
          path-normalising attributes (``loc`` of a file reference, ``subdir`` of a build configuration,
          ``out`` of a shell phase), see ``ATTR_KEYS``;
  dig   = digest of the complete object with every id replaced by ``#`` (used for the comparison of two
          configurations modulo renaming of ids).
``match_graphs(G1, G2) -> [[id1, id2], ...]``  a candidate renaming found by colour refinement (a witness
    that TLC checks; nothing is concluded from it here).
"""
from __future__ import annotations

import hashlib
import json
import os
import re
import typing as T

ID_RE = re.compile(r'^[0-9A-F]{24}$')
UNQUOTED_OK = set('abcdefghijklmnopqrstuvwxyzABCDEFGHIJKLMNOPQRSTUVWXYZ0123456789_$/:.-')
ESCAPES = {'a': '\a', 'b': '\b', 'f': '\f', 'n': '\n', 'r': '\r', 't': '\t', 'v': '\v', '"': '"', '\\': '\\', "'": "'",
           '\n': '\n'}

# scalar leaves copied into ``attrs`` (key path as written in the file)
ATTR_KEYS = {'name', 'productName', 'productType', 'path', 'sourceTree', 'remoteInfo', 'proxyType',
             'defaultConfigurationName', 'explicitFileType', 'lastKnownFileType',
             'buildSettings.PRODUCT_NAME'}


class Str(str):
    quoted = False


class _Parser:
    def __init__(self, text: str):
        self.s = text
        self.i = 0
        self.n = len(text)
        self.errors: T.List[T.Dict[str, str]] = []
        self.ctx: T.List[str] = []        # key path of the value being parsed
        self.isa = ''                     # isa of the enclosing object (filled by a pre-scan of the dictionary)
        self.fatal = False

    # -- errors
    def err(self, kind: str, chars: str = '') -> None:
        if len(self.errors) < 200:
            where = '.'.join(x for x in self.ctx[1:] if x) if self.ctx[:1] == ['objects'] else '.'.join(self.ctx)
            # inside `objects` the first component is the object id: replace by the isa
            if self.ctx[:1] == ['objects']:
                where = (self.isa or '?') + (('.' + '.'.join(self.ctx[2:])) if len(self.ctx) > 2 else '')
            self.errors.append({'kind': kind, 'chars': chars, 'where': where,
                                'line': str(self.s.count('\n', 0, self.i) + 1)})

    # -- lexing
    def ws(self) -> None:
        s, n = self.s, self.n
        while self.i < n:
            c = s[self.i]
            if c in ' \t\r\n':
                self.i += 1
            elif c == '/' and s.startswith('/*', self.i):
                j = s.find('*/', self.i + 2)
                if j < 0:
                    self.err('unterminated-comment')
                    self.i = n
                else:
                    self.i = j + 2
            elif c == '/' and s.startswith('//', self.i):
                j = s.find('\n', self.i)
                self.i = n if j < 0 else j + 1
            else:
                return

    def quoted(self) -> Str:
        s = self.s
        assert s[self.i] == '"'
        j = self.i + 1
        buf: T.List[str] = []
        while True:
            if j >= self.n:
                self.err('unterminated-string')
                self.fatal = True
                break
            c = s[j]
            if c == '"':
                j += 1
                break
            if c == '\\':
                j += 1
                if j >= self.n:
                    continue
                e = s[j]
                if e in '01234567':
                    m = re.compile(r'[0-7]{1,3}').match(s, j)
                    assert m is not None
                    buf.append(chr(int(m.group(0), 8)))
                    j = m.end()
                    continue
                if e == 'U':
                    m = re.compile(r'U[0-9a-fA-F]{4}').match(s, j)
                    if m:
                        buf.append(chr(int(m.group(0)[1:], 16)))
                        j = m.end()
                        continue
                buf.append(ESCAPES.get(e, e))
                j += 1
                continue
            buf.append(c)
            j += 1
        self.i = j
        r = Str(''.join(buf))
        r.quoted = True
        return r

    def unquoted(self) -> Str:
        s = self.s
        j = self.i
        while j < self.n and s[j] in UNQUOTED_OK:
            j += 1
        r = Str(s[self.i:j])
        self.i = j
        return r

    def raw_until(self, stops: str) -> str:
        """Recovery: the raw text up to (not including) the next stop character followed by end of line,
        or any stop character if none ends a line."""
        s = self.s
        j = self.i
        while j < self.n:
            if s[j] == '\n':
                break
            if s[j] in stops:
                k = j + 1
                while k < self.n and s[k] in ' \t\r':
                    k += 1
                if k >= self.n or s[k] == '\n':
                    break
            j += 1
        r = s[self.i:j]
        self.i = j
        return r

    # -- grammar
    def value(self) -> T.Any:
        self.ws()
        if self.i >= self.n:
            self.err('unexpected-end')
            self.fatal = True
            return Str('')
        c = self.s[self.i]
        if c == '{':
            return self.dict_()
        if c == '(':
            return self.array()
        if c == '"':
            return self.quoted()
        if c == '<':
            j = self.s.find('>', self.i)
            j = self.n if j < 0 else j + 1
            r = Str(self.s[self.i:j])
            self.i = j
            return r
        if c in UNQUOTED_OK:
            return self.unquoted()
        return Str('')      # the caller reports what follows

    def scalar_tail(self, v: T.Any, stops: str) -> T.Any:
        """After a value: anything but a terminator means the scalar was written without the quotes it needs."""
        end = self.i
        self.ws()
        if self.i < self.n and self.s[self.i] in stops:
            return v
        if self.i >= self.n:
            return v
        self.i = end
        raw = self.raw_until(stops)       # original text (with its blanks) up to the terminator
        if not isinstance(v, str):
            self.err('garbage-after-value', ''.join(sorted(set(raw) - UNQUOTED_OK - set(' \t')))[:40])
            return v
        whole = str(v) + raw
        bad = ''.join(sorted(set(whole) - UNQUOTED_OK))
        self.err('quoted-string-continues' if getattr(v, 'quoted', False) else 'unquoted-special', bad[:40])
        return Str(whole.rstrip())

    def dict_(self) -> T.List[T.Tuple[str, T.Any]]:
        assert self.s[self.i] == '{'
        self.i += 1
        out: T.List[T.Tuple[str, T.Any]] = []
        # pre-scan for isa when this dictionary is an object
        is_obj = len(self.ctx) == 2 and self.ctx[0] == 'objects'
        if is_obj:
            m = re.compile(r'\s*isa\s*=\s*"?([A-Za-z]+)"?\s*;').match(self.s, self.i)
            self.isa = m.group(1) if m else '?'
        while not self.fatal:
            self.ws()
            if self.i >= self.n:
                self.err('unterminated-dictionary')
                self.fatal = True
                break
            if self.s[self.i] == '}':
                self.i += 1
                break
            k = self.value()
            if not isinstance(k, str) or (k == '' and not getattr(k, 'quoted', False)):
                self.err('bad-key', self.s[self.i:self.i + 1])
                self.raw_until(';')
                if self.i < self.n and self.s[self.i] == ';':
                    self.i += 1
                elif self.i < self.n:
                    self.i += 1
                continue
            self.ws()
            if self.i < self.n and self.s[self.i] == '=':
                self.i += 1
            else:
                self.ctx.append(str(k))
                self.err('missing-equals', self.s[self.i:self.i + 1])
                self.ctx.pop()
                self.raw_until(';')
                if self.i < self.n and self.s[self.i] == ';':
                    self.i += 1
                continue
            self.ctx.append(str(k))
            v = self.value()
            v = self.scalar_tail(v, ';')
            self.ctx.pop()
            if self.i < self.n and self.s[self.i] == ';':
                self.i += 1
            out.append((str(k), v))
        return out

    def array(self) -> T.List[T.Any]:
        assert self.s[self.i] == '('
        self.i += 1
        out: T.List[T.Any] = []
        while not self.fatal:
            self.ws()
            if self.i >= self.n:
                self.err('unterminated-array')
                self.fatal = True
                break
            if self.s[self.i] == ')':
                self.i += 1
                break
            v = self.value()
            v = self.scalar_tail(v, ',)')
            out.append(v)
            if self.i < self.n and self.s[self.i] == ',':
                self.i += 1
            elif self.i < self.n and self.s[self.i] == ')':
                continue
            elif self.i < self.n:
                self.i += 1     # newline reached in recovery
        return out


def parse_text(text: str) -> T.Tuple[T.Any, T.List[T.Dict[str, str]]]:
    p = _Parser(text)
    p.ws()
    if p.i >= p.n or p.s[p.i] != '{':
        p.err('not-a-dictionary')
        return [], p.errors
    v = p.dict_()
    p.ws()
    if p.i < p.n and not p.fatal:
        p.err('trailing-text')
    return v, p.errors


# ---------------------------------------------------------------------------
# projection


def _get(d: T.List[T.Tuple[str, T.Any]], key: str) -> T.Any:
    for k, v in d:
        if k == key:
            return v
    return None


def _leaves(v: T.Any, path: str) -> T.Iterator[T.Tuple[str, str]]:
    if isinstance(v, str):
        yield path, str(v)
    elif isinstance(v, list) and v and all(isinstance(x, tuple) for x in v):
        for k, x in v:
            yield from _leaves(x, f'{path}.{k}' if path else k)
    elif isinstance(v, list):
        for x in v:
            yield from _leaves(x, path)


def _canon(v: T.Any) -> T.Any:
    if isinstance(v, str):
        return '#' if ID_RE.match(v) else str(v)
    if isinstance(v, list) and v and all(isinstance(x, tuple) for x in v):
        return {'d': [[k, _canon(x)] for k, x in v]}
    if isinstance(v, list):
        return [_canon(x) for x in v]
    return v


def _rel(path: str, base: str) -> T.Optional[str]:
    """``path`` relative to ``base`` when it lies below it ('' for base itself), else None."""
    path = os.path.normpath(path)
    base = os.path.normpath(base)
    if path == base:
        return ''
    if path.startswith(base.rstrip('/') + '/'):
        return path[len(base.rstrip('/')) + 1:]
    return None


def locate(path: str, tree: str, srcdir: str, builddir: str) -> str:
    """Where a file reference points: @src/<rel>, @build/<rel>, @products/<path>, @<tree>/<path>."""
    if tree in ('SOURCE_ROOT', '<group>', 'BUILD_ROOT', '<absolute>'):
        base = builddir if tree == 'BUILD_ROOT' else srcdir
        full = path if os.path.isabs(path) else os.path.join(base, path)
        # the build directory may lie inside the source directory: test it first
        r = _rel(full, builddir)
        if r is not None:
            return '@build/' + r
        r = _rel(full, srcdir)
        if r is not None:
            return '@src/' + r
        return '@abs/' + os.path.normpath(full)
    if tree == 'BUILT_PRODUCTS_DIR':
        return '@products/' + path
    return f'@{tree}/{path}'


def project(text: str, srcdir: str, builddir: str) -> T.Dict[str, T.Any]:
    top, errs = parse_text(text)
    # one error class per (kind, place): the characters of all offending values of that place together
    classes: T.Dict[T.Tuple[str, str], T.Set[str]] = {}
    for e in errs:
        classes.setdefault((e['kind'], e['where']), set()).update(e['chars'])
    errors = sorted(f"{k}[{''.join(sorted(cs))}]@{w}" for (k, w), cs in classes.items())
    G: T.Dict[str, T.Any] = {'root': '', 'errors': errors, 'objs': [], 'error_lines': [e['line'] for e in errs][:20]}
    if not isinstance(top, list):
        return G
    root = _get(top, 'rootObject')
    G['root'] = str(root) if isinstance(root, str) else ''
    objects = _get(top, 'objects')
    if not (isinstance(objects, list) and all(isinstance(x, tuple) for x in objects)):
        if 'no-objects-dictionary[]@' not in errors:
            G['errors'] = errors + ['no-objects-dictionary[]@']
        return G
    for oid, body in objects:
        if not (isinstance(body, list) and all(isinstance(x, tuple) for x in body)):
            G['objs'].append({'id': oid, 'isa': '', 'refs': [], 'attrs': [], 'dig': ''})
            continue
        isa = _get(body, 'isa')
        isa = str(isa) if isinstance(isa, str) else ''
        refs: T.List[T.Dict[str, str]] = []
        attrs: T.List[T.Dict[str, str]] = []
        for k, v in body:
            if k == 'isa':
                continue
            for path, leaf in _leaves(v, k):
                if ID_RE.match(leaf):
                    refs.append({'k': path, 'v': leaf})
                elif path in ATTR_KEYS:
                    attrs.append({'k': path, 'v': leaf})
        if isa == 'PBXFileReference':
            pth = _get(body, 'path')
            tree = _get(body, 'sourceTree')
            if isinstance(pth, str) and isinstance(tree, str):
                attrs.append({'k': 'loc', 'v': locate(str(pth), str(tree), srcdir, builddir)})
        if isa == 'XCBuildConfiguration':
            bs = _get(body, 'buildSettings')
            bd = _get(bs, 'BUILD_DIR') if isinstance(bs, list) and all(isinstance(x, tuple) for x in bs) else None
            if isinstance(bd, str):
                r = _rel(str(bd), builddir)
                attrs.append({'k': 'subdir', 'v': ('@build/' + r) if r is not None else '@abs/' + str(bd)})
        if isa == 'PBXShellScriptBuildPhase':
            ops = _get(body, 'outputPaths')
            if isinstance(ops, list):
                for o in ops:
                    if isinstance(o, str):
                        r = _rel(str(o), builddir) if os.path.isabs(str(o)) else os.path.normpath(str(o))
                        attrs.append({'k': 'out', 'v': ('@build/' + r) if r is not None else '@abs/' + str(o)})
        dig = hashlib.sha1(json.dumps(_canon(body), sort_keys=False, ensure_ascii=True).encode()).hexdigest()[:16]
        G['objs'].append({'id': oid, 'isa': isa, 'refs': refs, 'attrs': attrs, 'dig': dig})
    return G


# ---------------------------------------------------------------------------
# renaming witness for the determinism clause


def match_graphs(G1: T.Dict[str, T.Any], G2: T.Dict[str, T.Any]) -> T.List[T.List[str]]:
    """Candidate bijection between the ids of two object graphs (colour refinement with individualisation).
    Only a witness: TLC checks that it is a bijection under which the graphs are equal."""

    def colours(G: T.Dict[str, T.Any], fixed: T.Dict[str, str]) -> T.Dict[str, str]:
        objs = {o['id']: o for o in G['objs']}
        incoming: T.Dict[str, T.List[T.Tuple[str, str, int]]] = {}
        for o in G['objs']:
            for n, r in enumerate(o['refs']):
                incoming.setdefault(r['v'], []).append((o['id'], r['k'], n))
        col = {i: fixed.get(i) or hashlib.sha1(f"{o['isa']}|{o['dig']}|{int(i == G['root'])}".encode()).hexdigest()
               for i, o in objs.items()}
        for _ in range(40):
            new = {}
            for i, o in objs.items():
                out = [(r['k'], col.get(r['v'], 'undef')) for r in o['refs']]
                inc = sorted((col[a], k, n) for a, k, n in incoming.get(i, []))
                new[i] = hashlib.sha1(json.dumps([col[i], out, inc]).encode()).hexdigest()
            if len(set(new.values())) == len(set(col.values())):
                col = new
                break
            col = new
        return col

    fixed1: T.Dict[str, str] = {}
    fixed2: T.Dict[str, str] = {}
    for round_ in range(50):
        c1 = colours(G1, fixed1)
        c2 = colours(G2, fixed2)
        by1: T.Dict[str, T.List[str]] = {}
        by2: T.Dict[str, T.List[str]] = {}
        for o in G1['objs']:
            by1.setdefault(c1[o['id']], []).append(o['id'])
        for o in G2['objs']:
            by2.setdefault(c2[o['id']], []).append(o['id'])
        amb = [c for c, ids in by1.items() if len(ids) > 1 and len(by2.get(c, [])) == len(ids)]
        if not amb:
            break
        # individualise one member of the first ambiguous class (file order decides; any choice is an automorphism
        # if the graphs are isomorphic)
        c = sorted(amb)[0]
        tag = f'ind{round_}'
        fixed1[by1[c][0]] = tag
        fixed2[by2[c][0]] = tag
    pairs: T.List[T.List[str]] = []
    used2: T.Set[str] = set()
    for o in G1['objs']:
        cands = [x for x in by2.get(c1[o['id']], []) if x not in used2]
        if cands:
            used2.add(cands[0])
            pairs.append([o['id'], cands[0]])
    return pairs
