"""Abstract meson project -> files on disk, plus helpers to configure it.

Shared by C04 (manifest), C15 (introspection) and meant for C03 / C05 / C06 / C11.

The abstract project is plain JSON-able data (it is produced by TLC for the
bounded family of ``specs/ninja/ProjectModel.tla``, or by ``random_project``),
every field always present (``normalize`` fills defaults) so that TLC can read
it back with uniform types:

    {"name": "proj", "lang": "c" | "",            # "" = language-less (no compiler; only custom/run targets, data)
     "layout": "mirror"|"flat", "deflib": "shared"|"static"|"both", "unity": "off"|"on"|"subprojects",
     "unity_size": 4,                               # passed as -Dunity_size only when it differs from 4
     "genlists": [ {"sp": "", "files": [x.in ...]} ],   # glK = generator(cp, output '@BASENAME@.h').process(files),
                                                    # ONE object that several targets may consume
     "targets": [ {                                 # refs to other targets are 1-based indices of EARLIER targets
         "kind": "exe"|"static"|"shared"|"both"|"lib"|"module"|"custom"|"run"|"alias",
         "name": str, "subdir": "" | "sub" | "sub/deep", "sp": "" | "<subproject name>",
         "srcs": [basename.c ...],                  # plain C sources (one-liners written by us)
         "gen": [i ...],                            # custom targets whose outputs are used as sources
                                                    # (for a custom target: targets given as additional input:)
         "genidx": [i ...],                         # custom targets only: input: t_i[0] (indexed output)
         "genlist": [basename.in ...],              # inputs run through generator() (-> @BASENAME@.c in the private dir)
         "link": [i ...],                           # link_with
         "objs": [i ...],                           # objects: t_i.extract_all_objects(recursive: false)
         "bsub": "",                                # build_subdir: keyword (build targets and custom targets)
         "glist": [k ...],                          # shared generator lists (1-based indices into p["genlists"]) used as
                                                    # sources (build target) / input (custom target)
         "bbd": "unset"|"true"|"false", "install": bool,
         "outs": [name ...],                        # custom target outputs ('.c' / '.h' / anything)
         "deps": [i ...],                           # custom_target depends: / run_target depends: / alias_target deps
         "extra": {kw: "<meson expression text>"}   # verbatim extra keyword arguments (C03 uses this)
     } ],
     "tests": [ {"name": str, "exe": i, "depends": [i], "args": [i], "sargs": [str], "bench": bool,
                 "suite": [str], "env": [[k, v]], "sp": "", "script": ""} ],   # script != "": test runs <script> (sh) instead of exe
     "conf": [ {"subdir": "", "out": "conf.h", "sp": ""} ],                     # configure_file(copy-like)
     "installs": [ {"kind": "data"|"headers"|"man"|"subdir"|"emptydir"|"symlink"|"conf", "subdir": "", "sp": "",
                    "files": [str], "install_dir": "", "tag": "", "rename": [str], "extra": {},
                    "dir_expr": "",      # raw meson expression used for install_dir: instead of the string (e.g.
                                         # "get_option('datadir') / 'x'"; then install_dir holds the expected
                                         # placeholder form "{datadir}/x")
                    "strip": false,      # install_subdir(strip_directory:)
                    "preserve": false} ],# install_data / install_headers(preserve_path:); files may then be 'a/b/f.txt'
     "options": [ {"name": str, "type": "string"|"boolean"|"integer"|"combo"|"array"|"feature", "value": <text>,
                   "choices": [str], "sp": ""} ],   # meson.options + a message() line per option (C15)
     "show_builtins": [name...]                     # builtin options echoed with message() as well
    }

Rules the generator keeps (needed so that a meson.build order exists; ``realizable`` checks them):
targets of one non-root directory occupy consecutive indices; subproject targets come first and only
refer to targets of the same subproject or earlier; references go to smaller indices only.

API
---
``normalize(p) -> p``                fill defaults (in place, returns p)
``realizable(p) -> bool``
``write_project(p, srcdir)``         create the source tree
``setup(srcdir, builddir, p=None, extra_args=(), backend='ninja', env=None, timeout=300) -> SetupResult``
                                     runs the real ``meson setup`` (stub NINJA); ``.rc .stdout .stderr .messages .ok``
``setup_args(p) -> [..]``            -Dlayout=.. etc. derived from the abstract options
``random_project(rnd, n_targets=8, lang='c', subprojects=True, odd_names=True, installs=True, options=True,
                 layout=None, custom_inputs=False, alias_runs=False) -> p``
``random_data_project(rnd) -> p``    language-less project for --backend=none (installs, script tests, options)
``ODD_NAMES``                        odd-but-legal target names meson accepts on POSIX
``target_var(i)``                    name of the meson variable holding target i
``location(t) -> str``               source-relative directory the target is defined in
"""
from __future__ import annotations

import os
import random
import subprocess
import typing as T
from pathlib import Path

from . import common

NINJA_STUB = str(common.VERIF / 'tools' / 'ninja-stub')

# names meson accepts for targets on POSIX (probed); they stress ninja/shell escaping of paths
ODD_NAMES = ['foo bar', 'a:b', 'x$y', 'f\u00f6\u00f6', 'foo.bar', "q'uote", 'a+b', 'com,ma', 'semi;colon', 'hash#tag',
             'amp&er', 'par(en)', 'eq=ual', 'at@sign', '-dash', 'st*ar', 'qu?est', 'br[ack]', 'ti~lde',
             'lt<gt>', 'back`tick', 'ex!cl', 'dq"uote', 'pc%ent', 'ca^ret', 'br{ace}', 'CAPS', '0digit', '_under']

# accepted by meson but not representable in a Ninja manifest (no escape exists for '|' in a path): C04 finding
UNREPRESENTABLE_NAMES = ['pi|pe']

TARGET_DEFAULTS: T.Dict[str, T.Any] = {
    'kind': 'exe', 'name': 'foo', 'subdir': '', 'sp': '', 'srcs': [], 'gen': [], 'genidx': [], 'genlist': [], 'link': [],
    'bbd': 'unset', 'install': False, 'outs': [], 'deps': [], 'extra': {}, 'objs': [], 'bsub': '', 'glist': [],
}
TEST_DEFAULTS: T.Dict[str, T.Any] = {
    'name': 't', 'exe': 0, 'depends': [], 'args': [], 'sargs': [], 'bench': False, 'suite': [], 'env': [], 'sp': '',
    'script': '',
}
CONF_DEFAULTS: T.Dict[str, T.Any] = {'subdir': '', 'out': 'conf.h', 'sp': ''}
INSTALL_DEFAULTS: T.Dict[str, T.Any] = {'kind': 'data', 'subdir': '', 'sp': '', 'files': [], 'install_dir': '', 'tag': '',
                                        'rename': [], 'extra': {}, 'dir_expr': '', 'strip': False, 'preserve': False}
OPTION_DEFAULTS: T.Dict[str, T.Any] = {'name': 'o', 'type': 'string', 'value': '', 'choices': [], 'sp': '', 'yield': False}
PROJECT_DEFAULTS: T.Dict[str, T.Any] = {
    'name': 'proj', 'lang': 'c', 'layout': 'mirror', 'deflib': 'shared', 'unity': 'off', 'unity_size': 4, 'genlists': [], 'targets': [], 'tests': [],
    'conf': [], 'installs': [], 'options': [], 'show_builtins': [],
}
BUILD_KINDS = ('exe', 'static', 'shared', 'both', 'lib', 'module')   # module: shared_module()
LIB_KINDS = ('static', 'shared', 'both', 'lib')


def _fill(d: T.Dict[str, T.Any], defaults: T.Dict[str, T.Any]) -> T.Dict[str, T.Any]:
    for k, v in defaults.items():
        if k not in d:
            d[k] = type(v)(v) if isinstance(v, (list, dict)) else v
    return d


def normalize(p: T.Dict[str, T.Any]) -> T.Dict[str, T.Any]:
    _fill(p, PROJECT_DEFAULTS)
    p['targets'] = [_fill(dict(t), TARGET_DEFAULTS) for t in p['targets']]
    p['tests'] = [_fill(dict(t), TEST_DEFAULTS) for t in p['tests']]
    p['conf'] = [_fill(dict(t), CONF_DEFAULTS) for t in p['conf']]
    p['installs'] = [_fill(dict(t), INSTALL_DEFAULTS) for t in p['installs']]
    p['options'] = [_fill(dict(t), OPTION_DEFAULTS) for t in p['options']]
    for t in p['targets']:
        # TLC serialises empty sequences/records alike; make sure the types are what we expect
        for k in ('srcs', 'gen', 'genidx', 'genlist', 'link', 'outs', 'deps', 'objs', 'glist'):
            t[k] = list(t[k]) if t[k] else []
        t['extra'] = dict(t['extra']) if t['extra'] else {}
    for t in p['tests']:
        for k in ('depends', 'args', 'sargs', 'suite', 'env'):
            t[k] = list(t[k]) if t[k] else []
    for t in p['installs']:
        for k in ('files', 'rename'):
            t[k] = list(t[k]) if t[k] else []
        t['extra'] = dict(t['extra']) if t['extra'] else {}
    for t in p['options']:
        t['choices'] = list(t['choices']) if t['choices'] else []
    p['show_builtins'] = list(p['show_builtins']) if p['show_builtins'] else []
    p['genlists'] = [{'sp': g.get('sp', ''), 'files': list(g.get('files', []))} for g in (p.get('genlists') or [])]
    return p


def target_var(i: int) -> str:
    return f't{i}'


def sp_dir(sp: str) -> str:
    return f'subprojects/{sp}' if sp else ''


def location(t: T.Dict[str, T.Any]) -> str:
    """Source-relative directory whose meson.build defines the object."""
    return '/'.join(x for x in (sp_dir(t['sp']), t['subdir']) if x)


def mstr(s: str) -> str:
    """Meson string literal."""
    return "'" + s.replace('\\', '\\\\').replace("'", "\\'") + "'"


def mlist(xs: T.Iterable[str]) -> str:
    return '[' + ', '.join(xs) + ']'


def cident(s: str) -> str:
    return ''.join(c if (c.isascii() and c.isalnum()) else '_' for c in s)


def _refs(t: T.Dict[str, T.Any]) -> T.List[int]:
    return list(t['gen']) + list(t.get('genidx', [])) + list(t['link']) + list(t['deps']) + list(t.get('objs', []))


def realizable(p: T.Dict[str, T.Any]) -> bool:
    ts = p['targets']
    seen_main = False
    ranges: T.Dict[T.Tuple[str, str], T.List[int]] = {}
    for i, t in enumerate(ts, 1):
        for r in _refs(t):
            if not (1 <= r < i):
                return False
            if t['sp'] and ts[r - 1]['sp'] != t['sp']:
                return False  # a subproject only refers to its own targets
        if t['sp']:
            if seen_main:
                return False
        else:
            seen_main = True
        comps = [c for c in t['subdir'].split('/') if c]
        for k in range(1, len(comps) + 1):
            ranges.setdefault((t['sp'], '/'.join(comps[:k])), []).append(i)
    # every non-root directory *subtree* must be a run of consecutive targets (one subdir() call enters it)
    for idxs in ranges.values():
        if idxs[-1] - idxs[0] + 1 != len(idxs):
            return False
    n = len(ts)
    for x in p['tests']:
        for r in [x['exe']] + list(x['depends']) + list(x['args']):
            if r and not (1 <= r <= n):
                return False
            if r and x['sp'] and ts[r - 1]['sp'] != x['sp']:
                return False
        if not x['script'] and not x['exe']:
            return False
    return True


# ---------------------------------------------------------------------------
# writing


class _Files:
    """Accumulates meson.build texts per directory and other files."""

    def __init__(self) -> None:
        self.build: T.Dict[str, T.List[str]] = {}
        self.other: T.Dict[str, str] = {}
        self.modes: T.Dict[str, int] = {}

    def line(self, d: str, text: str) -> None:
        self.build.setdefault(d, []).append(text)

    def file(self, path: str, text: str, mode: T.Optional[int] = None) -> None:
        self.other[path] = text
        if mode is not None:
            self.modes[path] = mode


def _c_source(fn: str, is_main: bool, calls: T.Sequence[str] = ()) -> str:
    if is_main:
        decl = ''.join(f'int {c}(void); ' for c in calls)
        body = ' + '.join(f'{c}()' for c in calls) or '0'
        return f'{decl}int main(void) {{ return {body}; }}\n'
    return f'int {fn}(void) {{ return 0; }}\n'


def _kw(items: T.List[T.Tuple[str, str]]) -> str:
    return ''.join(f', {k}: {v}' for k, v in items)


def write_project(p: T.Dict[str, T.Any], srcdir: T.Union[str, os.PathLike]) -> None:
    """Write the source tree of abstract project ``p`` (normalised) under ``srcdir``."""
    normalize(p)
    if not realizable(p):
        raise ValueError('abstract project is not realizable (ordering rules, see module docstring)')
    root = Path(srcdir)
    fs = _Files()
    ts = p['targets']
    sps = []
    for coll in (ts, p['tests'], p['conf'], p['installs'], p['options']):
        for x in coll:
            if x['sp'] and x['sp'] not in sps:
                sps.append(x['sp'])
    entered: T.Set[str] = set()

    def enter(d_sp: str, subdir: str) -> str:
        """Make sure subdir() calls leading to the directory exist; returns the directory key."""
        base = sp_dir(d_sp)
        cur = base
        for comp in [c for c in subdir.split('/') if c]:
            nxt = f'{cur}/{comp}' if cur else comp
            if nxt not in entered:
                entered.add(nxt)
                fs.line(cur, f'subdir({mstr(comp)})')
            cur = nxt
        return cur

    cp = 'cp_prog'

    def header(sp: str) -> None:
        d = sp_dir(sp)
        langs = mstr('c') if p['lang'] else ''
        name = sp or p['name']
        args = [mstr(name)] + ([langs] if langs else [])
        fs.line(d, f"project({', '.join(args)}, version: '1.0', meson_version: '>=1.3.0')")
        fs.line(d, f"{cp} = find_program('cp')")
        fs.line(d, "gen_prog = find_program('gen.sh')")
        fs.file(f'{d}/gen.sh' if d else 'gen.sh', GEN_SH, 0o755)
        if p['lang'] and any(t['genlist'] for t in ts if t['sp'] == sp):
            fs.line(d, f"gen_c = generator({cp}, output: '@BASENAME@.c', arguments: ['@INPUT@', '@OUTPUT@'])")
        gls = [(k, g) for k, g in enumerate(p.get('genlists', []), 1) if g['sp'] == sp]
        if gls:
            fs.line(d, f"gen_h = generator({cp}, output: '@BASENAME@.h', arguments: ['@INPUT@', '@OUTPUT@'])")
            for k, g in gls:
                for f in g['files']:
                    fs.file(f'{d}/{f}' if d else f, f'/* shared generated header {f} */\n')
                fs.line(d, f"gl{k} = gen_h.process({', '.join(mstr(f) for f in g['files'])})")
        opts = [o for o in p['options'] if o['sp'] == sp]
        if opts:
            lines = []
            for o in opts:
                kws = [('type', mstr(o['type']))]
                ty = o['type']
                if ty == 'boolean':
                    kws.append(('value', o['value']))
                elif ty == 'integer':
                    kws.append(('value', str(o['value'])))
                elif ty == 'array':
                    kws.append(('value', mlist(mstr(v) for v in o['value'])))
                    if o['choices']:
                        kws.append(('choices', mlist(mstr(v) for v in o['choices'])))
                elif ty == 'combo':
                    kws.append(('choices', mlist(mstr(v) for v in o['choices'])))
                    kws.append(('value', mstr(o['value'])))
                else:
                    kws.append(('value', mstr(o['value'])))
                if o.get('yield'):
                    kws.append(('yield', 'true'))
                lines.append(f"option({mstr(o['name'])}{_kw(kws)})")
            fs.file(f'{d}/meson.options' if d else 'meson.options', '\n'.join(lines) + '\n')
        for o in opts:
            fs.line(d, _option_message(sp, o['name'], o['type']))
        if not sp:
            for name_ in p['show_builtins']:
                fs.line(d, _option_message(sp, name_, BUILTIN_TYPES.get(name_, 'string')))
        else:
            for name_ in p['show_builtins']:
                if name_ in PER_SUBPROJECT_BUILTINS:
                    fs.line(d, _option_message(sp, name_, BUILTIN_TYPES.get(name_, 'string')))

    # subprojects first (they are configured by subproject() at the top of the main file)
    for sp in sps:
        header(sp)
    header('')
    for sp in sps:
        fs.line('', f'sp_{cident(sp)} = subproject({mstr(sp)})')

    def emit_in(sp: str) -> None:
        for i, t in enumerate(ts, 1):
            if t['sp'] != sp:
                continue
            d = enter(t['sp'], t['subdir'])
            _emit_target(p, fs, i, t, d, cp)
            # make subproject targets visible to the main project under the same variable name
        for k, c in enumerate(p['conf'], 1):
            if c['sp'] != sp:
                continue
            d = enter(c['sp'], c['subdir'])
            inp = f'conf{k}.in'
            fs.file(f'{d}/{inp}' if d else inp, f'/* configured {k} */\n')
            fs.line(d, f"configure_file(input: {mstr(inp)}, output: {mstr(c['out'])}, copy: true)")
        for k, it in enumerate(p['installs'], 1):
            if it['sp'] != sp:
                continue
            d = enter(it['sp'], it['subdir'])
            _emit_install(fs, k, it, d)
        for k, x in enumerate(p['tests'], 1):
            if x['sp'] != sp:
                continue
            _emit_test(p, fs, k, x, sp_dir(sp))

    for sp in sps:
        emit_in(sp)
    # import subproject targets into the main project's namespace
    for i, t in enumerate(ts, 1):
        if t['sp']:
            fs.line('', f"{target_var(i)} = sp_{cident(t['sp'])}.get_variable({mstr(target_var(i))})")
    emit_in('')

    for d, lines in fs.build.items():
        path = root / d / 'meson.build'
        path.parent.mkdir(parents=True, exist_ok=True)
        path.write_text('\n'.join(lines) + '\n', encoding='utf-8')
    for rel, text in fs.other.items():
        path = root / rel
        path.parent.mkdir(parents=True, exist_ok=True)
        path.write_text(text, encoding='utf-8')
        if rel in fs.modes:
            path.chmod(fs.modes[rel])


GEN_SH = """#!/bin/sh
# usage: gen.sh INPUT OUTPUT...   (every output is created; .c outputs hold one distinct function each)
in="$1"; shift
n=0
for o in "$@"; do
  case "$o" in
    *.c) printf 'int gen_%s_%d(void) { return 0; }\\n' "$(basename "$in" .in)" "$n" > "$o";;
    *.h) printf '/* generated from %s */\\n' "$in" > "$o";;
    *) cp "$in" "$o";;
  esac
  n=$((n+1))
done
"""

BUILTIN_TYPES = {'default_library': 'string', 'layout': 'string', 'unity': 'string', 'buildtype': 'string',
                 'prefix': 'string', 'bindir': 'string', 'libdir': 'string', 'datadir': 'string',
                 'includedir': 'string', 'mandir': 'string', 'warning_level': 'string', 'werror': 'boolean',
                 'debug': 'boolean', 'optimization': 'string', 'strip': 'boolean', 'unity_size': 'integer',
                 'b_ndebug': 'string', 'b_staticpic': 'boolean', 'c_std': 'string', 'c_args': 'array',
                 'wrap_mode': 'string', 'auto_features': 'feature', 'install_umask': 'umask',
                 'errorlogs': 'boolean', 'stdsplit': 'boolean', 'backend': 'string', 'sysconfdir': 'string',
                 'localstatedir': 'string', 'pkg_config_path': 'array', 'default_both_libraries': 'string'}
PER_SUBPROJECT_BUILTINS = ('default_library', 'warning_level', 'werror', 'buildtype', 'debug', 'optimization', 'c_std',
                           'c_args', 'unity', 'default_both_libraries', 'b_ndebug', 'b_staticpic')


def _option_message(sp: str, name: str, ty: str) -> str:
    """message() line echoing get_option(name) in a canonical text form: OPT|<subproject>|<name>|<type>|<text>."""
    g = f'get_option({mstr(name)})'
    if ty == 'boolean':
        val = f'{g}.to_string()'
    elif ty == 'integer':
        val = f'{g}.to_string()'
    elif ty == 'array':
        val = f"'\\x1f'.join({g})"
    elif ty == 'feature':
        return (f"_f = {g}\n_fs = 'auto'\nif _f.enabled()\n  _fs = 'enabled'\nelif _f.disabled()\n  _fs = 'disabled'\nendif\n"
                f"message('OPT|' + {mstr(sp)} + '|' + {mstr(name)} + '|' + {mstr(ty)} + '|' + _fs)")
    elif ty == 'umask':
        val = f"'@0@'.format({g})"
    else:
        val = g
    return f"message('OPT|' + {mstr(sp)} + '|' + {mstr(name)} + '|' + {mstr(ty)} + '|' + {val})"


def _emit_target(p: T.Dict[str, T.Any], fs: _Files, i: int, t: T.Dict[str, T.Any], d: str, cp: str) -> None:
    kind = t['kind']
    var = target_var(i)
    ts = p['targets']
    extra = list(t['extra'].items())

    def put(path: str, text: str) -> None:
        fs.file(f'{d}/{path}' if d else path, text)

    if kind in BUILD_KINDS:
        srcs: T.List[str] = []
        libfns = []
        for r in t['link']:
            libfns.append(f'fn_t{r}')
        first = True
        for s in t['srcs']:
            fn = f'fn_t{i}' if first and kind != 'exe' else f'fn_t{i}_{cident(s)}'
            put(s, _c_source(fn, kind == 'exe' and first, libfns))
            first = False
            srcs.append(mstr(s))
        for s in t['genlist']:
            fn = f'fn_t{i}' if first and kind != 'exe' else f'fn_t{i}_{cident(s)}'
            put(s, _c_source(fn, kind == 'exe' and first, libfns))
            first = False
        if t['genlist']:
            srcs.append(f"gen_c.process({', '.join(mstr(s) for s in t['genlist'])})")
        for r in t['gen']:
            srcs.append(target_var(r))
        for g in t.get('glist', []):
            srcs.append(f'gl{g}')
        kws: T.List[T.Tuple[str, str]] = []
        if t.get('bsub'):
            kws.append(('build_subdir', mstr(t['bsub'])))
        if t['link']:
            kws.append(('link_with', mlist(target_var(r) for r in t['link'])))
        if t.get('objs'):
            kws.append(('objects', mlist(f'{target_var(r)}.extract_all_objects(recursive: false)' for r in t['objs'])))
        if t['bbd'] != 'unset':
            kws.append(('build_by_default', t['bbd']))
        if t['install']:
            kws.append(('install', 'true'))
        kws += extra
        fn = {'exe': 'executable', 'static': 'static_library', 'shared': 'shared_library', 'both': 'both_libraries',
              'lib': 'library', 'module': 'shared_module'}[kind]
        fs.line(d, f"{var} = {fn}({', '.join([mstr(t['name'])] + srcs)}{_kw(kws)})")
    elif kind == 'custom':
        # input: a file of ours; .c outputs are valid C (functions / main) so that C05 can really build them
        inp = f't{i}.in'
        outs = t['outs']
        put(inp, f'int fn_t{i}_gen(void) {{ return 0; }}\n')
        inputs = [mstr(inp)] + [target_var(r) for r in t['gen']] + [f'{target_var(r)}[0]' for r in t['genidx']] \
            + [f'gl{g}' for g in t.get('glist', [])]
        kws = [('input', mlist(inputs)), ('output', mlist(mstr(o) for o in outs)),
               ('command', mlist(['gen_prog', "'@INPUT0@'", "'@OUTPUT@'"]))]
        if t['deps']:
            kws.append(('depends', mlist(target_var(r) for r in t['deps'])))
        if t.get('bsub'):
            kws.append(('build_subdir', mstr(t['bsub'])))
        if t['bbd'] != 'unset':
            kws.append(('build_by_default', t['bbd']))
        if t['install']:
            kws.append(('install', 'true'))
            if 'install_dir' not in t['extra']:
                kws.append(('install_dir', mstr('share/ct')))
        kws += extra
        fs.line(d, f"{var} = custom_target({mstr(t['name'])}{_kw(kws)})")
    elif kind == 'run':
        kws = [('command', mlist([cp, "'--version'"]))]
        if t['deps']:
            kws.append(('depends', mlist(target_var(r) for r in t['deps'])))
        kws += extra
        fs.line(d, f"{var} = run_target({mstr(t['name'])}{_kw(kws)})")
    elif kind == 'alias':
        deps = [target_var(r) for r in t['deps']]
        fs.line(d, f"{var} = alias_target({', '.join([mstr(t['name'])] + deps)}{_kw(extra)})")
    else:
        raise ValueError('unknown target kind ' + kind)
    del ts


def _emit_test(p: T.Dict[str, T.Any], fs: _Files, k: int, x: T.Dict[str, T.Any], d: str) -> None:
    if x['script']:
        name = f'test_script{k}.sh'
        fs.file(f'{d}/{name}' if d else name, x['script'], 0o755)
        fs.line(d, f'test_script{k} = find_program({mstr(name)})')
        exe = f'test_script{k}'
    else:
        exe = target_var(x['exe'])
    args = [target_var(r) for r in x['args']] + [mstr(s) for s in x['sargs']]
    kws: T.List[T.Tuple[str, str]] = []
    if args:
        kws.append(('args', mlist(args)))
    if x['depends']:
        kws.append(('depends', mlist(target_var(r) for r in x['depends'])))
    if x['suite']:
        kws.append(('suite', mlist(mstr(s) for s in x['suite'])))
    if x['env']:
        kws.append(('env', mlist(mstr(f'{a}={b}') for a, b in x['env'])))
    fn = 'benchmark' if x['bench'] else 'test'
    fs.line(d, f"{fn}({mstr(x['name'])}, {exe}{_kw(kws)})")


def _emit_install(fs: _Files, k: int, it: T.Dict[str, T.Any], d: str) -> None:
    kind = it['kind']

    def put(path: str, text: str) -> None:
        fs.file(f'{d}/{path}' if d else path, text)

    kws: T.List[T.Tuple[str, str]] = []
    if it.get('dir_expr'):
        kws.append(('install_dir', it['dir_expr']))
    elif it['install_dir']:
        kws.append(('install_dir', mstr(it['install_dir'])))
    if kind == 'subdir' and it.get('strip'):
        kws.append(('strip_directory', 'true'))
    if kind in ('data', 'headers') and it.get('preserve'):
        kws.append(('preserve_path', 'true'))
    if it['tag']:
        kws.append(('install_tag', mstr(it['tag'])))
    if it['rename']:
        kws.append(('rename', mlist(mstr(s) for s in it['rename'])))
    kws += list(it['extra'].items())
    if kind in ('data', 'headers', 'man'):
        for f in it['files']:
            put(f, f'{kind} file {f}\n')
        fn = {'data': 'install_data', 'headers': 'install_headers', 'man': 'install_man'}[kind]
        fs.line(d, f"{fn}({', '.join(mstr(f) for f in it['files'])}{_kw(kws)})")
    elif kind == 'subdir':
        dirname = it['files'][0]                       # may be spelled with a trailing slash ('docs/')
        for f in it['files'][1:]:
            put(f"{dirname.rstrip('/')}/{f}", f'subdir file {f}\n')
        if not any(k_ == 'install_dir' for k_, _ in kws):
            kws.insert(0, ('install_dir', mstr('share/sd')))
        fs.line(d, f"install_subdir({mstr(dirname)}{_kw(kws)})")
    elif kind == 'emptydir':
        # the directory is the argument: the expression when one is given, else the literal names
        dirs = it['dir_expr'] if it.get('dir_expr') else ', '.join(mstr(f) for f in it['files'])
        fs.line(d, f"install_emptydir({dirs}{_kw([kw for kw in kws if kw[0] != 'install_dir'])})")
    elif kind == 'conf':
        # configure_file(install: true): files[0] is the output, its input is <output>.in
        out = it['files'][0]
        put(out + '.in', f'configured and installed {out}\n')
        if not any(k_ == 'install_dir' for k_, _ in kws):
            kws.insert(0, ('install_dir', mstr('share/cf')))
        fs.line(d, f"configure_file(input: {mstr(out + '.in')}, output: {mstr(out)}, copy: true, install: true{_kw(kws)})")
    elif kind == 'symlink':
        if not any(k_ == 'install_dir' for k_, _ in kws):
            kws.insert(0, ('install_dir', mstr('share/ln')))
        kws.append(('pointing_to', mstr(it['files'][1] if len(it['files']) > 1 else 'target')))
        fs.line(d, f"install_symlink({mstr(it['files'][0])}{_kw(kws)})")
    else:
        raise ValueError('unknown install kind ' + kind)


# ---------------------------------------------------------------------------
# configuring


class SetupResult:
    def __init__(self, rc: int, stdout: str, stderr: str, wall: float):
        self.rc = rc
        self.stdout = stdout
        self.stderr = stderr
        self.wall = wall

    @property
    def ok(self) -> bool:
        return self.rc == 0

    @property
    def crashed(self) -> bool:
        """meson died with a Python traceback / 'Unhandled python exception' instead of a diagnosed error."""
        return self.rc not in (0, 1) or 'Traceback (most recent call last)' in (self.stdout + self.stderr) \
            or 'Unhandled python exception' in (self.stdout + self.stderr)

    @property
    def messages(self) -> T.List[str]:
        return [ln[len('Message: '):] for ln in self.stdout.splitlines() if ln.startswith('Message: ')]

    @property
    def error_text(self) -> str:
        for ln in (self.stdout + '\n' + self.stderr).splitlines():
            if 'ERROR:' in ln:
                return ln.strip()
        return (self.stdout + self.stderr).strip()[-300:]


def setup_args(p: T.Dict[str, T.Any]) -> T.List[str]:
    args = [f"-Dlayout={p['layout']}"]
    if p['lang']:
        args += [f"-Ddefault_library={p['deflib']}", f"-Dunity={p['unity']}"]
        if p.get('unity_size', 4) != 4:
            args.append(f"-Dunity_size={p['unity_size']}")
    return args


def meson_cmd() -> T.List[str]:
    return [common.PYTHON, str(common.REPO / 'meson.py')]


def run_env(extra: T.Optional[T.Dict[str, str]] = None) -> T.Dict[str, str]:
    e = dict(os.environ)
    e['NINJA'] = NINJA_STUB
    e['LC_ALL'] = 'C.UTF-8'
    e.pop('DESTDIR', None)
    e.pop('MESON_TESTTHREADS', None)
    e.setdefault('PYTHONHASHSEED', '0')
    e['PYTHONDONTWRITEBYTECODE'] = '1'
    if extra:
        e.update(extra)
    return e


def setup(srcdir: T.Union[str, os.PathLike], builddir: T.Union[str, os.PathLike],
          p: T.Optional[T.Dict[str, T.Any]] = None, extra_args: T.Sequence[str] = (), backend: str = 'ninja',
          env: T.Optional[T.Dict[str, str]] = None, timeout: int = 300) -> SetupResult:
    import time
    cmd = meson_cmd() + ['setup', f'--backend={backend}']
    if p is not None:
        cmd += setup_args(p)
    cmd += list(extra_args) + [str(builddir), str(srcdir)]
    t0 = time.time()
    try:
        r = subprocess.run(cmd, env=run_env(env), stdout=subprocess.PIPE, stderr=subprocess.PIPE, timeout=timeout,
                           text=True, errors='replace', stdin=subprocess.DEVNULL)
    except subprocess.TimeoutExpired as ex:
        raise common.MachineryError(f'meson setup timed out after {timeout}s in {srcdir}') from ex
    return SetupResult(r.returncode, r.stdout, r.stderr, time.time() - t0)


def run_meson(args: T.Sequence[str], cwd: T.Union[str, os.PathLike, None] = None,
              env: T.Optional[T.Dict[str, str]] = None, timeout: int = 300) -> subprocess.CompletedProcess:
    try:
        return subprocess.run(meson_cmd() + list(args), cwd=cwd, env=run_env(env), stdout=subprocess.PIPE,
                              stderr=subprocess.PIPE, timeout=timeout, text=True, errors='replace',
                              stdin=subprocess.DEVNULL)
    except subprocess.TimeoutExpired as ex:
        raise common.MachineryError(f'meson {" ".join(args)} timed out') from ex


# ---------------------------------------------------------------------------
# random projects


def random_project(rnd: random.Random, n_targets: int = 8, lang: str = 'c', subprojects: bool = True,
                   odd_names: bool = True, installs: bool = True, options: bool = True,
                   layout: T.Optional[str] = None, custom_inputs: bool = False,
                   alias_runs: bool = False, build_subdirs: bool = False) -> T.Dict[str, T.Any]:
    """A seeded random, realizable, collision-free abstract project (names are unique per kind family).

    ``custom_inputs``: custom targets may take earlier custom targets as input (whole: ``gen``, indexed:
    ``genidx``); ``alias_runs``: alias targets may depend on run targets.  Both are off by default so that
    the projects (and the random stream) other checks were validated with do not change; C04 / C15 switch
    ``build_subdirs``: under layout=mirror some build / custom targets get ``build_subdir:`` (off by default).
    them on (they expose known defects of meson, see known_findings.d/C04.json, C15.json)."""
    p: T.Dict[str, T.Any] = {
        'name': 'rnd', 'lang': lang,
        'layout': layout or rnd.choice(['mirror', 'mirror', 'flat']),
        'deflib': rnd.choice(['shared', 'static', 'both']),
        'unity': rnd.choice(['off', 'off', 'on']) if lang else 'off',
        'targets': [], 'tests': [], 'conf': [], 'installs': [], 'options': [], 'show_builtins': [],
    }
    names = ['alpha', 'beta', 'gamma', 'delta', 'eps', 'zeta', 'eta', 'theta', 'iota', 'kappa', 'lam', 'mu', 'nu', 'xi',
             'omi', 'pi', 'rho', 'sigma', 'tau', 'ups', 'phi', 'chi', 'psi', 'omega']
    if odd_names:
        names += ODD_NAMES
    rnd.shuffle(names)
    # with layout=mirror the same name may be reused in another directory
    flat = p['layout'] == 'flat'
    used: T.Set[T.Tuple[str, str]] = set()

    phony_names: T.Set[str] = set()

    def fresh(dirkey: str, phony: bool = False) -> str:
        # run / alias targets live in one global namespace (their ninja name is the bare target name), so their
        # names are kept distinct from every other target name of the project
        for _ in range(400):
            n = rnd.choice(names)
            if phony:
                if n in phony_names or any(k[1] == n for k in used):
                    continue
                phony_names.add(n)
                return n
            key = ('', n) if flat else (dirkey, n)
            if key not in used and n not in phony_names:
                used.add(key)
                return n
        raise RuntimeError('name pool exhausted')

    ts: T.List[T.Dict[str, T.Any]] = p['targets']
    # layout of directories: runs of consecutive targets
    plan: T.List[T.Tuple[str, str]] = []
    n_sp = rnd.randint(0, max(0, n_targets // 4)) if subprojects else 0
    sp_name = 'sp1'
    dirs_sp = ['', 'lib'] if n_sp else []
    for d in dirs_sp:
        k = rnd.randint(0, n_sp)
        plan += [(sp_name, d)] * k
    plan = plan[:n_sp]
    main_dirs = [''] + sorted(rnd.sample(['sub', 'sub/deep', 'o dd', 'lib', 'x'], rnd.randint(0, 3))) + ['']
    remaining = n_targets - len(plan)
    for j, d in enumerate(main_dirs):
        k = remaining if j == len(main_dirs) - 1 else rnd.randint(0, max(1, remaining // 2))
        plan += [('', d)] * k
        remaining -= k
    for i, (sp, sub) in enumerate(plan, 1):
        dirkey = f'{sp}/{sub}'
        kinds = ['exe', 'exe', 'static', 'shared', 'lib', 'both', 'custom', 'custom', 'run', 'alias'] if lang else \
            ['custom', 'custom', 'custom', 'run', 'alias']
        kind = rnd.choice(kinds)
        earlier = [(j, t) for j, t in enumerate(ts, 1) if (not sp or t['sp'] == sp)]
        libs = [j for j, t in earlier if t['kind'] in LIB_KINDS]
        customs = [j for j, t in earlier if t['kind'] == 'custom']
        c_customs = [j for j in customs if any(o.endswith('.c') or o.endswith('.h') for o in ts[j - 1]['outs'])
                     and all(o.endswith(('.c', '.h')) for o in ts[j - 1]['outs'])]
        buildables = [j for j, t in earlier if t['kind'] in BUILD_KINDS + ('custom',)]
        t: T.Dict[str, T.Any] = {'kind': kind, 'name': fresh(dirkey, kind in ('run', 'alias')), 'subdir': sub, 'sp': sp}
        if kind in BUILD_KINDS:
            n_src = rnd.randint(1, 3)
            t['srcs'] = [f't{i}_{k}.c' for k in range(n_src)]
            if rnd.random() < 0.3:
                t['genlist'] = [f't{i}_g{k}.in' for k in range(rnd.randint(1, 2))]
            if c_customs and rnd.random() < 0.4:
                t['gen'] = rnd.sample(c_customs, min(len(c_customs), rnd.randint(1, 2)))
            if libs and rnd.random() < 0.6:
                t['link'] = rnd.sample(libs, min(len(libs), rnd.randint(1, 2)))
            t['bbd'] = rnd.choice(['unset', 'unset', 'true', 'false'])
            t['install'] = rnd.random() < 0.4
        elif kind == 'custom':
            nouts = rnd.randint(1, 3)
            style = rnd.choice(['c', 'c', 'txt'])
            if style == 'c' and lang:
                t['outs'] = [f't{i}_o{k}.c' for k in range(nouts - 1)] + [f't{i}_o.h']
                if nouts == 1:
                    t['outs'] = [f't{i}_o0.c']
            else:
                t['outs'] = [f't{i}_out{k}.txt' for k in range(nouts)]
            if rnd.random() < 0.2 and odd_names:
                t['outs'][0] = rnd.choice(['o ut', 'o:ut', 'o$ut']) + f'{i}' + os.path.splitext(t['outs'][0])[1]
            if buildables and rnd.random() < 0.4:
                t['deps'] = rnd.sample(buildables, 1)
            if custom_inputs and customs and rnd.random() < 0.3:
                t['gen'] = [rnd.choice(customs)]
            if custom_inputs and customs and rnd.random() < 0.2:
                t['genidx'] = [rnd.choice(customs)]
            t['bbd'] = rnd.choice(['unset', 'unset', 'true', 'false'])
            t['install'] = rnd.random() < 0.25
        else:
            runs = [j for j, u in earlier if u['kind'] == 'run']
            if alias_runs and kind == 'alias' and runs and rnd.random() < 0.5:
                t['deps'] = [rnd.choice(runs)]
            elif buildables and rnd.random() < 0.7:
                t['deps'] = rnd.sample(buildables, min(len(buildables), rnd.randint(1, 2)))
            elif kind == 'alias':
                if not buildables:
                    t['kind'] = 'run'
                else:
                    t['deps'] = [rnd.choice(buildables)]
        if build_subdirs and not flat and kind in BUILD_KINDS + ('custom',) and rnd.random() < 0.25:
            t['bsub'] = rnd.choice(['bin', 'out/x'])
        ts.append(t)
    normalize(p)
    exes = [j for j, t in enumerate(ts, 1) if t['kind'] == 'exe']
    anyb = [j for j, t in enumerate(ts, 1) if t['kind'] in BUILD_KINDS + ('custom',)]
    tnames: T.Set[str] = set()
    for k in range(rnd.randint(0, 4) if exes else 0):
        e = rnd.choice(exes)
        name = rnd.choice(['t', 'test one', 'unit', 'check']) + str(k)
        tnames.add(name)
        p['tests'].append({
            'name': name, 'exe': e, 'sp': ts[e - 1]['sp'] if rnd.random() < 0.5 else '',
            'depends': rnd.sample(anyb, min(len(anyb), rnd.randint(0, 2))),
            'args': rnd.sample(anyb, min(len(anyb), rnd.randint(0, 1))),
            'sargs': rnd.sample(['--flag', 'a b', 'x=1', '$HOME', "q'"], rnd.randint(0, 2)),
            'bench': rnd.random() < 0.25,
            'suite': rnd.sample(['fast', 'slow', 's p'], rnd.randint(0, 2)),
            'env': [[a, b] for a, b in rnd.sample([('A', '1'), ('B', 'two words'), ('C_D', ''), ('PATHY', '/x:/y')],
                                                  rnd.randint(0, 2))],
        })
    # tests in a subproject may only refer to targets of that subproject
    for x in p['tests']:
        if x['sp']:
            ok = lambda r: ts[r - 1]['sp'] == x['sp']  # noqa: E731
            x['depends'] = [r for r in x['depends'] if ok(r)]
            x['args'] = [r for r in x['args'] if ok(r)]
            if not ok(x['exe']):
                x['sp'] = ''
    for k in range(rnd.randint(0, 2)):
        p['conf'].append({'subdir': rnd.choice(sorted({t['subdir'] for t in ts if not t['sp']} | {''})),
                          'out': f'conf{k}.h', 'sp': ''})
    if installs:
        for k in range(rnd.randint(0, 3)):
            kind = rnd.choice(['data', 'headers', 'man', 'subdir'])
            files = {'data': [f'd{k}.txt', f'd{k} b.dat'], 'headers': [f'h{k}.h'], 'man': [f'm{k}.1'],
                     'subdir': [f'sd{k}', 'f1.txt', 'f2.txt']}[kind]
            p['installs'].append({'kind': kind, 'subdir': '', 'sp': '', 'files': files,
                                  'tag': rnd.choice(['', '', 'custom-tag', 'devel'])})
    if options:
        for k in range(rnd.randint(0, 3)):
            ty = rnd.choice(['string', 'boolean', 'integer', 'combo', 'array', 'feature'])
            o: T.Dict[str, T.Any] = {'name': f'opt{k}', 'type': ty, 'sp': ''}
            if ty == 'string':
                o['value'] = rnd.choice(['', 'hello', 'two words', 'a|b'])
            elif ty == 'boolean':
                o['value'] = rnd.choice(['true', 'false'])
            elif ty == 'integer':
                o['value'] = str(rnd.randint(-5, 99))
            elif ty == 'combo':
                o['choices'] = ['one', 'two', 'three']
                o['value'] = rnd.choice(o['choices'])
            elif ty == 'array':
                o['value'] = rnd.sample(['a', 'b', 'c c'], rnd.randint(0, 3))
            else:
                o['value'] = rnd.choice(['auto', 'enabled', 'disabled'])
            p['options'].append(o)
        p['show_builtins'] = rnd.sample(['default_library', 'layout', 'buildtype', 'prefix', 'bindir', 'libdir', 'werror',
                                         'warning_level', 'debug', 'optimization', 'unity'], rnd.randint(0, 4))
    normalize(p)
    if not realizable(p):
        raise RuntimeError('random_project produced a non-realizable project: ' + repr(p))
    return p


TEST_SCRIPT = """#!/bin/sh
# records the command line and the environment of a test run in $VERIF_RUN_DIR/run_<first argument>.txt
# (VERIF_RUN_DIR is exported by the harness that calls `meson test`; without it nothing is written)
[ -n "$VERIF_RUN_DIR" ] || exit 0
out="$VERIF_RUN_DIR/run_$1.txt"
: > "$out"
for a in "$@"; do printf 'ARG %s\\n' "$a" >> "$out"; done
env | sed 's/^/ENV /' >> "$out"
exit 0
"""


def random_data_project(rnd: random.Random, subprojects: bool = True) -> T.Dict[str, T.Any]:
    """A language-less project for ``--backend=none``: install_data/headers/man/subdir, script tests (they record
    argv + environment, see TEST_SCRIPT), options, optionally a subproject.  Nothing needs to be built, so a
    real ``meson install --destdir`` and a real ``meson test`` work without ninja."""
    p: T.Dict[str, T.Any] = {'name': 'data', 'lang': '', 'layout': 'mirror', 'deflib': 'shared', 'unity': 'off', 'targets': [],
                             'tests': [], 'conf': [], 'installs': [], 'options': [], 'show_builtins': []}
    sps = [''] + (['sp1'] if subprojects and rnd.random() < 0.5 else [])
    k = 0
    for sp in sps:
        for _ in range(rnd.randint(1, 4)):
            k += 1
            kind = rnd.choice(['data', 'data', 'headers', 'man', 'subdir'])
            files = {'data': [f'd{k}.txt', f'd{k} b.dat'][:rnd.randint(1, 2)], 'headers': [f'h{k}.h', f'h{k}b.h'][:rnd.randint(1, 2)],
                     'man': [f'm{k}.1'], 'subdir': [f'sd{k}', 'f1.txt', 'sub/f2.txt']}[kind]
            it: T.Dict[str, T.Any] = {'kind': kind, 'subdir': rnd.choice(['', '', 'dd']), 'sp': sp, 'files': files,
                                      'tag': rnd.choice(['', '', 'custom-tag', 'devel', 'runtime'])}
            if kind in ('data', 'headers') and rnd.random() < 0.4:
                it['install_dir'] = rnd.choice(['share/custom', 'opt/x y', '/abs/dir'])
            if kind in ('data', 'headers') and rnd.random() < 0.35:
                # sources in nested directories (same basename twice), kept with preserve_path
                ext = 'txt' if kind == 'data' else 'h'
                it['files'] = [f'p{k}.{ext}', f'one/p{k}.{ext}', f'one/two/p{k}.{ext}', f'one/two/q{k}.{ext}'][:rnd.randint(2, 4)]
                it['preserve'] = True
                if kind == 'data' and rnd.random() < 0.4:
                    # (install_headers shows an option-derived directory without its placeholder; the manual is
                    # silent on that, so only install_data gets one)
                    it['install_dir'] = '{datadir}/tree%d' % k
                    it['dir_expr'] = f"get_option('datadir') / 'tree{k}'"
            if kind == 'subdir':
                # install_dir: default of projgen (share/sd), plain string, absolute, or derived from an option value
                how = rnd.choice(['default', 'plain', 'abs', 'option', 'option'])
                if how == 'plain':
                    it['install_dir'] = f'share/plain{k}'
                elif how == 'abs':
                    it['install_dir'] = f'/abs/sd{k}'
                elif how == 'option':
                    opt = rnd.choice(['datadir', 'libdir', 'includedir'])
                    it['install_dir'] = '{%s}/x%d' % (opt, k)
                    it['dir_expr'] = f"get_option('{opt}') / 'x{k}'"
                it['strip'] = rnd.random() < 0.4
            p['installs'].append(it)
    for j in range(rnd.randint(1, 4)):
        sp = rnd.choice(sps)
        p['tests'].append({
            'name': rnd.choice(['t', 'test one', 'unit']) + str(j), 'exe': 0, 'script': TEST_SCRIPT, 'sp': sp,
            'sargs': [f'k{j}'] + rnd.sample(['--flag', 'a b', 'x=1', '$HOME', "q'", 'a"b', '*'], rnd.randint(0, 3)),
            'bench': rnd.random() < 0.2,
            'suite': rnd.sample(['fast', 'slow', 's p'], rnd.randint(0, 2)),
            'env': [[a, b] for a, b in rnd.sample([('VAR_A', '1'), ('VAR_B', 'two words'), ('VAR_C', ''),
                                                   ('VAR_D', '/x:/y'), ('VAR_E', '$notexpanded')], rnd.randint(0, 3))],
        })
    for j in range(rnd.randint(0, 4)):
        ty = rnd.choice(['string', 'boolean', 'integer', 'combo', 'array', 'feature'])
        o: T.Dict[str, T.Any] = {'name': f'opt{j}', 'type': ty, 'sp': rnd.choice(sps)}
        if ty == 'string':
            o['value'] = rnd.choice(['', 'hello', 'two words', 'a|b'])
        elif ty == 'boolean':
            o['value'] = rnd.choice(['true', 'false'])
        elif ty == 'integer':
            o['value'] = str(rnd.randint(-5, 99))
        elif ty == 'combo':
            o['choices'] = ['one', 'two', 'three']
            o['value'] = rnd.choice(o['choices'])
        elif ty == 'array':
            o['value'] = rnd.sample(['a', 'b', 'c c'], rnd.randint(0, 3))
        else:
            o['value'] = rnd.choice(['auto', 'enabled', 'disabled'])
        p['options'].append(o)
    p['show_builtins'] = rnd.sample(['buildtype', 'prefix', 'bindir', 'libdir', 'datadir', 'werror', 'warning_level', 'debug',
                                     'optimization', 'default_library', 'wrap_mode', 'errorlogs'], rnd.randint(1, 5))
    normalize(p)
    return p
