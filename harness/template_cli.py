"""C14, binding through the real command line: generated projects whose meson.build calls
configure_file() for a sample of templates x configurations x formats (and without input: the
header dump); ``meson setup --backend=none``; the produced files and the warnings about undefined
names are projected to trace cases and judged by TraceTemplate like the in-process ones."""
from __future__ import annotations

import random
import re
import subprocess
import typing as T

from . import common
from .common import Check, MachineryError, scratch


def mstr(s: str) -> str:
    """a meson string literal denoting s"""
    out = s.replace('\\', '\\\\').replace("'", "\\'").replace('\n', '\\n').replace('\r', '\\r').replace('\t', '\\t')
    return "'" + out + "'"


def mval(v: T.Any) -> str:
    if isinstance(v, bool):
        return 'true' if v else 'false'
    if isinstance(v, int):
        return str(v)
    return mstr(v)


def run(chk: Check, space: T.Dict[str, T.Any], fspace: T.Dict[str, T.Any], judge: T.Callable[..., None],
        account: T.Callable[..., None], base: str) -> None:
    from . import c14_template as m
    m._init_worker(base)     # this module sees its own copy of c14_template (the driver runs as __main__)
    common.use_repo_meson()
    quick = chk.tier == 'quick'
    rnd = random.Random(chk.seed * 611953 + 17)
    atoms = [m.txt(a) for a in space['atoms']]
    batoms = [bytes(a) for a in fspace['batoms']]
    model_confs = [m.conf_values(c) for c in space['confs']]
    fams = m.families(quick)
    ffams = m.file_families(quick)
    n_projects = 2 if quick else 8
    per_kind = 24
    cases: T.List[T.Dict[str, T.Any]] = []
    confs: T.List[T.Any] = []
    for pno in range(n_projects):
        items: T.List[T.Dict[str, T.Any]] = []
        tries = 0
        rejecting = pno % 2 == 1    # every second project ends with one template that must be rejected
        while len(items) < per_kind and tries < 4000:      # text templates, default encoding
            tries += 1
            if rnd.random() < 0.6:
                _, atomsel, confsel, fmtsel, _, _ = rnd.choice(fams)
                text = ''.join(atoms[rnd.choice(atomsel) - 1] for _ in range(rnd.randint(2, 9)))
                values = model_confs[rnd.choice(confsel) - 1]
                fmt = m.FORMATS[rnd.choice(fmtsel) - 1]
            else:
                fmt = rnd.choice(m.FORMATS)
                values = m._rand_conf(rnd, fmt)
                text = m._rand_template(rnd)
            e, _, _ = m.real_configure(text, values, fmt)
            if e == 0:
                items.append({'data': text.encode('utf-8'), 'values': values, 'fmt': fmt, 'en': 0, 'encname': '', 'reject': False})
        tries = 0
        while len(items) < 2 * per_kind and tries < 4000:  # byte templates with the encoding: argument
            tries += 1
            if rnd.random() < 0.5:
                _, bytesel, encsel, confsel, fmtsel, _ = rnd.choice(ffams)
                data = b''.join(batoms[rnd.choice(bytesel) - 1] for _ in range(rnd.randint(1, 6)))
                ei = rnd.choice(encsel)
                if ei == 6:
                    data = b'\xff\xfe' + data
                values = model_confs[rnd.choice(confsel) - 1]
                fi = rnd.choice(fmtsel)
            else:
                data, ei, values, fi = m._rand_file_case(rnd)
            name = m.enc_name(ei, tries)
            e, _, _ = m.real_configure_bytes(data, values, m.FORMATS[fi - 1], name)
            if e == 0:
                items.append({'data': data, 'values': values, 'fmt': m.FORMATS[fi - 1], 'en': ei, 'encname': name, 'reject': False})
        if rejecting:
            if (pno // 2 + chk.seed) % 2 == 0:
                items.append({'data': b'ok @a@\n#mesondefine A B C\n', 'values': {'a': 'X'}, 'fmt': 'meson', 'en': 0, 'encname': '',
                              'reject': True})
            else:       # a byte that cp1252 does not define
                items.append({'data': b'ok @a@ \x81\n', 'values': {'a': 'X'}, 'fmt': 'meson', 'en': 4, 'encname': 'cp1252',
                              'reject': True})
        with scratch('c14cli-') as d:
            src = d / 'src'
            src.mkdir()
            lines = ["project('c14cli', meson_version : '>=1.1')"]
            for n, it in enumerate(items):
                (src / f't{n}.in').write_bytes(it['data'])
                lines.append(f'c{n} = configuration_data()')
                for k, v in it['values'].items():
                    lines.append(f'c{n}.set({mstr(k)}, {mval(v)})')
                enc = f", encoding : '{it['encname']}'" if it['en'] else ''
                lines.append(f"configure_file(input : 't{n}.in', output : 'o{n}.txt', configuration : c{n}, format : '{it['fmt']}'{enc})")
                if n % 5 == 0 and all(' ' not in k for k in it['values']) and not it['en']:
                    lines.append(f"configure_file(output : 'h{n}.h', configuration : c{n})")
            (src / 'meson.build').write_text('\n'.join(lines) + '\n', encoding='utf-8')
            try:
                p = subprocess.run([common.PYTHON, str(common.REPO / 'meson.py'), 'setup', '--backend=none', str(d / 'b'), str(src)],
                                   stdout=subprocess.PIPE, stderr=subprocess.STDOUT, text=True, timeout=600, errors='replace')
            except subprocess.TimeoutExpired as ex:
                raise MachineryError('meson setup timed out on the configure_file sample') from ex
            if not rejecting and p.returncode != 0:
                raise MachineryError('meson setup failed on templates that do_conf_file accepts:\n' + p.stdout[-2000:])
            missing: T.Dict[str, T.List[str]] = {}
            for mm in re.finditer(r"The variable\(s\) (.*?) in the input file '([^']*)' are not present", p.stdout):
                missing[mm.group(2).split('/')[-1]] = re.findall(r"'([^']*)'", mm.group(1))
            for n, it in enumerate(items):
                confs.append(m.conf_entries(it['values']))
                ci = len(confs)
                fi = m.FORMATS.index(it['fmt']) + 1
                out = d / 'b' / f'o{n}.txt'
                if it['reject']:
                    e = 1 if p.returncode != 0 and not out.exists() else 0
                    ob = list(out.read_bytes()) if out.exists() else []
                    mis: T.List[T.List[int]] = []
                else:
                    if not out.exists():
                        raise MachineryError(f'configure_file produced no o{n}.txt:\n' + p.stdout[-1500:])
                    e = 0
                    ob = list(out.read_bytes())
                    mis = sorted(m.cps(x) for x in missing.get(f't{n}.in', []))
                if it['en']:
                    cases.append({'by': list(it['data']), 'en': it['en'], 'c': ci, 'f': fi, 'e': e, 'ob': ob, 'm': mis,
                                  'via': 'configure_file'})
                else:
                    cases.append({'t': m.cps(it['data'].decode('utf-8')), 'c': ci, 'f': fi, 'e': e,
                                  'o': m.cps(bytes(ob).decode('utf-8')), 'm': mis, 'via': 'configure_file'})
                hdr = d / 'b' / f'h{n}.h'
                if hdr.exists():
                    cases.append({'hd': m.project_header(hdr.read_bytes().decode('utf-8')), 'c': ci, 'via': 'configure_file'})
    account(chk, cases, [], confs)
    judge(chk, cases, [], confs, 'CLI')
    chk.extra['cli_projects'] = n_projects
    chk.extra['cli_cases'] = len(cases)
    chk.extra['cli_cases_with_encoding'] = sum(1 for c in cases if 'en' in c)
