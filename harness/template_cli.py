"""C14, binding through the real command line: generated projects whose meson.build calls
configure_file() for a sample of templates x configurations x formats (and without input: the
header dump); ``meson setup --backend=none``; the produced files and the warnings about undefined
names are projected to trace cases and judged by TraceTemplate like the in-process ones."""
from __future__ import annotations

import random
import re
import subprocess
import typing as T

from . import common
from .common import Check, MachineryError, scratch


def mstr(s: str) -> str:
    """a meson string literal denoting s"""
    out = s.replace('\\', '\\\\').replace("'", "\\'").replace('\n', '\\n').replace('\r', '\\r').replace('\t', '\\t')
    return "'" + out + "'"


def mval(v: T.Any) -> str:
    if isinstance(v, bool):
        return 'true' if v else 'false'
    if isinstance(v, int):
        return str(v)
    return mstr(v)


def run(chk: Check, space: T.Dict[str, T.Any], judge: T.Callable[..., None], account: T.Callable[..., None],
        base: str) -> None:
    from . import c14_template as m
    m._init_worker(base)     # this module sees its own copy of c14_template (the driver runs as __main__)
    common.use_repo_meson()
    quick = chk.tier == 'quick'
    rnd = random.Random(chk.seed * 611953 + 17)
    atoms = [m.txt(a) for a in space['atoms']]
    model_confs = [m.conf_values(c) for c in space['confs']]
    fams = m.families(quick)
    n_projects = 2 if quick else 8
    per_project = 40
    cases: T.List[T.Dict[str, T.Any]] = []
    confs: T.List[T.Any] = []
    for pno in range(n_projects):
        items = []   # (text, values, fmt, reject)
        tries = 0
        rejecting = pno % 2 == 1    # every second project ends with one template that must be rejected
        while len(items) < per_project and tries < 4000:
            tries += 1
            if rnd.random() < 0.6:
                _, atomsel, confsel, fmtsel, _, _ = rnd.choice(fams)
                text = ''.join(atoms[rnd.choice(atomsel) - 1] for _ in range(rnd.randint(2, 9)))
                values = model_confs[rnd.choice(confsel) - 1]
                fmt = m.FORMATS[rnd.choice(fmtsel) - 1]
            else:
                fmt = rnd.choice(m.FORMATS)
                values = m._rand_conf(rnd, fmt)
                text = m._rand_template(rnd)
            e, _, _ = m.real_configure(text, values, fmt)
            if e == 0:
                items.append((text, values, fmt, False))
        if rejecting:
            items.append(('ok @a@\n#mesondefine A B C\n', {'a': 'X'}, 'meson', True))
        with scratch('c14cli-') as d:
            src = d / 'src'
            src.mkdir()
            lines = ["project('c14cli', meson_version : '>=1.1')"]
            for n, (text, values, fmt, _) in enumerate(items):
                (src / f't{n}.in').write_bytes(text.encode('utf-8'))
                lines.append(f'c{n} = configuration_data()')
                for k, v in values.items():
                    lines.append(f'c{n}.set({mstr(k)}, {mval(v)})')
                lines.append(f"configure_file(input : 't{n}.in', output : 'o{n}.txt', configuration : c{n}, format : '{fmt}')")
                if n % 5 == 0 and all(' ' not in k for k in values):
                    lines.append(f"configure_file(output : 'h{n}.h', configuration : c{n})")
            (src / 'meson.build').write_text('\n'.join(lines) + '\n', encoding='utf-8')
            try:
                p = subprocess.run([common.PYTHON, str(common.REPO / 'meson.py'), 'setup', '--backend=none', str(d / 'b'), str(src)],
                                   stdout=subprocess.PIPE, stderr=subprocess.STDOUT, text=True, timeout=600, errors='replace')
            except subprocess.TimeoutExpired as ex:
                raise MachineryError('meson setup timed out on the configure_file sample') from ex
            if rejecting != (p.returncode != 0):
                if p.returncode != 0:
                    raise MachineryError('meson setup failed on templates that do_conf_file accepts:\n' + p.stdout[-2000:])
            missing: T.Dict[str, T.List[str]] = {}
            for mm in re.finditer(r"The variable\(s\) (.*?) in the input file '([^']*)' are not present", p.stdout):
                missing[mm.group(2).split('/')[-1]] = re.findall(r"'([^']*)'", mm.group(1))
            for n, (text, values, fmt, reject) in enumerate(items):
                confs.append(m.conf_entries(values))
                ci = len(confs)
                fi = m.FORMATS.index(fmt) + 1
                out = d / 'b' / f'o{n}.txt'
                if reject:
                    cases.append({'t': m.cps(text), 'c': ci, 'f': fi, 'e': 1 if p.returncode != 0 and not out.exists() else 0,
                                  'o': m.cps(out.read_bytes().decode('utf-8')) if out.exists() else [], 'm': [], 'via': 'configure_file'})
                    continue
                if not out.exists():
                    raise MachineryError(f'configure_file produced no o{n}.txt:\n' + p.stdout[-1500:])
                cases.append({'t': m.cps(text), 'c': ci, 'f': fi, 'e': 0, 'o': m.cps(out.read_bytes().decode('utf-8')),
                              'm': sorted(m.cps(x) for x in missing.get(f't{n}.in', [])), 'via': 'configure_file'})
                hdr = d / 'b' / f'h{n}.h'
                if hdr.exists():
                    cases.append({'hd': m.project_header(hdr.read_bytes().decode('utf-8')), 'c': ci, 'via': 'configure_file'})
    account(chk, cases, [], confs)
    judge(chk, cases, [], confs, 'CLI')
    chk.extra['cli_projects'] = n_projects
    chk.extra['cli_cases'] = len(cases)
