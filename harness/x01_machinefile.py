"""X01 - machine files (native / cross files): parsing, constants, composition, wiring into the interpreter.

1. TLC model-checks specs/machinefile/MachineFile_MC: on every file list of the bounded model (state = the code
   of a file list over the alphabets of MachineFileAlphabet) the laws of the rule book hold: the two formulations
   of composition agree, evaluation is total, per-section scope, [constants] first, overriding per key and ordered,
   use-before-definition is an error, literals load, splitting a file at a section boundary changes nothing,
   grouping of `+` / `/` is irrelevant; plus the documentation's own examples as ASSUMEs.
2. (A) every file list of that model (codes printed by the TLC run itself) is rendered to text, parsed by the
   real ``parse_machine_files`` in a worker pool and judged by TraceMachineFile (TLC decodes the code with the same
   alphabet and compares with MachineFile!Eval).
3. (B) seeded random larger file lists (more files / sections / keys, longer expressions, odd spacing, comments,
   unusual characters, @DIRNAME@ / @GLOBAL_SOURCE_ROOT@, every documented failure) judged by the same trace spec.
4. (D) the documentation's own examples (Machine-files.md, Cross-compilation.md, release notes), verbatim.
5. (C) a sample of real ``meson setup --native-file a.ini --native-file b.ini [--cross-file ..]`` runs of a probe
   project that prints meson.get_external_property(), get_option(), find_program().full_path() and host_machine.*;
   judged by TraceMachineFile!JudgeCli (wiring from the parser to the interpreter).
"""
from __future__ import annotations

import json
import os
import random
import re
import subprocess
import sys
import traceback
import typing as T
from concurrent.futures import ProcessPoolExecutor, ThreadPoolExecutor
from pathlib import Path

from . import common
from . import machinefile_docs as D
from . import machinefile_gen as G
from .common import Check, MachineryError, SPECS, run_tlc, scratch

PROP = 'X01'
SRCROOT = '/x01/src root'


# ---------------------------------------------------------------------------
# driving the real parser

def _crash_site(exc: BaseException) -> str:
    """Innermost frame inside mesonbuild: '<file>:<function>:<source line>' (stable name of the defect site)."""
    site = '?'
    for fr in traceback.extract_tb(exc.__traceback__):
        if 'mesonbuild' in fr.filename:
            site = f'{os.path.basename(fr.filename)}:{fr.name}:{(fr.line or "").strip()}'
    return site


def run_parser(texts: T.List[str], wd: Path, same_dir: bool = False) -> T.Dict[str, T.Any]:
    """Write the texts as machine files below wd and load them with the real parser."""
    from mesonbuild import machinefile
    from mesonbuild.mesonlib import MesonException
    names = []
    for i, t in enumerate(texts):
        d = wd / ('d0' if same_dir else f'd{i}')
        d.mkdir(exist_ok=True)
        p = d / f'm{i}.ini'
        p.write_text(t, encoding='utf-8')
        names.append(str(p))
    env = {'dirs': [os.path.dirname(n) for n in names], 'root': SRCROOT, 'home': os.path.expanduser('~')}
    out: T.Dict[str, T.Any] = {'env': env, 'o': 'ok', 'x': '', 'r': [], 'site': ''}
    try:
        res = machinefile.parse_machine_files(names, SRCROOT)
        out['r'] = G.project_sections(res)
    except MesonException:
        out['o'] = 'error'
    except Exception as e:  # anything else is not a diagnosis but a crash
        out['o'] = 'crash'
        out['x'] = type(e).__name__
        out['site'] = _crash_site(e)
    return out


def _worker_a(args: T.Tuple[int, T.Dict[str, T.Any], T.List[T.List[int]], int, int]) -> T.List[T.Dict[str, T.Any]]:
    level, alphabet, codes, seed, base = args
    common.use_repo_meson()
    out = []
    with scratch('x01a-') as wd:
        for j, code in enumerate(codes):
            files = G.decode(code, alphabet)
            # spelling varies with the seed (spacing only; comments are left to B)
            st = G.Style(random.Random(seed * 1000003 + base + j), odd=(seed + base + j) % 3 == 0)
            texts = [G.render_file(f, st) for f in files]
            ob = run_parser(texts, wd)
            ob.update({'id': f'A{level}:{base + j}', 'm': 'A', 'level': level, 'code': code, 'text': texts})
            out.append(ob)
    return out


def gen_b(seed: int, j: int) -> T.Tuple[T.List[T.Any], T.List[str], bool]:
    rnd = random.Random(seed * 7919 + j * 31 + 5)
    files = G.Gen(rnd).gen_files()
    st = G.Style(rnd, odd=True)
    texts = [G.render_file(f, st) for f in files]
    return files, texts, rnd.random() < 0.3


def _worker_b(args: T.Tuple[int, int, int]) -> T.List[T.Dict[str, T.Any]]:
    lo, hi, seed = args
    common.use_repo_meson()
    out = []
    with scratch('x01b-') as wd:
        for j in range(lo, hi):
            files, texts, same_dir = gen_b(seed, j)
            ob = run_parser(texts, wd, same_dir)
            ob.update({'id': f'B:{j}', 'm': 'B', 'files': files, 'text': texts})
            out.append(ob)
            # every fourth case also with one file cut in two at a section boundary (the rule book says: same meaning)
            cuts = [(f, k) for f in range(len(files)) for k in range(1, len(files[f]))]
            if j % 4 == 0 and cuts:
                rnd = random.Random(seed * 7919 + j * 31 + 6)
                f, k = rnd.choice(cuts)
                files2 = files[:f] + [files[f][:k], files[f][k:]] + files[f + 1:]
                st = G.Style(rnd, odd=True)
                texts2 = [G.render_file(x, st) for x in files2]
                ob = run_parser(texts2, wd, same_dir)
                ob.update({'id': f'B:{j}s', 'm': 'B', 'files': files2, 'text': texts2})
                out.append(ob)
    return out


def run_docs() -> T.List[T.Dict[str, T.Any]]:
    """(D) the documentation's own examples, verbatim, through the real parser."""
    common.use_repo_meson()
    out = []
    for dc in D.DOC_CASES:
        doc = (common.REPO / 'docs' / 'markdown' / dc['doc']).read_text(encoding='utf-8')
        miss = D.missing_lines(dc, doc)
        if miss:
            raise MachineryError(f"example {dc['name']} is no longer in docs/markdown/{dc['doc']}: {miss[:3]}")
        texts = [t.replace('  # probe', '') for t in dc['texts']]
        with scratch('x01d-') as wd:
            ob = run_parser(texts, wd)
        ob.update({'id': 'D:' + dc['name'], 'm': 'B', 'files': dc['files'], 'text': texts})
        out.append(ob)
    return out


# ---------------------------------------------------------------------------
# (C) the command line

PROBE_BUILD = '''project('x01probe', meson_version: '>=0.56.0')
foreach k : ['p1', 'p2', 'p3', 'p4']
  message('X01PROBE prop host properties ' + k + ' @0@'.format([meson.get_external_property(k, 'X01UNSET')]))
  message('X01PROBE prop build properties ' + k + ' @0@'.format([meson.get_external_property(k, 'X01UNSET', native: true)]))
endforeach
foreach o : ['sopt', 'bopt', 'iopt', 'aopt']
  message('X01PROBE opt host project.options ' + o + ' @0@'.format([get_option(o)]))
endforeach
foreach o : ['default_library', 'werror', 'unity_size']
  message('X01PROBE opt host built-in.options ' + o + ' @0@'.format([get_option(o)]))
endforeach
foreach t : ['x01tool', 'x01other']
  p = find_program(t, required: false)
  message('X01PROBE prog host binaries ' + t + ' @0@'.format([p.found() ? p.full_path() : 'X01UNSET']))
  pb = find_program(t, required: false, native: true)
  message('X01PROBE prog build binaries ' + t + ' @0@'.format([pb.found() ? pb.full_path() : 'X01UNSET']))
endforeach
if meson.is_cross_build()
  message('X01PROBE hm host host_machine system @0@'.format([host_machine.system()]))
  message('X01PROBE hm host host_machine cpu_family @0@'.format([host_machine.cpu_family()]))
  message('X01PROBE hm host host_machine cpu @0@'.format([host_machine.cpu()]))
  message('X01PROBE hm host host_machine endian @0@'.format([host_machine.endian()]))
endif
subproject('sub')
'''
PROBE_OPTIONS = '''option('sopt', type: 'string', value: 'dflt')
option('bopt', type: 'boolean', value: false)
option('iopt', type: 'integer', value: 3)
option('aopt', type: 'array', value: ['d1'])
'''
SUB_BUILD = '''project('sub')
message('X01PROBE opt host sub:project.options sopt @0@'.format([get_option('sopt')]))
'''
SUB_OPTIONS = "option('sopt', type: 'string', value: 'subdflt')\n"
DEFAULTS: T.Dict[T.Tuple[str, str], T.Any] = {
    ('project options', 'sopt'): 'dflt', ('project options', 'bopt'): False, ('project options', 'iopt'): 3,
    ('project options', 'aopt'): ['d1'], ('sub:project options', 'sopt'): 'subdflt',
    ('built-in options', 'default_library'): 'shared', ('built-in options', 'werror'): False,
    ('built-in options', 'unity_size'): 4,
}
CLI_WORDS = ['alpha', 'beta gamma', 'x-1', '/opt/sdk', 'v=1', 'two  spaces', 'Zed']


def gen_cli(seed: int, j: int) -> T.Dict[str, T.Any]:
    """One abstract CLI case: native files (and maybe cross files) using typed keys the probe project reads."""
    rnd = random.Random(seed * 104729 + j * 17 + 3)
    cross = j % 3 == 2
    broken = j % 5 == 4

    def sval() -> G.Expr:
        r = rnd.random()
        if r < 0.5:
            return G.e1(G.a_str(rnd.choice(CLI_WORDS)))
        if r < 0.75:
            return [[G.a_id('word')], [G.a_str(rnd.choice(CLI_WORDS))]]
        return [[G.a_id('base'), G.a_str(rnd.choice(['sub', 'sub/dir']))]]

    def aval() -> G.Expr:
        lit = G.a_arr([sval() for _ in range(rnd.choice([1, 2, 3]))])
        return [[G.a_id('flags')], [lit]] if rnd.random() < 0.4 else [[lit]]

    def anyval() -> G.Expr:
        return rnd.choice([sval, sval, aval, lambda: G.e1(G.a_int(rnd.choice([0, 5, 77]))),
                           lambda: G.e1(G.a_bool(rnd.random() < 0.5))])()

    def tool() -> G.Expr:
        t = rnd.choice(['t1', 't2', 't3'])
        r = rnd.random()
        if r < 0.4:
            return [[G.a_id('tooldir'), G.a_str(t)]]
        if r < 0.7:
            return G.e1(G.a_str('@DIRNAME@/tools/' + t))
        return G.e1(G.a_arr([[[G.a_id('tooldir'), G.a_str(t)]], G.e1(G.a_str('--flag'))]))

    consts = {'name': 'constants', 'entries': [
        G.entry('word', G.e1(G.a_str(rnd.choice(CLI_WORDS)))),
        G.entry('base', G.e1(G.a_str(rnd.choice(['/base', '/base/', 'rel'])))),
        G.entry('flags', G.e1(G.a_arr([G.e1(G.a_str('-f1'))]))),
        G.entry('tooldir', [[G.a_str('@DIRNAME@'), G.a_str('tools')]]),
    ]}

    def some_file(first: bool, is_cross: bool, with_opts: bool) -> T.List[T.Dict[str, T.Any]]:
        secs: T.List[T.Dict[str, T.Any]] = []
        if first:
            secs.append(json.loads(json.dumps(consts)))
        elif rnd.random() < 0.5:
            # a later file may re-define a constant: everything that uses it changes ([MF-C] example 1)
            secs.append({'name': 'constants', 'entries': [G.entry(rnd.choice(['word', 'base']), G.e1(G.a_str(rnd.choice(CLI_WORDS))))]})
        if is_cross and first:
            secs.append({'name': 'host_machine', 'entries': [
                G.entry('system', G.e1(G.a_str('baremetal'))), G.entry('cpu_family', G.e1(G.a_str('arm'))),
                G.entry('cpu', G.e1(G.a_str('cortex-m4'))), G.entry('endian', G.e1(G.a_str('little')))]})
        elif is_cross and rnd.random() < 0.6:
            secs.append({'name': 'host_machine', 'entries': [G.entry('cpu', G.e1(G.a_str(rnd.choice(['cortex-m7', 'cortex-a53']))))]})
        ks = [k for k in ['p1', 'p2', 'p3', 'p4'] if rnd.random() < 0.5]
        if ks:
            secs.append({'name': 'properties', 'entries': [G.entry(k, anyval()) for k in ks]})
        ts = [t for t in ['x01tool', 'x01other'] if rnd.random() < 0.5]
        if ts:
            secs.append({'name': 'binaries', 'entries': [G.entry(t, tool()) for t in ts]})
        if with_opts:
            ents = []
            if rnd.random() < 0.5:
                ents.append(G.entry('sopt', sval()))
            if rnd.random() < 0.4:
                ents.append(G.entry('bopt', G.e1(G.a_bool(rnd.random() < 0.6))))
            if rnd.random() < 0.4:
                ents.append(G.entry('iopt', G.e1(G.a_int(rnd.choice([0, 9, 12345])))))
            if rnd.random() < 0.4:
                ents.append(G.entry('aopt', aval()))
            if ents:
                secs.append({'name': 'project options', 'entries': ents})
            if rnd.random() < 0.4:
                secs.append({'name': 'sub:project options', 'entries': [G.entry('sopt', sval())]})
        rnd.shuffle(secs)
        return secs

    def builtin_sec() -> T.Dict[str, T.Any]:
        ents = []
        if rnd.random() < 0.6:
            ents.append(G.entry('default_library', G.e1(G.a_str(rnd.choice(['static', 'both', 'shared'])))))
        if rnd.random() < 0.5:
            ents.append(G.entry('werror', G.e1(G.a_bool(rnd.random() < 0.7))))
        if rnd.random() < 0.5:
            ents.append(G.entry('unity_size', G.e1(G.a_int(rnd.choice([2, 8, 100])))))
        return {'name': 'built-in options', 'entries': ents}

    native = [some_file(i == 0, False, True) for i in range(rnd.choice([1, 2, 2, 3]))]
    crossf: T.List[T.Any] = []
    if cross:
        crossf = [some_file(i == 0, True, True) for i in range(rnd.choice([1, 2]))]
        # built-in options that are not per machine belong to the cross file in a cross build
        if rnd.random() < 0.6:
            rnd.choice(crossf).append(builtin_sec())
    else:
        for f in native:
            if rnd.random() < 0.5:
                f.append(builtin_sec())
    if broken:
        # one documented failure in a file that is really used
        victim = rnd.choice(crossf if (cross and rnd.random() < 0.5) else native)
        bad = rnd.choice([G.e1(G.a_id('nosuch')), [[G.a_str('x')], [G.a_int(1)]], G.e1(G.a_bad('call')),
                          [[G.a_id('word'), G.a_id('flags')]]])
        victim.append({'name': 'paths' if rnd.random() < 0.3 else 'properties', 'entries': [G.entry('p9', bad)]})
        # a section twice in one file would be undecided; merge instead
        names = [s['name'] for s in victim]
        if names.count(victim[-1]['name']) > 1:
            last = victim.pop()
            for s in victim:
                if s['name'] == last['name']:
                    s['entries'] += last['entries']
                    break
    return {'native': native, 'cross': crossf}


_VAL_TOK = re.compile(r"\s*(\[|\]|,|'[^']*'|true|false|\d+)\s*")


def parse_printed(s: str) -> T.Any:
    """Value printed by '@0@'.format([v]) -> python value (strings of the CLI alphabet contain no quote)."""
    toks = []
    pos = 0
    while pos < len(s):
        m = _VAL_TOK.match(s, pos)
        if not m:
            raise MachineryError('cannot read printed value ' + s)
        toks.append(m.group(1))
        pos = m.end()
    pos = 0

    def val() -> T.Any:
        nonlocal pos
        t = toks[pos]
        pos += 1
        if t == '[':
            out = []
            while toks[pos] != ']':
                out.append(val())
                if toks[pos] == ',':
                    pos += 1
            pos += 1
            return out
        if t == 'true':
            return True
        if t == 'false':
            return False
        if t.startswith("'"):
            return t[1:-1]
        return int(t)
    try:
        v = val()
    except (IndexError, ValueError) as ex:
        raise MachineryError('cannot read printed value ' + s) from ex
    if pos != len(toks) or not isinstance(v, list) or len(v) != 1:
        raise MachineryError('cannot read printed value ' + s)
    return v[0]


def run_cli(args: T.Tuple[int, int]) -> T.Dict[str, T.Any]:
    seed, j = args
    case = gen_cli(seed, j)
    st = G.Style(random.Random(seed * 13 + j), odd=j % 2 == 1)
    with scratch('x01c-') as wd:
        src = wd / 'src'
        (src / 'subprojects' / 'sub').mkdir(parents=True)
        (src / 'meson.build').write_text(PROBE_BUILD)
        (src / 'meson_options.txt').write_text(PROBE_OPTIONS)
        (src / 'subprojects' / 'sub' / 'meson.build').write_text(SUB_BUILD)
        (src / 'subprojects' / 'sub' / 'meson_options.txt').write_text(SUB_OPTIONS)
        cmd = [common.PYTHON, str(common.REPO / 'meson.py'), 'setup', '--backend=none']
        envs = {}
        texts = {}
        for kind, flag in (('native', '--native-file'), ('cross', '--cross-file')):
            dirs = []
            texts[kind] = []
            for i, f in enumerate(case[kind]):
                d = wd / f'{kind}{i}'
                (d / 'tools').mkdir(parents=True)
                for t in ('t1', 't2', 't3'):
                    tp = d / 'tools' / t
                    tp.write_text('#!/bin/sh\necho ' + t + '\n')
                    tp.chmod(0o755)
                txt = G.render_file(f, st)
                (d / 'm.ini').write_text(txt, encoding='utf-8')
                texts[kind].append(txt)
                dirs.append(str(d))
                # given relative to the working directory: @DIRNAME@ must still be the absolute directory
                cmd += [flag, os.path.join(f'{kind}{i}', 'm.ini')]
            envs[kind] = {'dirs': dirs, 'root': str(src), 'home': os.path.expanduser('~')}
        cmd += ['b', 'src']
        e = dict(os.environ)
        e.pop('MESON_RUNNING_IN_PROJECT_TESTS', None)
        try:
            p = subprocess.run(cmd, cwd=wd, env=e, stdout=subprocess.PIPE, stderr=subprocess.STDOUT, text=True, timeout=900)
        except subprocess.TimeoutExpired as ex:
            raise MachineryError('meson setup timed out') from ex
        out = p.stdout
    obs: T.Dict[str, T.Any] = {'id': f'C:{j}', 'm': 'C', 'native': case['native'], 'cross': case['cross'],
                               'envn': envs['native'], 'envc': envs['cross'], 'o': 'ok', 'x': '', 'probes': [],
                               'text': texts, 'site': ''}
    if 'Traceback (most recent call last)' in out or 'Unhandled python exception' in out:
        obs['o'] = 'crash'
        m = re.findall(r'^(\w+(?:Error|Exception)\b.*)$', out, re.M)
        obs['x'] = (m[-1].split(':')[0] if m else 'unknown')
        fr = re.findall(r'File ".*?mesonbuild/([^"]+)", line \d+, in (\w+)\n\s+(.*)', out)
        if fr:
            obs['site'] = f'{os.path.basename(fr[-1][0])}:{fr[-1][1]}:{fr[-1][2].strip()}'
        obs['output'] = out[-1500:]
    elif p.returncode != 0:
        obs['o'] = 'error'
        m = re.search(r'ERROR: (.*)', out)
        obs['x'] = (m.group(1) if m else '')[:200]
    else:
        for m in re.finditer(r'X01PROBE (\w+) (\w+) (\S+) (\S+) (\[.*\])\s*$', out, re.M):
            kind, machine, sec, key, printed = m.groups()
            sec = sec.replace('.', ' ')
            dflt = DEFAULTS.get((sec, key), 'X01UNSET')
            obs['probes'].append({'kind': kind, 'machine': machine, 'sec': sec, 'key': key, 'dflt': G.pval(dflt),
                                  'got': G.pval(parse_printed(printed))})
        if len(obs['probes']) < 20:
            raise MachineryError('probe project printed too little:\n' + out[-2000:])
    return obs


# ---------------------------------------------------------------------------
# judging with TLC

KEEP = {'A': ('id', 'm', 'level', 'code', 'env', 'o', 'x', 'r'),
        'B': ('id', 'm', 'files', 'env', 'o', 'x', 'r'),
        'C': ('id', 'm', 'native', 'cross', 'envn', 'envc', 'o', 'x', 'probes')}


def _judge_part(part: T.Sequence[T.Dict[str, T.Any]], workers: int) -> T.Tuple[common.TLCResult, T.List[T.Any]]:
    with scratch('x01j-') as d:
        tf = d / 'cases.json'
        tf.write_text(json.dumps([{k: c[k] for k in KEEP[c['m']]} for c in part], ensure_ascii=False))
        res = run_tlc(SPECS / 'machinefile', 'TraceMachineFile', env={'TRACE_FILE': str(tf)}, timeout=5400,
                      workers=workers)
    if not res.clean:
        raise MachineryError('TraceMachineFile did not complete cleanly:\n' + res.stdout[-1500:])
    if res.distinct != 2 * len(part):
        raise MachineryError(f'TraceMachineFile judged {res.distinct // 2} of {len(part)} cases')
    return res, res.json_lines()


def judge(chk: Check, cases: T.List[T.Dict[str, T.Any]], label: str, batch: int = 20000) -> None:
    if not cases:
        return
    by_id = {c['id']: c for c in cases}
    parts = list(common.chunks(cases, batch))
    par = min(4, len(parts))
    with ThreadPoolExecutor(max_workers=par) as tp:
        results = list(tp.map(lambda p: _judge_part(p, max(2, common.NCPU // par)), parts))
    for n, (res, bad) in enumerate(results):
        chk.add_tlc(f'TraceMachineFile[{label}#{n}]', res, model=False)
        for v in bad:
            c = by_id[v['id']]
            chk.violation(signature(c, v), {'verdict': v, 'case': {k: c[k] for k in KEEP[c['m']] if k not in ('o', 'x', 'r', 'probes')},
                                            'text': c.get('text'), 'observed': {k: c.get(k) for k in ('o', 'x', 'r', 'probes', 'site')},
                                            'output': c.get('output', '')})
    chk.traces += len(cases)


def signature(c: T.Dict[str, T.Any], v: T.Dict[str, T.Any]) -> str:
    clause = v.get('clause', '?')
    if clause.startswith('Crash') or clause == 'CliCrash':
        # one defect = one crash site, whatever input reaches it
        return f"{clause}:{c.get('x')}@{c.get('site')}"
    if c['id'].startswith('D:'):
        return f"{clause}@doc:{c['id'][2:]}:{v.get('sec')}/{v.get('key')}"
    if c['m'] == 'A':
        return f"{clause}@L{c['level']}:{','.join(map(str, c['code']))}:{v.get('sec')}/{v.get('key')}"
    text = c.get('text')
    flat = json.dumps(text, ensure_ascii=False, sort_keys=True)
    flat = re.sub(r'/[^\s\'"]*x01[abc]-[^/\'"]*', '<wd>', flat)
    if len(flat) > 300:
        import hashlib
        flat = flat[:200] + '..' + hashlib.sha1(flat.encode()).hexdigest()[:12]
    return f"{clause}@{v.get('sec')}/{v.get('key')}:{flat}"


# ---------------------------------------------------------------------------

def _account(chk: Check, cases: T.List[T.Dict[str, T.Any]]) -> None:
    chk.evaluations += len(cases)
    for c in cases:
        files = c.get('files')
        if c['m'] == 'A':
            code = c['code']
            # non-trivial: an override across files, an identifier / operator form, or a failure
            keys = [(t) for t in code if t >= 1000]
            if code.count(0) >= 2 or c['o'] != 'ok' or any(t % 1000 >= 5 for t in keys):
                chk.nontriv('A%d:' % c['level'] + ','.join(map(str, code)))
        elif c['m'] == 'B':
            if len(files) >= 2 or c['o'] != 'ok':
                chk.nontriv(c['id'] + json.dumps(c['text'])[:60])
        else:
            chk.nontriv(c['id'])
    for c in cases[:: max(1, len(cases) // 2)][:2]:
        chk.sample({'id': c['id'], 'text': c.get('text'), 'outcome': c['o'], 'result': (c.get('r') or c.get('probes') or [])[:6]}, limit=8)


MODELS = {
    # name: (Level, MaxFiles, MaxSecs, MaxEntries)
    'quick': [(1, 2, 2, 2), (2, 3, 2, 3)],
    'thorough': [(1, 2, 3, 2), (3, 3, 2, 3), (4, 3, 2, 4)],
}


def model_run(chk: Check, level: int, maxfiles: int, maxsecs: int, maxentries: int) -> T.Tuple[T.Dict[str, T.Any], T.List[T.List[int]]]:
    cfg = ('SPECIFICATION Spec\nCONSTANTS Level = %d\n MaxFiles = %d\n MaxSecs = %d\n MaxEntries = %d\n'
           'INVARIANT Laws\nINVARIANT EmitCode\nCHECK_DEADLOCK FALSE\nPOSTCONDITION EmitAlphabet\n'
           % (level, maxfiles, maxsecs, maxentries))
    res = run_tlc(SPECS / 'machinefile', 'MachineFile_MC', cfg_text=cfg, collect=['alphabet.json'], timeout=5400,
                  allow_violation=False)
    chk.add_tlc(f'MachineFile_MC[L{level},files<={maxfiles},secs<={maxsecs},entries<={maxentries}]', res)
    alphabet = json.loads(res.collected['alphabet.json'])[0]
    codes = sorted({tuple(int(x) for x in re.findall(r'\d+', line)) for line in res.stdout.splitlines()
                    if line.startswith('<<') and line.rstrip().endswith('>>')})
    if len(codes) != res.distinct:
        raise MachineryError(f'model L{level}: {res.distinct} states but {len(codes)} codes exported')
    return alphabet, [list(c) for c in codes]


def main(chk: Check) -> None:
    quick = chk.tier == 'quick'
    n_rand = 2500 if quick else 30000
    n_cli = 15 if quick else 75
    chk.rule = ('A: every file list of the bounded TLC model (codes exported by the model run: <= MaxFiles files, <= MaxSecs '
                'sections per file over {constants, properties, binaries}, <= MaxEntries entries over 2 keys x the form alphabet '
                'of the level), rendered with seeded spacing; B: seeded random lists of 1-4 files x 0-4 sections x 0-5 entries '
                'with chained expressions, odd spacing, comments, unusual characters and injected documented failures; C: real '
                'meson setup runs of a probe project. Non-trivial = at least two files, or an identifier/operator form, or a '
                'failure outcome (distinct inputs).')
    with ProcessPoolExecutor(max_workers=common.NCPU) as ex:
        # CLI sample first: it runs in the background of everything else
        cli_futs = [ex.submit(run_cli, (chk.seed, j)) for j in range(n_cli)]
        b_step = max(1, n_rand // (common.NCPU * 2))
        b_futs = [ex.submit(_worker_b, (lo, min(n_rand, lo + b_step), chk.seed)) for lo in range(0, n_rand, b_step)]
        for (level, mf, ms, me) in MODELS[chk.tier]:
            alphabet, codes = model_run(chk, level, mf, ms, me)
            chk.extra.setdefault('models', []).append({'level': level, 'max_files': mf, 'max_secs': ms, 'max_entries': me,
                                                       'forms': len(alphabet['forms']), 'file_lists': len(codes)})
            # in slices, so that a large model never sits in memory as a whole
            for sl, base in enumerate(range(0, len(codes), 80000)):
                chunk = codes[base:base + 80000]
                step = max(1, min(4000, len(chunk) // (common.NCPU * 2) + 1))
                jobs = [(level, alphabet, chunk[lo:lo + step], chk.seed, base + lo) for lo in range(0, len(chunk), step)]
                cases: T.List[T.Dict[str, T.Any]] = []
                for part in ex.map(_worker_a, jobs):
                    cases.extend(part)
                _account(chk, cases)
                judge(chk, cases, f'A-L{level}.{sl}')
        cases = []
        for f in b_futs:
            cases.extend(f.result())
        _account(chk, cases)
        judge(chk, cases, 'B', batch=4000)
        cases = run_docs()
        _account(chk, cases)
        judge(chk, cases, 'D')
        cases = [f.result() for f in cli_futs]
        _account(chk, cases)
        judge(chk, cases, 'C')
        chk.extra['cli_outcomes'] = {o: sum(1 for c in cases if c['o'] == o) for o in ('ok', 'error', 'crash')}
    chk.exhaustive = True
    chk.assumptions += [
        'strings never contain a backslash, a single quote or a line break (escape handling in machine files is not documented)',
        'integers are decimal, non-negative and below 2^31; `-1` is not generated (documentation is silent on signs)',
        'parentheses, f-strings, multi-line strings, multi-line values (continuation lines), trailing commas, `;` comments '
        'and indented entries are not generated (not documented for machine files)',
        'keys are taken from the documented names plus identifier-shaped extras; keys with blanks or quotes, keys named like '
        'the built-in constants (True, False, ~) and key names that are Meson keywords are not generated',
        'a section or key written twice in one file, an empty operand of `/`, and a name that is both a constant and an earlier '
        'entry of the same section are undecided by the documentation: any clean outcome is accepted (only a crash is not)',
        'errors are compared as error / no error for the whole file list; message texts are not compared',
        'key order inside a section and the presence of empty sections are not observed',
        'CLI sample: well-typed values for the options the probe project declares; host_machine only in the cross flavour; '
        'built-in options of the native file are not probed in a cross build',
    ]


def replay(chk: Check, data: T.Dict[str, T.Any]) -> None:
    det = data['detail']
    case = dict(det['case'])
    if case['m'] == 'C':
        m = re.match(r'C:(\d+)', case['id'])
        if not m:
            raise MachineryError('cannot replay this CLI case')
        judge(chk, [run_cli((data.get('seed', 0), int(m.group(1))))], 'replay')
        return
    common.use_repo_meson()
    with scratch('x01r-') as wd:
        same = len(set(case['env']['dirs'])) < len(case['env']['dirs'])
        ob = run_parser(det['text'], wd, same)
    # recorded texts may mention the scratch directory of the original run only through @DIRNAME@ (substituted by the tool)
    case.update({k: ob[k] for k in ('env', 'o', 'x', 'r', 'site')})
    case['text'] = det['text']
    judge(chk, [case], 'replay')


if __name__ == '__main__':
    sys.exit(common.run_check(main, PROP, replay=replay))
