"""X02 - command template substitution (`@INPUT@` ...) and Makefile-style dependency files.

Two rule books, one driver:

``subst:``   specs/cmdsubst/CmdSubst.tla (+ CmdBackend.tla for the project level)
  1. TLC model-checks CmdSubst_MC: laws of the substitution function on every command of <= N words over
     the model's word alphabet, for every shape of 0-2 inputs / 0-2 outputs.
  2. (A) that same space (exported by the TLC run) is replayed through the real
     ``get_filenames_templates_dict`` + ``substitute_values`` in-process; the dictionary itself and the
     ``Generator`` name rules are recorded too; TraceCmdSubst (TLC) judges every record.
  3. (B1) seeded random larger cases (up to 12 files, multi-placeholder words, two-digit indexes) in-process.
  4. (B2) generated projects configured with the real ``meson setup`` (ninja backend, stub ninja): the command,
     outputs and depfile of every custom_target()/generator() edge are read from build.ninja with the
     independent reader harness/ninja_ref.py, configure_file(command:) is observed by the argv its command
     really received; TraceCmdProject (TLC) judges them against CmdBackend.

``depfile:`` specs/cmdsubst/DepFile.tla
  1. TLC model-checks DepFile_MC (two tokeniser formulations equal, closure laws).
  2. (A) every depfile of <= N lines over the model's line alphabet through the real ``depfile.parse`` and
     ``DepFile.get_all_dependencies``; (B) random larger files; TraceDepFile (TLC) judges.
"""
from __future__ import annotations

import itertools
import json
import random
import re
import sys
import threading
import typing as T
from concurrent.futures import ProcessPoolExecutor

from . import cmdsubst_projects as cproj
from . import common
from .common import Check, MachineryError, SPECS, run_tlc, scratch

PROP = 'X02'
LOCK = threading.Lock()
FAM = SPECS / 'cmdsubst'

# ---------------------------------------------------------------------------
# part 1, in-process layer


def subst_case(ml: T.Any, ins: T.List[str], outs: T.List[str], cmd: T.List[str]) -> T.Dict[str, T.Any]:
    """One execution of the real dictionary + substitution functions."""
    case: T.Dict[str, T.Any] = {'k': 'subst', 'ins': ins, 'outs': outs, 'cmd': cmd, 'ok': False, 'res': [], 'exc': ''}
    try:
        d = ml.get_filenames_templates_dict(list(ins), list(outs))
        res = ml.substitute_values(list(cmd), d)
        case['ok'] = True
        case['res'] = [x if isinstance(x, str) else 'non-string:' + repr(x) for x in res]
    except ml.MesonException:
        case['exc'] = 'MesonException'
    except Exception as e:  # anything else is a crash, the judge says so
        case['exc'] = type(e).__name__
    return case


def dict_case(ml: T.Any, ins: T.List[str], outs: T.List[str]) -> T.Dict[str, T.Any]:
    d = ml.get_filenames_templates_dict(list(ins), list(outs))
    ents = []
    for k, v in d.items():
        if isinstance(v, list):
            ents.append({'key': k, 'vals': list(v), 'list': True})
        else:
            ents.append({'key': k, 'vals': [v], 'list': False})
    return {'k': 'dict', 'ins': ins, 'outs': outs, 'd': ents}


def name_cases(build: T.Any, templ: str, inname: str) -> T.List[T.Dict[str, T.Any]]:
    """The three places where a Generator applies @BASENAME@/@PLAINNAME@ to one input name."""
    out = []
    g = build.Generator(None, None, [templ], [templ], depfile=templ)
    for what, fn in (('outname', lambda: g.get_base_outnames(inname)[0]),
                     ('depname', lambda: g.get_dep_outname(inname)),
                     ('arg', lambda: g.get_arglist(inname)[0])):
        c = {'k': 'name', 't': templ, 'i': inname, 'r': '', 'exc': '', 'what': what}
        try:
            c['r'] = fn()
        except Exception as e:
            c['exc'] = type(e).__name__
        out.append(c)
    return out


def _worker_subst_enum(args: T.Tuple[T.Dict[str, T.Any], int, int, int]) -> T.List[T.Dict[str, T.Any]]:
    space, n, lo, hi = args
    common.use_repo_meson()
    from mesonbuild import mesonlib as ml
    alpha = space['alphabet']
    cfgs = [(a, b) for a in space['inputs'] for b in space['outputs']]
    k = len(alpha)
    per = k ** n
    out = []
    for code in range(lo, hi):
        ci, wc = divmod(code, per)
        words = []
        for _ in range(n):
            wc, r = divmod(wc, k)
            words.append(alpha[r])
        ins, outs = cfgs[ci]
        c = subst_case(ml, list(ins), list(outs), words)
        c['id'] = f'A{n}:{code}'
        out.append(c)
    return out


LITS = ['x', '-o', '--opt=', '.ext', '/', ',', ':', 'user@host', '@foo@', '@', '-D', ' ', '=', 'dir/', '.d', '@FOO@',
        'a b', 'éß', '-', '_1', '@0@', '@@']
DIRS = ['', '', 'src', 'a/b', '../up', 'sub.dir', 'gen/x.p']
STEMS = ['foo', 'bar.c', 'x.y.z', 'noext', 'lib-1.2', 'UPPER', 'a', 'in_put', 'data.tar']
EXTS = ['', '.c', '.in', '.gz', '.idl', '.h']


def rand_file(rnd: random.Random, d: T.Optional[str] = None) -> str:
    d = rnd.choice(DIRS) if d is None else d
    n = rnd.choice(STEMS) + rnd.choice(EXTS)
    if rnd.random() < 0.03:
        n = 'x@IN' if rnd.random() < 0.5 else 'at@' + n
    return (d + '/' if d else '') + n


def rand_placeholder(rnd: random.Random, ni: int, no: int, legal_only: bool, whole: bool) -> str:
    def idx(n: int) -> int:
        if legal_only or rnd.random() < 0.7:
            return rnd.randrange(n) if n else 0
        return rnd.choice([n, n + 1, n + 9, 10, 11])
    forms = []
    if not legal_only or ni >= 1:
        forms += ['INPUTn', 'PLAINNAMEn', 'BASENAMEn']
    if not legal_only or ni == 1 or (ni > 1 and whole):
        forms += ['INPUT']
    if not legal_only or ni == 1:
        forms += ['PLAINNAME', 'BASENAME']
    if not legal_only or no >= 1:
        forms += ['OUTPUTn', 'OUTDIR']
    if not legal_only or no == 1 or (no > 1 and whole):
        forms += ['OUTPUT']
    if not forms:
        return rnd.choice(LITS)
    f = rnd.choice(forms)
    if f.endswith('n'):
        n = ni if f[0] in 'IPB' else no
        return '@%s%d@' % (f[:-1], idx(n))
    return '@' + f + '@'


def rand_word(rnd: random.Random, ni: int, no: int, legal_only: bool) -> str:
    r = rnd.random()
    if r < 0.25:
        return rnd.choice(LITS) + rnd.choice(['', 'y', '1'])
    if r < 0.6:
        return rand_placeholder(rnd, ni, no, legal_only, True)
    nph = 1 if r < 0.85 else rnd.randint(2, 3)
    w = rnd.choice(LITS + ['']) if rnd.random() < 0.7 else ''
    for j in range(nph):
        w += rand_placeholder(rnd, ni, no, legal_only, False)
        if j < nph - 1 or rnd.random() < 0.6 or not w.count('@') > 2:
            w += rnd.choice(LITS)
    return w


def rand_subst_input(rnd: random.Random) -> T.Tuple[T.List[str], T.List[str], T.List[str]]:
    ni = rnd.choice([0, 1, 1, 1, 2, 2, 3, 5, 11, 12])
    no = rnd.choice([0, 1, 1, 1, 2, 2, 3, 11])
    ins = [rand_file(rnd) for _ in range(ni)]
    od = rnd.choice(DIRS)
    outs = [rand_file(rnd, od) for _ in range(no)]
    legal_only = rnd.random() < 0.6
    cmd = [rand_word(rnd, ni, no, legal_only) for _ in range(rnd.randint(1, 7))]
    return ins, outs, cmd


def _worker_subst_rand(args: T.Tuple[int, int, int]) -> T.List[T.Dict[str, T.Any]]:
    lo, hi, sd = args
    common.use_repo_meson()
    from mesonbuild import mesonlib as ml, build
    out = []
    for j in range(lo, hi):
        rnd = random.Random(sd * 1000003 + j)
        ins, outs, cmd = rand_subst_input(rnd)
        c = subst_case(ml, ins, outs, cmd)
        c['id'] = f'B1:{j}'
        out.append(c)
        if j % 8 == 0:
            d = dict_case(ml, ins, outs)
            d['id'] = f'B1d:{j}'
            out.append(d)
        if j % 8 == 1:
            templ = rnd.choice(['@BASENAME@.c', '@PLAINNAME@.o', 'pre_@BASENAME@_@PLAINNAME@', '@BASENAME@', 'lib@PLAINNAME@.h',
                                '@BASENAME0@.x', '@INPUT@.@BASENAME@', 'plain.txt', '@BASENAME@@PLAINNAME@', '@FOO@@BASENAME@.d'])
            for n, nc in enumerate(name_cases(build, templ, rand_file(rnd))):
                nc['id'] = f'B1n:{j}:{n}'
                out.append(nc)
    return out


def subst_shape(word: str, ni: int, no: int) -> str:
    """Normalised spelling of a command word for signatures: literal text -> _, indexes -> i (in range) / I."""
    def rep(m: T.Match[str]) -> str:
        name, dg = m.group(1), m.group(2)
        if not dg:
            return '<' + name + '>'
        n = ni if name in ('INPUT', 'PLAINNAME', 'BASENAME') else no
        return '<' + name + ('i' if int(dg) < n else 'I') + '>'
    s = re.sub(r'@(INPUT|OUTPUT|PLAINNAME|BASENAME)([0-9]*)@', rep, word)
    s = re.sub(r'@(OUTDIR|DEPFILE|PRIVATE_DIR|SOURCE_ROOT|BUILD_ROOT|CURRENT_SOURCE_DIR|SOURCE_DIR|BUILD_DIR|EXTRA_ARGS)@', r'<\1>', s)
    return re.sub(r'[^<>]+(?=<|$)|(?<=>)[^<>]+', '_', s) if '<' in s else '_'


def cls(n: int) -> str:
    return str(n) if n < 2 else '2+'


def subst_signature(c: T.Dict[str, T.Any], v: T.Dict[str, T.Any]) -> T.Union[str, T.List[str]]:
    cl = v['clause']
    if c.get('k') == 'subst':
        ni, no = len(c['ins']), len(c['outs'])
        if cl == 'ErrorExpected':
            # every broken rule on its own demands an error, so every one of them is reported on its own
            return ['subst:error-expected:' + r for r in sorted(set(v['rules']))]
        if cl == 'UnexpectedError':
            shapes = sorted({subst_shape(w, ni, no) for w in c['cmd'] if '<' in subst_shape(w, ni, no)})
            return f'subst:unexpected-error:ni={cls(ni)},no={cls(no)}:' + ' '.join(shapes)
        if cl == 'Result':
            return f'subst:result:ni={cls(ni)},no={cls(no)}:' + subst_shape(v['word'], ni, no)
        if cl == 'Crash':
            return 'subst:crash:' + ','.join(v['rules'])
    if c.get('k') == 'dict':
        return f"subst:dict:{cl}:ni={cls(len(c['ins']))},no={cls(len(c['outs']))}:" + re.sub(r'\d+', 'n', v['word'])
    if c.get('k') == 'name':
        return f"subst:name:{cl}:{c.get('what')}:" + subst_shape(c['t'], 1, 0)
    return f'subst:{cl}'


def judge(chk: Check, module: str, cases: T.List[T.Dict[str, T.Any]], label: str,
          sig: T.Callable[[T.Dict[str, T.Any], T.Dict[str, T.Any]], T.Union[str, T.List[str]]], drop: T.Sequence[str] = (),
          nproc: int = 0, skip_unspecified: bool = False) -> int:
    """Validate recorded executions with a TLC trace spec; split over a few TLC processes (JSON load is serial)."""
    if not cases:
        return 0
    skipped = 0
    by_id = {c['id']: c for c in cases}
    nproc = nproc or min(6, len(cases) // 4000 + 1)
    size = max(1, (len(cases) + nproc - 1) // nproc)
    parts = list(common.chunks(cases, size))

    def run(part: T.Sequence[T.Dict[str, T.Any]]) -> common.TLCResult:
        with scratch('x02-') as d:
            tf = d / 'cases.json'
            tf.write_text(json.dumps([{k: v for k, v in c.items() if k not in drop} for c in part]))
            return run_tlc(FAM, module, env={'TRACE_FILE': str(tf)}, timeout=3000,
                           workers=3)
    from concurrent.futures import ThreadPoolExecutor
    with ThreadPoolExecutor(max_workers=len(parts)) as ex:
        results = list(ex.map(run, parts))
    for n, (part, res) in enumerate(zip(parts, results)):
        if not res.clean:
            raise MachineryError(f'{module} did not complete cleanly:\n' + res.stdout[-2500:])
        if res.distinct != 2 * len(part):
            raise MachineryError(f'{module} judged {res.distinct // 2} of {len(part)} cases')
        with LOCK:
            chk.add_tlc(f'{module}[{label}#{n}]', res, model=False)
            chk.traces += len(part)
        for v in res.json_lines():
            c = by_id.get(v['id'], {})
            if v['clause'] == 'Unspecified' and skip_unspecified:
                skipped += 1
                continue
            if v['clause'] == 'Unspecified':
                raise MachineryError(f'generator produced an input outside the rule book: {v} {c}')
            sg = sig(c, v)
            for one in ([sg] if isinstance(sg, str) else sg):
                with LOCK:
                    chk.violation(one, {'verdict': v, 'case': c})
    return skipped


def account_subst(chk: Check, cases: T.List[T.Dict[str, T.Any]]) -> None:
    with LOCK:
        _account_subst(chk, cases)


def _account_subst(chk: Check, cases: T.List[T.Dict[str, T.Any]]) -> None:
    chk.evaluations += len(cases)
    for c in cases:
        if c['k'] == 'subst' and any('@' in w for w in c['cmd']):
            ni, no = len(c['ins']), len(c['outs'])
            chk.nontriv(f"{cls(ni)}/{cls(no)}/{c['ok']}/" + ' '.join(subst_shape(w, ni, no) for w in c['cmd']))
    for c in cases[:: max(1, len(cases) // 2)][:2]:
        chk.sample(c, limit=12)


def part1_inprocess(chk: Check, ex: ProcessPoolExecutor, quick: bool) -> None:
    # full word alphabet for short commands, one representative per kind of word for longer ones
    runs = [(1, False), (2, True)] if quick else [(2, False), (3, True)]
    invs = ('ErrorIffDocumented', 'NoPlaceholderLeft', 'Idempotent', 'WordCount', 'PlainPreserved', 'WordLocal',
            'PrefixStable', 'DictFunctional', 'DictMatchesRules', 'DictMatchesValues')

    def mc(run: T.Tuple[int, bool]) -> common.TLCResult:
        n, red = run
        cfg = (f'SPECIFICATION Spec\nCONSTANTS MaxLen = {n}\n Reduced = {"TRUE" if red else "FALSE"}\n' +
               ''.join(f'INVARIANT {x}\n' for x in invs) + 'CHECK_DEADLOCK FALSE\nPOSTCONDITION Export\n')
        return run_tlc(FAM, 'CmdSubst_MC', cfg_text=cfg, collect=['space.json'], timeout=3000, allow_violation=False,
                       workers=max(2, common.NCPU // 4))
    from concurrent.futures import ThreadPoolExecutor
    with ThreadPoolExecutor(max_workers=2) as tex:
        results = list(tex.map(mc, runs))
    cases: T.List[T.Dict[str, T.Any]] = []
    seen: T.Set[str] = set()
    for (n_mc, red), res in zip(runs, results):
        with LOCK:
            chk.add_tlc(f'CmdSubst_MC[MaxLen={n_mc},Reduced={red}]', res)
        space = json.loads(res.collected['space.json'])
        with LOCK:
            chk.extra['subst_alphabet_words_' + ('reduced' if red else 'full')] = len(space['alphabet'])
            chk.extra['subst_file_shapes'] = len(space['inputs']) * len(space['outputs'])
        ncfg = len(space['inputs']) * len(space['outputs'])
        for n in range(0, n_mc + 1):
            total = ncfg * len(space['alphabet']) ** n
            step = max(1, min(4000, total // (common.NCPU * 2) + 1))
            for part in ex.map(_worker_subst_enum, [(space, n, lo, min(total, lo + step)) for lo in range(0, total, step)]):
                for c in part:
                    key = json.dumps([c['ins'], c['outs'], c['cmd']])
                    if key not in seen:     # the reduced space overlaps the full one on short commands
                        seen.add(key)
                        c['id'] = ('R' if red else 'F') + c['id']
                        cases.append(c)
    # the dictionary and the generator name rules for every file shape of the model
    common.use_repo_meson()
    from mesonbuild import mesonlib as ml, build
    for a, ins in enumerate(space['inputs']):
        for b, outs in enumerate(space['outputs']):
            d = dict_case(ml, list(ins), list(outs))
            d['id'] = f'Ad:{a}:{b}'
            cases.append(d)
    names = sorted({f for ins in space['inputs'] for f in ins})
    for t, templ in enumerate(['@BASENAME@.c', '@PLAINNAME@.h', 'x_@BASENAME@-@PLAINNAME@.o', 'plain', '@BASENAME0@', '@INPUT@']):
        for m, inname in enumerate(names):
            for n, nc in enumerate(name_cases(build, templ, inname)):
                nc['id'] = f'An:{t}:{m}:{n}'
                cases.append(nc)
    account_subst(chk, cases)
    judge(chk, 'TraceCmdSubst', cases, 'A', subst_signature, drop=('what',))

    n_rand = 3000 if quick else 120000
    step = max(1, n_rand // (common.NCPU * 2))
    cases = []
    for part in ex.map(_worker_subst_rand, [(lo, min(n_rand, lo + step), chk.seed) for lo in range(0, n_rand, step)]):
        cases.extend(part)
    account_subst(chk, cases)
    judge(chk, 'TraceCmdSubst', cases, 'B1', subst_signature, drop=('what',))



# ---------------------------------------------------------------------------
# part 2, dependency files


def depfile_case(dm: T.Any, lines: T.List[str], rnd: random.Random) -> T.Dict[str, T.Any]:
    """parse() and DepFile.get_all_dependencies() of the real module on one file."""
    mode = rnd.randrange(3)   # f.readlines() style, bare lines, mixed
    given = [ln + ('\n' if mode == 0 or (mode == 2 and rnd.random() < 0.5) else '') for ln in lines]
    c: T.Dict[str, T.Any] = {'k': 'depfile', 'lines': lines, 'rules': [], 'q': [], 'exc': ''}
    try:
        rules = dm.parse(list(given))
        c['rules'] = [{'t': list(t), 'd': list(d)} for t, d in rules if t or d]
        df = dm.DepFile(list(given))
        names = sorted({n for r in c['rules'] for n in r['t'] + r['d']} | {'unknown'})
        for n in names:
            c['q'].append({'n': n, 'r': list(df.get_all_dependencies(n))})
    except Exception as e:
        c['exc'] = type(e).__name__
    return c


def _worker_dep_enum(args: T.Tuple[T.List[str], int, int, int, int]) -> T.List[T.Dict[str, T.Any]]:
    alpha, n, lo, hi, sd = args
    common.use_repo_meson()
    from mesonbuild import depfile as dm
    k = len(alpha)
    out = []
    for code in range(lo, hi):
        c, idx = code, []
        for _ in range(n):
            c, r = divmod(c, k)
            idx.append(r)
        case = depfile_case(dm, [alpha[j] for j in idx], random.Random(sd * 7919 + code))
        case['id'] = f'DA{n}:{code}'
        out.append(case)
    return out


DEP_NAMES = ['a.o', 'b.h', 'src/c.c', 'd', 'gen.py', 'x/y/z.h', 'lib/a.o', 'e-1.2.h',
             'my file.h', 'a#1', 'p\\q', '$var', 'f$o.o', 'Program Files\\X', 'tail\\', 'a  b', '#', '$$']


def dep_escape(name: str, rnd: random.Random) -> str:
    out = ''
    for j, ch in enumerate(name):
        if ch in ' #\\':
            out += '\\' + ch
        elif ch == '$':
            nxt = name[j + 1] if j + 1 < len(name) else ''
            out += '$' if (nxt.isalnum() and rnd.random() < 0.5) else '$$'
        elif ch.isalpha() and rnd.random() < 0.04 and not out.endswith('$'):
            out += '\\' + ch          # pinned: "F\iles" reads as "Files"
        else:
            out += ch
    return out


def rand_depfile(rnd: random.Random) -> T.List[str]:
    pool = rnd.sample(DEP_NAMES, rnd.randint(2, 9))
    text = ''
    for _ in range(rnd.randint(1, 10)):
        if rnd.random() < 0.12:
            text += '\n'
        targets = rnd.sample(pool, rnd.choice([1, 1, 1, 2, 3]) if len(pool) >= 3 else 1)
        deps = [rnd.choice(pool) for _ in range(rnd.choice([0, 1, 2, 2, 3, 5, 8]))]
        seps = []
        line = ''
        for j, t in enumerate(targets):
            if j:
                line += rnd.choice([' ', '  ', ' \\\n', ' \\\n  '])
            line += dep_escape(t, rnd)
        line += (rnd.choice([' ', '  ']) if rnd.random() < 0.03 else '') + ':'
        first = True
        for d in deps:
            r = rnd.random()
            if first:
                sep = rnd.choice([' ', ' ', '', '  ', ' \\\n '])
            elif r < 0.6:
                sep = rnd.choice([' ', '  '])
            elif r < 0.985:
                sep = rnd.choice([' \\\n ', ' \\\n  ', ' \\\n', '\\\n ', ' \\\n \\\n '])
            else:
                sep = '\\\n'
            first = False
            line += sep + dep_escape(d, rnd)
        del seps
        text += line + rnd.choice(['', '', ' ']) + '\n'
    lines = text.split('\n')
    if lines and lines[-1] == '':
        lines.pop()
    return lines


def _worker_dep_rand(args: T.Tuple[int, int, int]) -> T.List[T.Dict[str, T.Any]]:
    lo, hi, sd = args
    common.use_repo_meson()
    from mesonbuild import depfile as dm
    out = []
    for j in range(lo, hi):
        rnd = random.Random(sd * 104729 + j)
        case = depfile_case(dm, rand_depfile(rnd), rnd)
        case['id'] = f'DB:{j}'
        out.append(case)
    return out


def line_shape(lines: T.List[str]) -> str:
    return '|'.join(re.sub(r'[A-Za-z0-9_./-]+', 'n', ln) for ln in lines[:4])


DEP_CLAUSE_SIG = {'TokPhantomEmptyTarget': 'depfile:tokenise:phantom-empty-target',
                  'TokContinuationJoins': 'depfile:tokenise:continuation-joins-words'}


def depfile_signature(c: T.Dict[str, T.Any], v: T.Dict[str, T.Any]) -> T.List[str]:
    out = []
    for cl in v['clauses']:
        if cl in DEP_CLAUSE_SIG:
            out.append(DEP_CLAUSE_SIG[cl])
        elif cl == 'Crash':
            out.append('depfile:crash:' + v['name'])
        else:
            out.append(f'depfile:{cl.lower()}:' + line_shape(c.get('lines', [])))
    return out


def account_dep(chk: Check, cases: T.List[T.Dict[str, T.Any]]) -> None:
    with LOCK:
        _account_dep(chk, cases)


def _account_dep(chk: Check, cases: T.List[T.Dict[str, T.Any]]) -> None:
    chk.evaluations += len(cases)
    for c in cases:
        txt = '\n'.join(c['lines'])
        cyc = any(q['n'] in q['r'] for q in c['q'])
        if '\\' in txt or '$' in txt or cyc or any(len(r['t']) > 1 for r in c['rules']):
            chk.nontriv('dep/' + line_shape(c['lines']) + ('/cycle' if cyc else ''))
    for c in cases[len(cases) // 2:][:1]:
        chk.sample(c, limit=12)


def part2_depfile(chk: Check, ex: ProcessPoolExecutor, quick: bool) -> None:
    n_mc = 3 if quick else 4
    parts = 2 if quick else 6
    invs = ('TwoFormulations', 'NamesNonEmpty', 'Compositional', 'BlankLinesIgnored', 'ClosureIsLeastFixpoint',
            'ClosureIdempotent', 'ClosureMonotone', 'ClosureOrderIndependent', 'LeavesAndCycles')

    def mc(part: int) -> common.TLCResult:
        cfg = (f'SPECIFICATION Spec\nCONSTANTS MaxLines = {n_mc}\n Parts = {parts}\n PartNo = {part}\n' +
               ''.join(f'INVARIANT {x}\n' for x in invs) + 'CHECK_DEADLOCK FALSE\nPOSTCONDITION Export\n')
        return run_tlc(FAM, 'DepFile_MC', cfg_text=cfg, collect=['lines.json'], timeout=6000, allow_violation=False, workers=3)
    from concurrent.futures import ThreadPoolExecutor
    with ThreadPoolExecutor(max_workers=parts) as tex:
        results = list(tex.map(mc, range(parts)))
    for n, res in enumerate(results):
        with LOCK:
            chk.add_tlc(f'DepFile_MC[MaxLines={n_mc},part {n}/{parts}]', res)
    res = results[0]
    alpha = json.loads(res.collected['lines.json'])
    chk.extra['depfile_alphabet_lines'] = len(alpha)
    cases: T.List[T.Dict[str, T.Any]] = []
    for n in range(0, n_mc + 1):
        total = len(alpha) ** n
        step = max(1, min(4000, total // (common.NCPU * 2) + 1))
        jobs = [(alpha, n, lo, min(total, lo + step), chk.seed) for lo in range(0, total, step)]
        for part in ex.map(_worker_dep_enum, jobs):
            cases.extend(part)
    account_dep(chk, cases)
    skipped = judge(chk, 'TraceDepFile', cases, 'A', depfile_signature, skip_unspecified=True)
    chk.extra['depfile_A_outside_rule_book_skipped'] = skipped
    chk.extra['depfile_A_judged'] = len(cases) - skipped
    n_rand = 600 if quick else 30000
    step = max(1, n_rand // (common.NCPU * 2))
    cases = []
    for part in ex.map(_worker_dep_rand, [(lo, min(n_rand, lo + step), chk.seed) for lo in range(0, n_rand, step)]):
        cases.extend(part)
    account_dep(chk, cases)
    judge(chk, 'TraceDepFile', cases, 'B', depfile_signature)


# ---------------------------------------------------------------------------
# part 1, binding B2: real projects


def _worker_project(args: T.Tuple[int, int, str, int]) -> T.Tuple[T.List[T.Dict[str, T.Any]], T.Dict[str, T.Any]]:
    sd, j, mode, size = args
    rnd = random.Random(sd * 611953 + j * 31 + (7 if mode == 'invalid' else 0))
    items: T.List[T.Dict[str, T.Any]] = []
    if mode == 'valid':
        for n in range(size):
            kind = rnd.choice(['ct', 'ct', 'ct', 'gen', 'cf'])
            mk = {'ct': cproj.gen_ct, 'gen': cproj.gen_gen, 'cf': cproj.gen_cf}[kind]
            items.append(mk(rnd, f'{j}x{n}', rnd.choice(cproj.SUBDIRS), True))
    else:
        # every way of being wrong in turn, so that each run covers all of them
        kind, how = cproj.INVALID_COMBOS[j % len(cproj.INVALID_COMBOS)]
        mk = {'ct': cproj.gen_ct, 'gen': cproj.gen_gen, 'cf': cproj.gen_cf}[kind]
        items.append(mk(rnd, f'{j}i', rnd.choice(cproj.SUBDIRS), False, how))

    def run(its: T.List[T.Dict[str, T.Any]]) -> T.Tuple[T.Any, T.List[T.Dict[str, T.Any]]]:
        with scratch('x02p-') as root:
            for it in its:
                if it['k'] == 'cf' and it['hasdep']:
                    cproj.prepare_cf_depfile(rnd, root, it, dep_escape)
            cproj.write_project(root, its)
            return cproj.configure_and_observe(root, its)
    res, cases = run(items)
    meta = {'setups': 1, 'failed_batches': 0, 'error': '' if res.ok else res.error_text}
    if not res.ok and len(items) > 1:
        # a failing batch says nothing about its members: configure every definition on its own
        meta['failed_batches'] = 1
        cases = []
        for it in items:
            r1, c1 = run([it])
            meta['setups'] += 1
            cases.extend(c1)
    for c in cases:
        c['id'] = f"P{mode[0]}{j}:{len(cases)}:{id(c) % 1000}"
    for n, c in enumerate(cases):
        c['id'] = f'P{mode[0]}{j}:{n}'
        c['why'] = meta['error'][:300] if not c.get('ok', True) else ''
    return cases, meta


def project_signature(c: T.Dict[str, T.Any], v: T.Dict[str, T.Any]) -> T.Union[str, T.List[str]]:
    k = c.get('k', '?')
    cl = v['clause']
    if k in ('ct', 'cf'):
        Tdef = c['T']
        ni, no = len(Tdef['ins']), len(Tdef['outs'])
        shapes = ' '.join(subst_shape(w, ni, no) for w in Tdef['cmd'])
        if cl == 'ErrorExpected':
            return [f'{k}:error-expected:{r}' for r in sorted(set(v['rules']))]
        if cl in ('UnexpectedError', 'Command'):
            return f'{k}:{cl.lower()}:ni={cls(ni)},no={cls(no)}:{shapes}'
        if cl == 'Crash':
            # a traceback instead of a diagnosis; named after the rules the definition breaks (none: a legal definition)
            return f"{k}:crash:{','.join(sorted(set(v['rules']))) or 'legal:' + shapes}"
        return f"{k}:{cl.lower()}:sd={'top' if not c['L']['sd'] else 'sub'}"
    if k == 'gen':
        G = c['G']
        shapes = ' '.join(subst_shape(w, 1, len(G['outs'])) for w in G['args'])
        if cl == 'ErrorExpected':
            return [f'gen:error-expected:{r}' for r in sorted(set(v['rules']))]
        if cl == 'Crash':
            return f"gen:crash:{','.join(sorted(set(v['rules']))) or 'legal:' + shapes}"
        if cl in ('UnexpectedError', 'GenCommand'):
            return f"gen:{cl.lower()}:no={cls(len(G['outs']))}:{shapes}"
        return f'gen:{cl.lower()}'
    if k == 'cfdep':
        return [f'cfdep:{x.lower()}' for x in v['clauses']]
    return f'{k}:{cl}'


def part3_projects(chk: Check, ex: ProcessPoolExecutor, quick: bool) -> None:
    n_mc = 1 if quick else 2
    cfg = ('SPECIFICATION Spec\nCONSTANTS MaxLen = %d\n' % n_mc +
           ''.join(f'INVARIANT {x}\n' for x in ('OnePassEqualsTwoStage', 'RelativeIsAllowed', 'AbsoluteRootsAllowed',
                                                'ConservativeExtension', 'NoLayoutPlaceholderLeft', 'OutputNamesDecide')) +
           'CHECK_DEADLOCK FALSE\n')
    res = run_tlc(FAM, 'CmdBackend_MC', cfg_text=cfg, timeout=3000, allow_violation=False, workers=4)
    with LOCK:
        chk.add_tlc(f'CmdBackend_MC[MaxLen={n_mc}]', res)
    n_valid, size, n_invalid = (6, 10, len(cproj.INVALID_COMBOS)) if quick else (60, 14, 8 * len(cproj.INVALID_COMBOS))
    jobs = [(chk.seed, j, 'valid', size) for j in range(n_valid)] + [(chk.seed, j, 'invalid', 1) for j in range(n_invalid)]
    cases: T.List[T.Dict[str, T.Any]] = []
    setups = failed = 0
    for cs, meta in ex.map(_worker_project, jobs):
        cases.extend(cs)
        setups += meta['setups']
        failed += meta['failed_batches']
    with LOCK:
        chk.extra['project_setups'] = setups
        chk.extra['project_batches_split_after_failure'] = failed
        chk.extra['project_records'] = {k: sum(1 for c in cases if c['k'] == k) for k in ('ct', 'gen', 'cf', 'cfdep')}
        chk.extra['project_records_expected_to_fail_setup'] = sum(1 for c in cases if not c.get('ok', True))
        chk.evaluations += len(cases)
        for c in cases:
            if c['k'] in ('ct', 'cf'):
                chk.nontriv(f"{c['k']}/{c['ok']}/" + ' '.join(subst_shape(w, len(c['T']['ins']), len(c['T']['outs'])) for w in c['T']['cmd']))
            elif c['k'] == 'gen':
                chk.nontriv(f"gen/{c['ok']}/" + ' '.join(subst_shape(w, 1, len(c['G']['outs'])) for w in c['G']['args']))
        for c in [c for c in cases if c['k'] == 'ct' and c['ok']][:1] + [c for c in cases if c['k'] == 'gen' and c['ok']][:1]:
            chk.sample({k: v for k, v in c.items() if k != 'dirs'}, limit=12)
    proj = [c for c in cases if c['k'] != 'cfdep']
    judge(chk, 'TraceCmdProject', proj, 'B2', project_signature, drop=('why', 'sub', 'ran'), nproc=1 if quick else 6)
    judge(chk, 'TraceDepFile', [c for c in cases if c['k'] == 'cfdep'], 'B2dep', project_signature, nproc=1)


def main(chk: Check) -> None:
    quick = chk.tier == 'quick'
    chk.rule = ('subst: distinct (input-count class, output-count class, outcome, command shape) with at least one "@" '
                'word, shape = placeholders kept, literal text erased, indexes classed in/out of range; '
                'depfile: distinct line-shape sequences containing an escape, continuation, several targets or a cycle')
    # the three parts are independent; they run side by side (TLC scales poorly beyond a few workers on string-heavy
    # specifications, so several small TLC processes are used instead of one big one)
    from concurrent.futures import ThreadPoolExecutor
    with ProcessPoolExecutor(max_workers=common.NCPU) as ex, ThreadPoolExecutor(max_workers=3) as tex:
        futs = [tex.submit(fn, chk, ex, quick) for fn in (part3_projects, part1_inprocess, part2_depfile)]
        errs = []
        for f in futs:
            try:
                f.result()
            except Exception as e:   # let the other parts finish, then report the first failure
                errs.append(e)
        if errs:
            raise errs[0]
    chk.exhaustive = True
    chk.assumptions += [
        'subst: command words in which two placeholder readings share an "@" ("@INPUT@OUTPUT@") are outside the rule book '
        '(documentation silent); indexes are written without leading zeros; input names do not begin with "." and no name '
        'ends in "/"; all outputs of one target lie in the same directory (@OUTDIR@ is documented as "the" directory); file '
        'names contain no "@" except the pinned name "x@IN" of test cases/common/160 and one "at@..." shape',
        'subst: error messages are not compared, only error / no error; a Python exception other than MesonException is a crash',
        'projects: ninja backend only (paths relative to the build root or absolute are both accepted, directories with or '
        'without a trailing "/"); the name of the private directory is not documented: it must be an existing directory of '
        'the build tree and the same in every word of a command; custom_target(depfile:) with @BASENAME@/@PLAINNAME@ is only '
        'generated with exactly one input; generator(): @DEPFILE@ without depfile:, @EXTRA_ARGS@ inside a larger word, '
        '@SOURCE_ROOT@/@BUILD_ROOT@/@OUTDIR@/@INPUTn@ in generator arguments and preserve_path_from are not generated; '
        'configure_file(command:): only the file-derived placeholders and @DEPFILE@ (layout placeholders are documented for '
        'custom_target only), backslashes not generated, paths must be absolute, the depfile may lie anywhere in the build tree',
        'projects: indexed placeholders out of range inside a word after another placeholder of the same family, and '
        '@PLAINNAMEn@/@BASENAMEn@ out of range, are exercised in-process only (known findings), not through meson setup',
        'depfile: tabs, CR, comments, a second ":" in a rule, rule lines without ":", "$" directly before a blank / newline / '
        '":" / backslash and a backslash at the very end of the file are outside the rule book (make/GCC syntax either forbids '
        'them or the pinned tests do not decide); the order of the list returned by get_all_dependencies is not compared',
        'depfile end to end (configure_file): prerequisites are absolute paths below the source tree; only existence in '
        'meson-info/intro-buildsystem_files.json is observed',
    ]


def replay(chk: Check, data: T.Dict[str, T.Any]) -> None:
    """Re-run the recorded input through the current tree and judge it again."""
    common.use_repo_meson()
    from mesonbuild import mesonlib as ml, build, depfile as dm
    c = data['detail']['case']
    k = c.get('k')
    rnd = random.Random(data.get('seed', 0))
    if k == 'subst':
        n = subst_case(ml, c['ins'], c['outs'], c['cmd'])
        n['id'] = 'replay'
        judge(chk, 'TraceCmdSubst', [n], 'replay', subst_signature)
    elif k == 'dict':
        n = dict_case(ml, c['ins'], c['outs'])
        n['id'] = 'replay'
        judge(chk, 'TraceCmdSubst', [n], 'replay', subst_signature)
    elif k == 'name':
        ns = [x for x in name_cases(build, c['t'], c['i']) if x['what'] == c.get('what')]
        for x in ns:
            x['id'] = 'replay'
        judge(chk, 'TraceCmdSubst', ns, 'replay', subst_signature, drop=('what',))
    elif k == 'depfile':
        n = depfile_case(dm, c['lines'], rnd)
        n['id'] = 'replay'
        judge(chk, 'TraceDepFile', [n], 'replay', depfile_signature)
    elif k in ('ct', 'cf', 'gen'):
        d = c['T'] if k != 'gen' else c['G']
        it = dict(d, k=k, name='replay0', sd=c['L']['sd'])
        if k == 'gen':
            it['inputs'] = [c['input']]
        if k == 'cf':
            it.update(deplines=[], depexist=[], depnames=[])
        with scratch('x02p-') as root:
            if k == 'cf' and it['hasdep']:
                cproj.prepare_cf_depfile(rnd, root, it, dep_escape)
            cproj.write_project(root, [it])
            _, cases = cproj.configure_and_observe(root, [it])
        for n, x in enumerate(cases):
            x['id'] = f'replay{n}'
        judge(chk, 'TraceCmdProject', [x for x in cases if x['k'] != 'cfdep'], 'replay', project_signature, drop=('why', 'sub', 'ran'))
        judge(chk, 'TraceDepFile', [x for x in cases if x['k'] == 'cfdep'], 'replay', project_signature)
    else:
        raise MachineryError('replay of this record kind is done by re-running the check with the recorded seed')


if __name__ == '__main__':
    sys.exit(common.run_check(main, PROP, replay=replay))
