"""X03 - `meson compile`: target name resolution and backend command construction.

1. TLC model-checks specs/mcompile/MCompile_MC (resolution: all realizable target sets of <= N targets out of a
   universe with clashing names / suffixes / directories / types x all expressions; laws as invariants and step
   properties, list formulation = declarative formulation for every order) and MCompileCmd_MC (every permitted ninja
   command line, read by POSIX rules, gives ninja what was asked for).  Both export their input space.
2. (A1) every (target set, order, expression) of the exported space through the real
   ``mcompile.parse_introspect_data`` / ``ParsedTargetName`` / ``get_target_from_intro_data`` /
   ``generate_target_names_ninja`` on synthesised introspection files of the shape `meson introspect --targets` writes.
   (A2) the exported invocation space (flags x expressions x cwd) through the real argparse parser and
   ``mcompile.run`` in-process on a build directory configured by the real `meson setup`, ninja being a recording stub.
3. (B) generated C projects with clashing names (same name in several directories, types, suffixes, a subproject,
   build_subdir:) configured with `meson setup`, then real `meson compile [-C dir] <flags> <expr>...` runs; the recorded
   ninja argv or the error is judged against the spec's resolution on the real intro-targets.json.
All verdicts come from TLC (specs/mcompile/TraceMCompile.tla).
"""
from __future__ import annotations

import argparse
import copy
import itertools
import json
import os
import random
import subprocess
import sys
import time
import typing as T
from concurrent.futures import ProcessPoolExecutor
from pathlib import Path

from . import common
from . import mcompile_proj as mp
from .common import Check, MachineryError, SPECS, run_tlc, scratch

PROP = 'X03'
FAM = SPECS / 'mcompile'

# clauses that name one deleted rule of the rule book: the signature is the clause and the shape of the case
CLASS_CLAUSES = ('OmittedSuffixIsWildcard', 'PathIsDirOfMesonBuild', 'OmittedSuffixIsWildcard+PathIsDirOfMesonBuild')


def canon_expr(e: T.Dict[str, T.Any]) -> str:
    return (e['p'] + '/' if e['p'] else '') + '.'.join(e['g']) + (':' + e['ty'] if e['ty'] else '')


def canon_target(t: T.Dict[str, T.Any]) -> str:
    return t['d'] + '/' + '.'.join(t['n']) + ('.' + t['s'] if t['s'] else '') + ':' + t['ty']


# ---------------------------------------------------------------------------
# (A1) resolution replay

def _devnull_stdout() -> None:
    fd = os.open(os.devnull, os.O_WRONLY)
    os.dup2(fd, 1)
    os.close(fd)


def resolve_case(mcompile: T.Any, MesonException: T.Any, univ: T.List[T.Dict[str, T.Any]], order: T.List[int],
                 exprs: T.List[T.Dict[str, T.Any]], base: Path, rnd: random.Random, with_ops: bool,
                 only: T.Optional[T.List[int]] = None) -> T.Dict[str, T.Any]:
    src = base / 'src'
    bld = base / 'bld'
    (bld / 'meson-info').mkdir(parents=True, exist_ok=True)
    ents = [mp.intro_entry(univ[i - 1], str(src), str(bld)) for i in order]
    (bld / 'meson-info' / 'intro-targets.json').write_text(json.dumps(ents))
    # meson-info.json as `meson setup` writes it next to the intro files (source / build / info directories)
    (bld / 'meson-info' / 'meson-info.json').write_text(json.dumps({
        'meson_version': {'full': '1.12.99', 'major': 1, 'minor': 12, 'patch': 99},
        'directories': {'source': str(src), 'build': str(bld), 'info': str(bld / 'meson-info')},
        'introspection': {'version': {'full': '1.0.0', 'major': 1, 'minor': 0, 'patch': 0},
                          'information': {'targets': {'file': 'intro-targets.json', 'updated': True}}},
        'build_files_updated': False, 'error': False}))
    intro = mcompile.parse_introspect_data(bld)
    id2idx = {mp.real_id(univ[i - 1]): i for i in order}
    r: T.List[int] = []
    amb: T.List[T.Dict[str, T.Any]] = []
    ops: T.List[T.List[str]] = []
    texts: T.List[str] = []
    for x, e in enumerate(exprs, 1):
        if only is not None and x not in only:
            r.append(-100)
            ops.append([])
            texts.append('')
            continue
        text = mp.render_expr(e, rnd)
        texts.append(text)
        op: T.List[str] = []
        try:
            pt = mcompile.ParsedTargetName(text)
            res = mcompile.get_target_from_intro_data(pt, bld, copy.copy(intro))
            code = id2idx.get(res['id'], -9)
            if with_ops:
                op = list(mcompile.generate_target_names_ninja(mcompile.ParsedTargetName(text), bld, copy.copy(intro)))
        except MesonException as ex:
            info = mp.classify_error(str(ex))
            code = {'notfound': 0, 'badtype': -1, 'ambiguous': -2}.get(info['k'], -9)
            if code == -2:
                amb.append({'x': x, 'c': info['c']})
        except Exception:
            code = -9
        r.append(code)
        ops.append(op)
    return {'kind': 'R', 't': order, 'r': r, 'a': amb, 'ops': ops if with_ops else [], 'texts': texts}


def _worker_a1(args: T.Tuple[T.List[T.Dict[str, T.Any]], T.List[T.Dict[str, T.Any]], T.List[T.Tuple[str, T.List[int], bool]], int]
               ) -> T.List[T.Dict[str, T.Any]]:
    univ, exprs, jobs, sd = args
    common.use_repo_meson()
    from mesonbuild import mcompile
    from mesonbuild.mesonlib import MesonException
    out = []
    with scratch('x03a1-') as d:
        for cid, order, with_ops in jobs:
            rnd = random.Random(f'{sd}:{cid}')
            c = resolve_case(mcompile, MesonException, univ, order, exprs, d, rnd, with_ops)
            c['id'] = cid
            del c['texts']
            out.append(c)
    return out


# ---------------------------------------------------------------------------
# invocations (A2 in-process, B through the command line)

def build_argv(f: T.Dict[str, T.Any], X: T.List[T.Dict[str, T.Any]], rnd: random.Random) -> T.Tuple[T.List[str], T.List[str]]:
    flags = mp.render_flags(f, rnd)
    texts = [mp.render_expr(e, rnd) for e in X]
    # operands before or after the options (argparse accepts both)
    argv = texts + flags if (texts and rnd.random() < 0.3) else flags + texts
    return argv, texts


def observe(rc: int, errtext: str, texts: T.List[str], log: str, builddir: str, nrc: int) -> T.Dict[str, T.Any]:
    entries = mp.read_ninja_log(log)
    obs: T.Dict[str, T.Any] = {'n': len(entries), 'rc': rc, 'nrc': nrc, 'argv': [], 'ncwd': '',
                               'err': {'k': '', 'x': 0, 'id': '', 'c': []}}
    if entries:
        acwd, argv = mp.project_argv(entries[0]['cwd'], entries[0]['argv'], builddir)
        obs['argv'] = argv
        obs['ncwd'] = acwd
    elif rc != 0:
        info = mp.classify_error(errtext)
        x = 0
        if info['blamed'] and info['blamed'] in texts:
            x = texts.index(info['blamed']) + 1
        obs['err'] = {'k': info['k'], 'x': x, 'id': '', 'c': info['c']}
    return obs


def _worker_a2(args: T.Tuple[str, T.List[T.Tuple[str, T.List[T.Dict[str, T.Any]], T.Dict[str, T.Any], str]], int]
               ) -> T.List[T.Dict[str, T.Any]]:
    builddir, runs, sd = args
    common.use_repo_meson()
    _devnull_stdout()
    from mesonbuild import mcompile
    from mesonbuild.mesonlib import MesonException
    out = []
    with scratch('x03a2-') as d:
        log = str(d / 'ninja.log')
        os.environ['NINJA'] = mp.STUB
        os.environ['X03_NINJA_LOG'] = log
        parent = os.path.dirname(builddir)
        for rid, X, f, cwd in runs:
            rnd = random.Random(f'{sd}:{rid}')
            argv, texts = build_argv(f, X, rnd)
            if cwd == '@B':
                os.chdir(builddir)
                pre = rnd.choice([[], ['-C', '.']])
            else:
                os.chdir(parent)
                pre = ['-C', rnd.choice([builddir, os.path.basename(builddir)])]
            nrc = rnd.choice([0, 0, 0, 3])
            os.environ['X03_NINJA_RC'] = str(nrc)
            if os.path.exists(log):
                os.unlink(log)
            parser = argparse.ArgumentParser()
            mcompile.add_arguments(parser)
            try:
                opts = parser.parse_args(pre + argv)
            except SystemExit:
                raise MachineryError(f'argparse rejected the rendered command line {pre + argv}')
            err = ''
            try:
                rc = mcompile.run(opts)
            except MesonException as ex:
                rc = 1
                err = str(ex)
            obs = observe(rc, err, texts, log, builddir, nrc)
            obs.update({'X': X, 'f': f, 'cwd': cwd, 'bd': 'ok', 'rid': rid, 'cmdline': pre + argv})
            out.append(obs)
    return out


def _worker_a3(args: T.Tuple[str, T.List[T.Tuple[str, T.List[T.Dict[str, T.Any]], T.Dict[str, T.Any]]], int]
               ) -> T.List[T.Dict[str, T.Any]]:
    """msbuild command lines: mcompile.get_parsed_args_vs on the same build directory (a solution file is put there)."""
    builddir, runs, sd = args
    common.use_repo_meson()
    _devnull_stdout()
    from mesonbuild import mcompile
    from mesonbuild.mesonlib import MesonException
    out = []
    for rid, X, f in runs:
        out.append(vs_run(mcompile, MesonException, builddir, rid, X, f, random.Random(f'{sd}:{rid}')))
    return out


def vs_run(mcompile: T.Any, MesonException: T.Any, builddir: str, rid: str, X: T.List[T.Dict[str, T.Any]],
           f: T.Dict[str, T.Any], rnd: random.Random) -> T.Dict[str, T.Any]:
    sln = os.path.realpath(os.path.join(builddir, 'x03.sln'))
    flags = mp.render_flags(f, rnd, '--vs-args')
    texts = [mp.render_expr(e, rnd) for e in X]
    parser = argparse.ArgumentParser()
    mcompile.add_arguments(parser)
    try:
        opts = parser.parse_args(['-C', builddir] + flags + texts)
    except SystemExit:
        raise MachineryError(f'argparse rejected the rendered command line {flags + texts}')
    obs: T.Dict[str, T.Any] = {'n': 0, 'rc': 0, 'nrc': 0, 'argv': [], 'err': {'k': '', 'x': 0, 'id': '', 'c': []}}
    try:
        cmd, _env = mcompile.get_parsed_args_vs(opts, Path(builddir))
        obs['n'] = 1
        obs['argv'] = [('@SLN' if k == 1 and os.path.realpath(a) == sln else a) for k, a in enumerate(cmd)]
    except MesonException as ex:
        info = mp.classify_error(str(ex))
        x = texts.index(info['blamed']) + 1 if info['blamed'] in texts else 0
        obs['err'] = {'k': info['k'], 'x': x, 'id': '', 'c': info['c']}
        obs['rc'] = 1
    obs.update({'X': X, 'f': f, 'cwd': '@O', 'bd': 'ok', 'rid': rid, 'cmdline': flags + texts})
    return obs


def cli_run(builddir: str, pre: T.List[str], argv: T.List[str], cwd_path: str, log: str, nrc: int) -> T.Tuple[int, str]:
    env = dict(os.environ)
    env['NINJA'] = mp.STUB
    env['X03_NINJA_LOG'] = log
    env['X03_NINJA_RC'] = str(nrc)
    if os.path.exists(log):
        os.unlink(log)
    p = subprocess.run([common.PYTHON, str(common.REPO / 'meson.py'), 'compile'] + pre + argv, cwd=cwd_path, env=env,
                       stdout=subprocess.PIPE, stderr=subprocess.STDOUT, text=True, errors='replace', timeout=600)
    return p.returncode, p.stdout


# ---------------------------------------------------------------------------
# (B) generated projects

B_DIRS = ['.', 'sub', 'sub/deep', 'other', 'subprojects/sp', 'subprojects/sp/sub']
B_CLASH_NAMES = ['foo', 'bar', 'baz', 'foo bar', 'a+b']
B_DOTTED = ['gen.h', 'data.tar', 'v1.2.cfg']
B_SINGLE = ['one', 'two', 'three', 'tool', 'x_y', 'lib-z']
B_RUNLIKE = ['rt', 'check-all', 'fmt', 'docs']


class ProjGen:
    def __init__(self, rnd: random.Random):
        self.rnd = rnd
        self.targets: T.List[T.Dict[str, T.Any]] = []
        self.ids: T.Set[T.Tuple[str, str, str]] = set()
        self.ninja: T.Set[str] = set()
        self.dotted_quals: T.Set[str] = set()
        self.ncustom = 0

    def _outs(self, kind: str, name: str, suffix: str, d: str, bsub: str, couts: T.List[str]) -> T.List[str]:
        od = d if d != '.' else ''
        if bsub:
            od = (od + '/' if od else '') + bsub
        pre = od + '/' if od else ''
        if kind == 'exe':
            return [pre + name + ('.' + suffix if suffix else '')]
        if kind == 'static':
            return [pre + 'lib' + name + '.' + (suffix or 'a')]
        if kind in ('shared', 'module'):
            return [pre + 'lib' + name + '.' + (suffix or 'so')]
        if kind == 'both':
            return [pre + 'lib' + name + '.a', pre + 'lib' + name + '.so']
        if kind == 'custom':
            return [pre + o for o in couts]
        return [name]   # run / alias: the ninja target is the bare name

    def add(self, kind: str, name: str, d: str, suffix: str = '', bsub: str = '', nouts: int = 1) -> bool:
        couts: T.List[str] = []
        if kind == 'custom':
            if '.' in name:
                couts = [name]
            else:
                self.ncustom += 1
                base = ''.join(ch if ch.isalnum() else '_' for ch in name)
                couts = [f'{base}_{self.ncustom}.{ext}' for ext in ['dat', 'idx'][:nouts]]
        if '.' in name and suffix:
            return False
        qual = name + ('.' + suffix if suffix else '')
        idsufs = {'exe': ['exe'], 'static': ['sta'], 'shared': ['sha'], 'module': ['sha'], 'both': ['sta', 'sha'],
                  'custom': ['cus'], 'run': ['run'], 'alias': ['run']}[kind]
        bd = d + ('/' + bsub if bsub else '')
        keys = [(bd, qual, s) for s in idsufs]
        outs = self._outs(kind, name, suffix, d, bsub, couts)
        if any(k in self.ids for k in keys) or any(o in self.ninja for o in outs):
            return False
        # never let `a.b` be both the whole name of one target and NAME.SUFFIX of another (documents silent)
        if suffix and qual in {t['name'] for t in self.targets}:
            return False
        if '.' in name and name in self.dotted_quals:
            return False
        self.ids.update(keys)
        self.ninja.update(outs)
        if suffix:
            self.dotted_quals.add(qual)
        self.targets.append({'kind': kind, 'name': name, 'suffix': suffix, 'dir': d, 'bsub': bsub,
                             'outs': [os.path.basename(o) for o in outs] if kind == 'custom' else []})
        return True


def gen_project(rnd: random.Random) -> T.List[T.Dict[str, T.Any]]:
    g = ProjGen(rnd)
    dirs = ['.'] + rnd.sample(B_DIRS[1:], rnd.randint(2, 4))
    if 'subprojects/sp/sub' in dirs and 'subprojects/sp' not in dirs:
        dirs.append('subprojects/sp')
    if 'sub/deep' in dirs and 'sub' not in dirs:
        dirs.append('sub')
    for name in rnd.sample(B_CLASH_NAMES, 2):
        for _ in range(rnd.randint(3, 6)):
            kind = rnd.choice(['exe', 'exe', 'static', 'shared', 'custom', 'both', 'module'])
            if ' ' in name and kind in ('shared', 'both', 'module'):
                kind = 'exe'
            suffix = ''
            if kind == 'exe' and rnd.random() < 0.5:
                suffix = rnd.choice(['bin', 'x2'])
            elif kind == 'static' and rnd.random() < 0.3:
                suffix = 'lib2'
            g.add(kind, name, rnd.choice(dirs), suffix, nouts=rnd.choice([1, 1, 2]))
    for name in rnd.sample(B_DOTTED, rnd.randint(1, 2)):
        for _ in range(rnd.randint(1, 2)):
            g.add(rnd.choice(['custom', 'custom', 'exe']), name, rnd.choice(dirs))
    for name in rnd.sample(B_SINGLE, rnd.randint(1, 3)):
        kind = rnd.choice(['exe', 'static', 'custom'])
        g.add(kind, name, rnd.choice(dirs), suffix=rnd.choice(['', '', 'bin']) if kind == 'exe' else '',
              bsub=rnd.choice(['', '', 'bs', 'deep/er']) if rnd.random() < 0.5 else '', nouts=rnd.choice([1, 2]))
    for name in rnd.sample(B_RUNLIKE, rnd.randint(1, 3)):
        g.add(rnd.choice(['run', 'alias']), name, rnd.choice(dirs))
    # a run target that shares its name with build targets elsewhere (never with an output in the root directory)
    if rnd.random() < 0.5:
        nm = g.targets[0]['name']
        g.add('run', nm, rnd.choice(dirs))
    return g.targets


DOC_TYPES = ['executable', 'static_library', 'shared_library', 'shared_module', 'custom', 'alias', 'run', 'jar']


def gen_exprs(T_: T.List[T.Dict[str, T.Any]], rnd: random.Random) -> T.List[T.Dict[str, T.Any]]:
    """1-3 expressions: mostly derived from the targets of the build directory with parts added, dropped or wrong."""
    alld = sorted({t['d'] for t in T_} | {t['od'] for t in T_})
    out = []
    for _ in range(rnd.choice([1, 1, 1, 2, 2, 3])):
        r = rnd.random()
        if r < 0.05 or not T_:
            out.append({'p': rnd.choice(['', '.', 'sub']), 'g': ['nosuch'], 'ty': rnd.choice(['', 'executable'])})
            continue
        t = rnd.choice(T_)
        g = list(t['n'])
        u = rnd.random()
        if t['s']:
            if u < 0.55:
                g = g + [t['s']]
            elif u < 0.65:
                g = g + ['zz']
        elif t['ty'] == 'static_library' and u < 0.1:
            g = g + ['a']
        u = rnd.random()
        p = ''
        if u < 0.45:
            p = t['d']
        elif u < 0.52 and t['od'] != t['d']:
            p = t['od']
        elif u < 0.62:
            p = rnd.choice(alld + ['zz'])
        u = rnd.random()
        ty = ''
        if u < 0.4:
            ty = t['ty']
        elif u < 0.5:
            ty = rnd.choice(DOC_TYPES)
        elif u < 0.53:
            ty = rnd.choice(['bogus', 'static library', 'exe'])
        out.append({'p': p, 'g': g, 'ty': ty})
    return out


def gen_flags(rnd: random.Random, has_targets: bool) -> T.Dict[str, T.Any]:
    na_pool: T.List[T.List[str]] = [[], [], [], ['-n'], ['-d', 'explain'], ['-k', '0', '-n'], ['-d', 'stats', '-v'],
                                    ['a,b', 'c d'], ['-t', 'commands'], ["it's"]]
    return {'clean': rnd.random() < (0.08 if has_targets else 0.5),
            'j': rnd.choice([0, 0, 0, -1, 1, 2, 7, 16]),
            'l10': rnd.choice([0, 0, 0, -10, 10, 20, 25, 45, 120]),
            'v': rnd.random() < 0.3,
            'na': rnd.choice(na_pool)}


def _worker_b(args: T.Tuple[int, int, int]) -> T.Dict[str, T.Any]:
    pid, sd, nruns = args
    rnd = random.Random(f'{sd}:B:{pid}')
    declared = gen_project(rnd)
    with scratch('x03b-') as d:
        return run_project(declared, d, rnd, nruns, f'B{pid}')


def run_project(declared: T.List[T.Dict[str, T.Any]], d: Path, rnd: random.Random, nruns: int, cid: str,
                fixed_runs: T.Optional[T.List[T.Dict[str, T.Any]]] = None) -> T.Dict[str, T.Any]:
    src = d / 'src'
    bld = d / 'build dir'
    lang = 'c' if any(t['kind'] not in ('custom', 'run', 'alias') for t in declared) else ''
    mp.write_project(declared, src, lang)
    p = mp.meson_setup(src, bld)
    if p.returncode != 0:
        return {'id': cid, 'setup_failed': p.stdout[-1500:], 'declared': declared}
    builddir = str(bld)
    T_ = mp.project_intro(mp.load_json(bld / 'meson-info' / 'intro-targets.json'), str(src), builddir)
    mp.cross_check(declared, T_)
    log = str(d / 'ninja.log')
    runs = []
    plan: T.List[T.Dict[str, T.Any]] = []
    if fixed_runs is not None:
        plan = fixed_runs
    else:
        for k in range(nruns):
            if k == 0:
                plan.append({'X': [], 'f': gen_flags(rnd, False), 'cwd': rnd.choice(['@B', '@O']), 'bd': 'ok'})
            elif k == 1:
                plan.append({'X': [], 'f': gen_flags(rnd, False), 'cwd': '@O', 'bd': 'none'})
            else:
                X = gen_exprs(T_, rnd)
                plan.append({'X': X, 'f': gen_flags(rnd, True), 'cwd': rnd.choice(['@B', '@O', '@O']), 'bd': 'ok'})
    for k, pl in enumerate(plan):
        argv, texts = build_argv(pl['f'], pl['X'], rnd)
        if pl['bd'] != 'ok':
            cwdp, pre = str(d), ['-C', str(src)]
        elif pl['cwd'] == '@B':
            cwdp, pre = builddir, rnd.choice([[], ['-C', '.']])
        else:
            cwdp, pre = str(d), ['-C', rnd.choice([builddir, 'build dir'])]
        nrc = rnd.choice([0, 0, 0, 3])
        rc, text = cli_run(builddir, pre, argv, cwdp, log, nrc)
        obs = observe(rc, text, texts, log, builddir, nrc)
        obs.update({'X': pl['X'], 'f': pl['f'], 'cwd': pl['cwd'], 'bd': pl['bd'], 'rid': f'{cid}.{k}', 'cmdline': pre + argv})
        if rc != 0 and obs['n'] == 0:
            obs['errtext'] = text[-600:]
        runs.append(obs)
    return {'id': cid, 'kind': 'C', 'T': T_, 'runs': runs, 'declared': declared}


# ---------------------------------------------------------------------------
# judging

RUN_FIELDS = ('X', 'f', 'cwd', 'bd', 'n', 'rc', 'nrc', 'argv', 'err')


def strip_case(c: T.Dict[str, T.Any]) -> T.Dict[str, T.Any]:
    if c['kind'] == 'R':
        return {k: c[k] for k in ('id', 'kind', 't', 'r', 'a', 'ops')}
    return {'id': c['id'], 'kind': c['kind'], 'T': c['T'], 'runs': [{k: r[k] for k in RUN_FIELDS} for r in c['runs']]}


def judge(chk: Check, univ: T.List[T.Dict[str, T.Any]], exprs: T.List[T.Dict[str, T.Any]],
          cases: T.List[T.Dict[str, T.Any]], label: str, parts: int = 1) -> None:
    if not cases:
        return
    by_id = {c['id']: c for c in cases}
    size = (len(cases) + parts - 1) // parts
    chunks = list(common.chunks(cases, size))

    def one(arg: T.Tuple[int, T.Sequence[T.Dict[str, T.Any]]]) -> T.Tuple[int, int, common.TLCResult]:
        no, part = arg
        with scratch('x03j-') as d:
            tf = d / 'cases.json'
            tf.write_text(json.dumps({'univ': univ, 'exprs': exprs, 'cases': [strip_case(c) for c in part]}))
            res = run_tlc(FAM, 'TraceMCompile', env={'TRACE_FILE': str(tf)}, timeout=3000,
                          workers=max(2, common.NCPU // len(chunks)))
        return no, len(part), res

    from concurrent.futures import ThreadPoolExecutor
    with ThreadPoolExecutor(max_workers=len(chunks)) as tp:
        results = list(tp.map(one, enumerate(chunks)))
    for no, n, res in results:
        if not res.clean:
            raise MachineryError(f'TraceMCompile[{label}#{no}] did not complete cleanly:\n' + res.stdout[-2000:])
        if res.distinct != 2 * n:
            raise MachineryError(f'TraceMCompile[{label}#{no}] judged {res.distinct // 2} of {n} cases')
        chk.add_tlc(f'TraceMCompile[{label}#{no}]', res, model=False)
        for v in res.json_lines():
            c = by_id[v['id']]
            for w in v['fails']:
                report(chk, univ, exprs, c, w)


def report(chk: Check, univ: T.List[T.Dict[str, T.Any]], exprs: T.List[T.Dict[str, T.Any]], c: T.Dict[str, T.Any],
           w: T.Dict[str, T.Any]) -> None:
    clause = w['clause']
    if c['kind'] == 'R':
        e = exprs[w['x'] - 1]
        targets = [univ[i - 1] for i in c['t']]
        if clause in CLASS_CLAUSES:
            sig = f"{clause}:spec={w['spec']}:impl={w['impl']}"
        else:
            sig = f"{clause}@{canon_expr(e)}|{';'.join(canon_target(t) for t in targets)}:spec={w['spec']}:impl={w['impl']}"
        code = c['r'][w['x'] - 1]
        detail = {'kind': 'R', 'verdict': w, 'expression': e, 'targets_in_list_order': targets,
                  'observed_code': code, 'observed_target': univ[code - 1] if code > 0 else None,
                  'observed_candidates': [a['c'] for a in c['a'] if a['x'] == w['x']],
                  'observed_operands': c['ops'][w['x'] - 1] if c['ops'] else None}
    else:
        r = c['runs'][w['x'] - 1]
        if clause in CLASS_CLAUSES:
            sig = f"{clause}:spec={w['spec']}:impl={w['impl']}"
        else:
            fl = r['f']
            sig = (f"{clause}@{' '.join(canon_expr(e) for e in r['X'])}|clean={int(fl['clean'])},j={fl['j']},l10={fl['l10']},"
                   f"v={int(fl['v'])},na={fl['na']}|cwd={r['cwd']},bd={r['bd']}:spec={w['spec']}:impl={w['impl']}")
        detail = {'kind': c['kind'], 'verdict': w, 'run': r, 'targets': c['T'], 'declared': c.get('declared')}
    chk.violation(sig, detail)


# ---------------------------------------------------------------------------

def main(chk: Check) -> None:
    quick = chk.tier == 'quick'
    n_targets = 3 if quick else 4
    n_exprs = 1 if quick else 2
    n_proj = 12 if quick else 64
    n_runs = 22 if quick else 40
    chk.rule = ('A1: every realizable set of <= N targets out of the model universe (clashing names/suffixes/dirs/types), in '
                'several list orders, x every expression of the model (exported by TLC); A2: every (flags, <= K expressions, '
                'cwd) of the command model through mcompile.run; B: seeded random C projects + `meson compile` command '
                'lines.  Non-trivial = distinct (target set, expression) / command lines where the expected result is '
                'not "not found": a resolution among >= 2 same-named targets, an ambiguity, a bad type, or a ninja run '
                'with operands or options.')
    t0 = time.time()
    phases: T.Dict[str, float] = {}
    chk.extra['phase_s'] = phases
    with ProcessPoolExecutor(max_workers=common.NCPU) as ex:
        # (B) first: it needs nothing from the model and keeps the pool busy while TLC runs
        fut_b = [ex.submit(_worker_b, (pid, chk.seed, n_runs)) for pid in range(n_proj)]

        # 1. model checking
        cfg = (FAM / 'MCompile_MC.cfg').read_text().replace('MaxTargets = 3', f'MaxTargets = {n_targets}')
        res = run_tlc(FAM, 'MCompile_MC', cfg_text=cfg, collect=['model.json'], timeout=3000, allow_violation=False)
        chk.add_tlc(f'MCompile_MC[MaxTargets={n_targets}]', res)
        model = json.loads(res.collected['model.json'])
        univ, exprs, sets = model['universe'], model['exprs'], model['sets']
        cfg = (FAM / 'MCompileCmd_MC.cfg').read_text().replace('MaxExprs = 1', f'MaxExprs = {n_exprs}')
        res = run_tlc(FAM, 'MCompileCmd_MC', cfg_text=cfg, collect=['cmdmodel.json'], timeout=3000, allow_violation=False)
        chk.add_tlc(f'MCompileCmd_MC[MaxExprs={n_exprs}]', res)
        cmodel = json.loads(res.collected['cmdmodel.json'])
        chk.extra.update({'universe': len(univ), 'target_sets': len(sets), 'expressions': len(exprs),
                          'flag_space': len(cmodel['flags']), 'cmd_expressions': len(cmodel['exprs'])})

        phases['model_checking'] = round(time.time() - t0, 1)

        # (A1)
        rnd = random.Random(f'{chk.seed}:A1')
        jobs: T.List[T.Tuple[str, T.List[int], bool]] = []
        for si, s in enumerate(sets):
            perms = list(itertools.permutations(s))
            if len(s) <= (2 if quick else 3):
                chosen = perms
            else:
                chosen = [perms[0]] + rnd.sample(perms[1:], 2)
            for pi, pm in enumerate(chosen):
                jobs.append((f'A1:{si}:{pi}', list(pm), pi == 0))
        step = max(1, len(jobs) // (common.NCPU * 3) + 1)
        fut_a1 = [ex.submit(_worker_a1, (univ, exprs, jobs[lo:lo + step], chk.seed)) for lo in range(0, len(jobs), step)]

        # (A2) the command model's build directory, configured once
        with scratch('x03a2p-') as d:
            declared = [{'kind': 'custom' if t['ty'] == 'custom' else t['ty'], 'name': '.'.join(t['n']), 'suffix': '',
                         'dir': t['d'], 'bsub': '', 'outs': [os.path.basename(o) for o in t['o']]} for t in cmodel['targets']]
            src, bld = d / 'src', d / 'bld'
            mp.write_project(declared, src, '')
            p = mp.meson_setup(src, bld)
            if p.returncode != 0:
                raise MachineryError('meson setup of the command model project failed:\n' + p.stdout[-2000:])
            T0 = mp.project_intro(mp.load_json(bld / 'meson-info' / 'intro-targets.json'), str(src), str(bld))
            mp.cross_check(declared, T0)
            want = sorted(canon_target(t) for t in cmodel['targets'])
            have = sorted(canon_target(t) for t in T0 if not '.'.join(t['n']).startswith('aliasdep'))
            if want != have:
                raise MachineryError(f'environment-model disagreement: model targets {want}, configured {have}')
            runs2: T.List[T.Tuple[str, T.List[T.Dict[str, T.Any]], T.Dict[str, T.Any], str]] = []
            xs: T.List[T.List[T.Dict[str, T.Any]]] = [[]]
            for k in range(1, n_exprs + 1):
                xs += [list(c) for c in itertools.product(cmodel['exprs'], repeat=k)]
            rid = 0
            rnd2 = random.Random(f'{chk.seed}:A2')
            for X in xs:
                # every flag combination for <= 1 expression; a seeded sample of them for longer lists
                fl = cmodel['flags'] if len(X) <= 1 else rnd2.sample(cmodel['flags'], 16)
                for f in fl:
                    for cwd in ('@B', '@O'):
                        rid += 1
                        runs2.append((f'A2.{rid}', X, f, cwd))
            step = max(1, len(runs2) // (common.NCPU * 3) + 1)
            fut_a2 = [ex.submit(_worker_a2, (str(bld), runs2[lo:lo + step], chk.seed)) for lo in range(0, len(runs2), step)]
            # (A3) msbuild command lines for the same invocations (no run/alias targets, never TARGET with --clean)
            (bld / 'x03.sln').write_text('')
            runlike = [t['n'] for t in cmodel['targets'] if t['ty'] in ('run', 'alias')]
            runs3 = [(r[0].replace('A2', 'A3'), r[1], r[2]) for r in runs2
                     if r[3] == '@O' and not (r[2]['clean'] and r[1]) and not any(e['g'] in runlike for e in r[1])]
            step = max(1, len(runs3) // common.NCPU + 1)
            fut_a3 = [ex.submit(_worker_a3, (str(bld), runs3[lo:lo + step], chk.seed)) for lo in range(0, len(runs3), step)]
            a2runs: T.List[T.Dict[str, T.Any]] = []
            for fu in fut_a2:
                a2runs.extend(fu.result())
            a3runs: T.List[T.Dict[str, T.Any]] = []
            for fu in fut_a3:
                a3runs.extend(fu.result())
            phases['a2_done_at'] = round(time.time() - t0, 1)
        a1cases: T.List[T.Dict[str, T.Any]] = []
        for fu in fut_a1:
            a1cases.extend(fu.result())
        phases['a1_done_at'] = round(time.time() - t0, 1)
        bcases = [fu.result() for fu in fut_b]
        phases['b_done_at'] = round(time.time() - t0, 1)

    # A1 judged
    chk.evaluations += len(a1cases) * len(exprs)
    chk.traces += len(a1cases)
    for c in a1cases:
        if len(c['t']) >= 2:
            for x, code in enumerate(c['r']):
                if code != 0:
                    chk.nontriv(f"{sorted(c['t'])}:{x}")
    for c in a1cases[:: max(1, len(a1cases) // 2)][:2]:
        chk.sample({'id': c['id'], 'targets': [canon_target(univ[i - 1]) for i in c['t']],
                    'answers': {canon_expr(exprs[x]): c['r'][x] for x in range(0, len(exprs), 37)}})
    judge(chk, univ, exprs, a1cases, 'A1', parts=1 if quick else 4)

    # A2 judged: one case per 200 runs (all share the build directory)
    a2cases = [{'id': f'A2#{k}', 'kind': 'C', 'T': T0, 'runs': list(part), 'declared': declared}
               for k, part in enumerate(common.chunks(a2runs, 200))]
    chk.traces += len(a2runs)
    for r in a2runs:
        if r['n'] and (len(r['argv']) > (2 if r['cwd'] == '@O' else 0)):
            chk.nontriv('A2:' + json.dumps([r['X'], r['f']], sort_keys=True))
    if a2runs:
        r = a2runs[len(a2runs) // 2]
        chk.sample({'id': r['rid'], 'meson compile': r['cmdline'], 'ninja argv': r['argv'], 'rc': r['rc'], 'err': r['err']})
    a2cases += [{'id': f'A3#{k}', 'kind': 'V', 'T': T0, 'runs': list(part), 'declared': declared}
                for k, part in enumerate(common.chunks(a3runs, 200))]
    chk.traces += len(a3runs)
    chk.extra['a2_runs'] = len(a2runs)
    chk.extra['a3_msbuild_command_lines'] = len(a3runs)
    judge(chk, [], [], a2cases, 'A2+A3', parts=1 if quick else 2)

    # B judged
    failed = [c for c in bcases if 'setup_failed' in c]
    good = [c for c in bcases if 'setup_failed' not in c]
    chk.extra['b_projects'] = len(good)
    chk.extra['b_projects_setup_failed'] = len(failed)
    if failed:
        chk.extra['b_setup_failure_sample'] = failed[0]['setup_failed'][-400:]
    if len(failed) * 5 > len(bcases):
        raise MachineryError(f'{len(failed)} of {len(bcases)} generated projects did not configure:\n' + failed[0]['setup_failed'])
    nb = sum(len(c['runs']) for c in good)
    chk.traces += nb
    chk.extra['b_runs'] = nb
    chk.extra['b_targets'] = sum(len(c['T']) for c in good)
    for c in good:
        for r in c['runs']:
            if r['n'] or r['err']['k'] in ('ambiguous', 'badtype', 'usage'):
                chk.nontriv('B:' + json.dumps([sorted(canon_target(t) for t in c['T']), r['X'], r['f']], sort_keys=True))
    if good:
        c = good[0]
        for r in c['runs'][2:5]:
            chk.sample({'id': r['rid'], 'targets': [canon_target(t) for t in c['T']], 'meson compile': r['cmdline'],
                        'ninja argv': r['argv'], 'rc': r['rc'], 'err': r['err']}, limit=8)
    judge(chk, [], [], good, 'B', parts=1)

    phases['judged_at'] = round(time.time() - t0, 1)
    chk.exhaustive = True
    chk.assumptions += [
        'TARGET grammar: names never contain "/" or ":"; PATH is written without ".." ("sub/foo" and "./sub/foo" only); a name '
        'with dots never carries a name_suffix, a name_suffix never contains a dot, and no target is called `a.b` while '
        'another one is `a` with name_suffix `b` (Commands.md does not say how NAME.SUFFIX is split)',
        'the bare NAME of a target that exists with and without name_suffix in one directory and type may resolve to the '
        'one without suffix or be reported ambiguous (Commands.md read literally vs. test_executable_names); both accepted',
        'error classes are recognised by the words naming them (not found / ambiguous / unknown target type / '
        "can't be used simultaneously / not a meson build directory); candidate lines of an ambiguity are parsed and compared "
        'as expressions; which of several failing expressions is reported is not prescribed',
        'option groups of the ninja command line may come in any order, operands must come last; -l values in (0,1) are not '
        'generated (Release notes 0.54 "value < 1" vs. a meaningful fractional load); exit status: only zero / non-zero',
        'layout=flat ("unsupported and probably broken" by its own warning), the vs and xcode backends (no msbuild / '
        'xcodebuild here; the documents say next to nothing about their command lines), jar targets (no JDK needed) and '
        'rust-ABI static libraries are not generated',
    ]


def replay(chk: Check, data: T.Dict[str, T.Any]) -> None:
    det = data['detail']
    if det['kind'] == 'R':
        common.use_repo_meson()
        from mesonbuild import mcompile
        from mesonbuild.mesonlib import MesonException
        univ = det['targets_in_list_order']
        with scratch('x03r-') as d:
            c = resolve_case(mcompile, MesonException, univ, list(range(1, len(univ) + 1)), [det['expression']], d,
                             random.Random(0), True)
        c['id'] = 'replay'
        judge(chk, univ, [det['expression']], [c], 'replay')
        return
    rnd = random.Random(0)
    r = det['run']
    if det['kind'] == 'V':
        common.use_repo_meson()
        from mesonbuild import mcompile
        from mesonbuild.mesonlib import MesonException
        with scratch('x03r-') as d:
            c = run_project(det['declared'], d, rnd, 0, 'replay', fixed_runs=[])
            if 'setup_failed' in c:
                raise MachineryError('meson setup failed in replay:\n' + c['setup_failed'])
            bld = str(d / 'build dir')
            Path(bld, 'x03.sln').write_text('')
            c['kind'] = 'V'
            c['runs'] = [vs_run(mcompile, MesonException, bld, 'replay', r['X'], r['f'], rnd)]
        judge(chk, [], [], [c], 'replay')
        return
    with scratch('x03r-') as d:
        c = run_project(det['declared'], d, rnd, 0, 'replay',
                        fixed_runs=[{'X': r['X'], 'f': r['f'], 'cwd': r['cwd'], 'bd': r['bd']}])
    if 'setup_failed' in c:
        raise MachineryError('meson setup failed in replay:\n' + c['setup_failed'])
    judge(chk, [], [], [c], 'replay')


if __name__ == '__main__':
    sys.exit(common.run_check(main, PROP, replay=replay))
