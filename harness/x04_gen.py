"""Abstract syntax (the node shape of specs/langobj/LangObj.tla) and the seeded random
program generator of X04 (binding B).

The generator keeps a loose static type per variable so that most programs run for a
while; it does not predict outcomes (TLC does that).  Input classes the specification
calls unspecified are avoided; the input classes of the known findings that would make
signatures depend on random literals are left to the exhaustive binding (A).
"""
from __future__ import annotations

import random
import typing as T

Node = T.Dict[str, T.Any]


def cps(s: str) -> T.List[int]:
    return [ord(c) for c in s]


def N(k: str, s: str = '', n: int = 0, cs: T.Sequence[int] = (), a: T.Sequence[Node] = ()) -> Node:
    return {'k': k, 's': s, 'n': n, 'cs': list(cs), 'a': list(a)}


def Str(s: str) -> Node:
    return N('str', cs=cps(s))


def StrCs(cs: T.Sequence[int]) -> Node:
    return N('str', cs=cs)


def Int(n: int) -> Node:
    return N('int', n=n)


def Bool(b: bool) -> Node:
    return N('bool', n=1 if b else 0)


def Id(name: str) -> Node:
    return N('id', cs=cps(name))


def Arr(es: T.Sequence[Node]) -> Node:
    return N('arr', a=es)


def Dict(ents: T.Sequence[T.Tuple[str, Node]]) -> Node:
    return N('dict', a=[N('ent', cs=cps(k), a=[v]) for k, v in ents])


def Not(e: Node) -> Node:
    return N('not', a=[e])


def And(l: Node, r: Node) -> Node:
    return N('and', a=[l, r])


def Or(l: Node, r: Node) -> Node:
    return N('or', a=[l, r])


def Cmp(op: str, l: Node, r: Node) -> Node:
    return N('cmp', s=op, a=[l, r])


def Arith(op: str, l: Node, r: Node) -> Node:
    return N('arith', s=op, a=[l, r])


def Tern(c: Node, t: Node, f: Node) -> Node:
    return N('tern', a=[c, t, f])


def Idx(o: Node, i: Node) -> Node:
    return N('idx', a=[o, i])


def Kw(name: str, e: Node) -> Node:
    return N('kw', s=name, a=[e])


def Call(f: str, args: T.Sequence[Node]) -> Node:
    return N('call', s=f, a=args)


def Meth(obj: Node, m: str, args: T.Sequence[Node]) -> Node:
    return N('meth', s=m, a=[obj] + list(args))


def EnvGet(e: Node, name: str) -> Node:
    return N('envget', cs=cps(name), a=[e])


def Assign(x: str, e: Node) -> Node:
    return N('assign', cs=cps(x), a=[e])


def PlusAssign(x: str, e: Node) -> Node:
    return N('plusassign', cs=cps(x), a=[e])


def ExprS(e: Node) -> Node:
    return N('expr', a=[e])


def Block(ss: T.Sequence[Node]) -> Node:
    return N('block', a=ss)


def If(pairs: T.Sequence[T.Tuple[Node, T.Sequence[Node]]], els: T.Optional[T.Sequence[Node]]) -> Node:
    a: T.List[Node] = []
    for c, b in pairs:
        a += [c, Block(b)]
    if els is not None and len(els) > 0:
        a.append(Block(els))
        return N('if', n=1, a=a)
    return N('if', n=0, a=a)


def Foreach(x: str, items: Node, body: T.Sequence[Node]) -> Node:
    return N('foreach', cs=cps(x), a=[items, Block(body)])


def Msg(tag: int, e: Node) -> Node:
    return ExprS(Call('message', [Int(tag), e]))


# ---------------------------------------------------------------------------

PATH_PARTS = ['a', 'b', 'lib', 'foo.c', 'x.tar.gz', 'name.', 'sub', 'p.q']
ODD_PARTS = ['.hidden', '..', '.', '']
STRS = ['v', 'w', 'x y'.replace(' ', '_'), 'long-value', '', '1', 'true']
ENV_NAMES = ['X04_A', 'X04_B', 'X04_OUT']
SEPS = [':', ';', ',', '', '--']
EMSGS = ['not here', 'E42', 'needs-foo']
FEATS = ['fe', 'fd', 'fa']


class Gen:
    def __init__(self, rnd: random.Random) -> None:
        self.r = rnd
        self.types: T.Dict[str, str] = {}        # variable -> 'int' | 'str' | 'bool' | 'any' | 'cfg' | 'env' | 'feat' | 'dis'
        self.tag = 0
        self.depth = 0
        self.tern = 0          # the language has no ternary inside a ternary
        self.scopes: T.List[T.Set[str]] = [set()]   # names defined for sure, per open block

    # -- helpers
    def p(self, x: float) -> bool:
        return self.r.random() < x

    def pick(self, xs: T.Sequence[T.Any]) -> T.Any:
        return xs[self.r.randrange(len(xs))]

    def vars_of(self, *types: str) -> T.List[str]:
        return [v for v, t in self.types.items() if t in types]

    def define(self, name: str, ty: str) -> None:
        """``name`` is assigned a value of static type ``ty`` here.  A name first assigned inside a block exists only
        until the block ends (the block may not run); a re-assignment inside a block makes the type uncertain."""
        if name not in self.types:
            self.scopes[-1].add(name)
            self.types[name] = ty
        elif self.types[name] != ty:
            self.types[name] = 'any' if (self.depth > 0 or ty == 'any') and ty in ('int', 'str', 'bool', 'any', 'dis') else ty

    def push(self) -> None:
        self.scopes.append(set())

    def pop(self) -> None:
        for name in self.scopes.pop():
            self.types.pop(name, None)

    def newtag(self) -> int:
        self.tag += 1
        return self.tag

    def path(self) -> str:
        n = self.r.randint(1, 3)
        parts = [self.pick(PATH_PARTS) for _ in range(n)]
        if self.p(0.12):
            parts[self.r.randrange(n)] = self.pick(ODD_PARTS)
        s = '/'.join(parts)
        if self.p(0.25):
            s = '/' + s
        if self.p(0.06):
            s += '/'
        if self.p(0.06):
            s = s.replace('/', '\\', 1)
        return s

    # -- expressions by type
    def dis_expr(self) -> Node:
        """an expression that is (most likely) a disabler"""
        c = self.r.random()
        d = self.pick(self.vars_of('dis') or ['d'])
        if c < 0.4:
            return Id(d)
        if c < 0.5:
            return Call('disabler', [])
        if c < 0.65:
            return Call('join_paths', [Str('a'), Id(d)])
        if c < 0.75:
            return Call('join_paths', [Str('a'), Arr([Str('b'), Arr([Id(d)])])])
        if c < 0.85:
            return Meth(Id(d), self.pick(['full_path', 'get', 'enabled']), [])
        if c < 0.92:
            return Arith('+', Id(d), Int(1))
        return Not(Id(d))

    def bool_expr(self, depth: int = 0) -> Node:
        c = self.r.random()
        bv = self.vars_of('bool')
        if depth > 2 or c < 0.15:
            return Bool(self.p(0.5))
        if c < 0.25 and bv:
            return Id(self.pick(bv))
        if c < 0.35:
            return Cmp(self.pick(['==', '!=', '<', '>=']), self.int_expr(depth + 1), self.int_expr(depth + 1))
        if c < 0.42:
            return Cmp(self.pick(['==', '!=']), self.str_expr(depth + 1), self.str_expr(depth + 1))
        if c < 0.5:
            return Not(self.bool_expr(depth + 1))
        if c < 0.6:
            return (And if self.p(0.5) else Or)(self.bool_expr(depth + 1), self.bool_expr(depth + 1))
        if c < 0.72:
            fv = self.vars_of('feat') or FEATS
            return Meth(Id(self.pick(fv)), self.pick(['enabled', 'disabled', 'auto', 'allowed']), [])
        if c < 0.8:
            cv = self.vars_of('cfg')
            if cv:
                return Meth(Id(self.pick(cv)), 'has', [Str(self.pick(['ki', 'ks', 'kb', 'kq', 'ka', 'nope']))])
        if c < 0.86:
            return Meth(Id('fs'), 'is_absolute', [self.pathish(depth + 1)])
        if c < 0.93:
            return Call('is_disabler', [Id(self.pick(self.vars_of('int', 'str', 'bool', 'any', 'dis') or ['d']))])
        return Call('is_variable', [Str(self.pick(list(self.types) + ['nosuch']))])

    def int_expr(self, depth: int = 0) -> Node:
        c = self.r.random()
        iv = self.vars_of('int')
        if depth > 2 or c < 0.35:
            return Int(self.r.randint(0, 9))
        if c < 0.6 and iv:
            return Id(self.pick(iv))
        if c < 0.8:
            return Arith(self.pick(['+', '-', '*']), self.int_expr(depth + 1), self.int_expr(depth + 1))
        cv = [v for v in self.vars_of('cfg')]
        if c < 0.9 and cv:
            return Meth(Id(self.pick(cv)), self.pick(['get', 'get_unquoted']), [Str('ki'), Int(self.r.randint(0, 5))])
        if self.tern:
            return Int(self.r.randint(0, 9))
        self.tern += 1
        t = Tern(self.bool_expr(depth + 1), self.int_expr(depth + 1), self.int_expr(depth + 1))
        self.tern -= 1
        return t

    def pathish(self, depth: int = 0) -> Node:
        c = self.r.random()
        if depth > 2 or c < 0.5:
            return Str(self.path())
        if c < 0.75:
            return Arith('/', self.pathish(depth + 1), Str(self.path()))
        if c < 0.9:
            return Call('join_paths', [self.pathish(depth + 1)] + [Str(self.path()) for _ in range(self.r.randint(1, 2))])
        return Meth(Id('fs'), self.pick(['parent', 'name', 'as_posix']), [Str(self.path())])

    def str_expr(self, depth: int = 0) -> Node:
        c = self.r.random()
        sv = self.vars_of('str')
        if depth > 2 or c < 0.2:
            return Str(self.pick(STRS))
        if c < 0.35 and sv:
            return Id(self.pick(sv))
        if c < 0.42:
            return Arith('+', self.str_expr(depth + 1), self.str_expr(depth + 1))
        if c < 0.6:
            return self.pathish(depth)
        if c < 0.72:
            m = self.pick(['name', 'parent', 'stem', 'suffix', 'as_posix'])
            return Meth(Id('fs'), m, [self.pathish(depth + 1)])
        if c < 0.78:
            if self.p(0.5):
                return Meth(Id('fs'), 'replace_suffix', [self.pathish(depth + 1), Str(self.pick(['', '.o', '.tar', '.', '.h']))])
            a, b = self.path(), self.path()
            if a.startswith('/') != b.startswith('/'):
                b = ('/' + b) if a.startswith('/') else b.lstrip('/') or 'a'
            return Meth(Id('fs'), 'relative_to', [Str(a), Str(b)])
        cv = self.vars_of('cfg')
        if c < 0.86 and cv:
            v = self.pick(cv)
            key, m = self.pick([('ks', 'get'), ('kq', 'get'), ('kq', 'get_unquoted'), ('ks', 'get_unquoted'), ('nope', 'get_unquoted')])
            # the empty string makes get_unquoted crash (known finding): kept, but rare, so that programs get further
            return Meth(Id(v), m, [Str(key), Str('' if self.p(0.04) else self.pick(['dflt', '"qd"']))])
        if c < 0.9 and cv:
            return Meth(Str('|'), 'join', [Meth(Id(self.pick(cv)), 'keys', [])])
        ev = self.vars_of('env')
        if c < 0.97 and ev:
            return EnvGet(Id(self.pick(ev)), self.pick(ENV_NAMES))
        if self.tern:
            return Str(self.pick(STRS))
        self.tern += 1
        t = Tern(self.bool_expr(depth + 1), self.str_expr(depth + 1), self.str_expr(depth + 1))
        self.tern -= 1
        return t

    def scalar(self, ty: str) -> Node:
        return {'int': self.int_expr, 'str': self.str_expr, 'bool': self.bool_expr}[ty]()

    # -- statements
    def observe(self) -> Node:
        c = self.r.random()
        if c < 0.2:
            cand = self.vars_of('int', 'str', 'bool', 'any', 'dis')
            if cand:
                return Msg(self.newtag(), Call('is_disabler', [Id(self.pick(cand))]))
        if c < 0.4:
            cand = self.vars_of('int', 'str', 'bool', 'any')
            if cand:
                return Msg(self.newtag(), Id(self.pick(cand)))
        return Msg(self.newtag(), self.scalar(self.pick(['int', 'str', 'str', 'bool'])))

    def assign_scalar(self, nested: bool) -> Node:
        ty = self.pick(['int', 'str', 'bool'])
        names = {'int': ['i1', 'i2'], 'str': ['s1', 's2'], 'bool': ['b1', 'b2']}[ty]
        x = self.pick(names)
        if self.p(0.12):
            e = self.dis_expr() if self.p(0.6) else Arith('+' if ty != 'bool' else '==', Id(x) if self.types.get(x) == ty else self.scalar(ty), self.dis_expr())
            if ty == 'bool':
                e = Not(self.dis_expr())
            self.define(x, 'any')
            return Assign(x, e)
        e = self.scalar(ty)
        self.define(x, ty)
        return Assign(x, e)

    def cfg_stmt(self) -> Node:
        cv = self.vars_of('cfg')
        c = self.r.random()
        if not cv or c < 0.1:
            x = self.pick(['c', 'o'])
            self.define(x, 'cfg')
            if self.p(0.5):
                return Assign(x, Call('configuration_data', []))
            return Assign(x, Call('configuration_data', [Dict([('ki', Int(self.r.randint(0, 9))), ('ks', Str(self.pick([x for x in STRS if x])))])]))
        v = self.pick(cv)
        if c < 0.2:
            x = self.pick(['c', 'o', 'c2'])
            self.define(x, 'cfg')
            return Assign(x, Id(v))
        if c < 0.3 and len(cv) > 1:
            return ExprS(Meth(Id(v), 'merge_from', [Id(self.pick(cv))]))
        if c < 0.36:
            return ExprS(Call('configure_file', [Kw('output', Str('x04.h')), Kw('configuration', Id(v))]))
        val_dis = self.p(0.08)
        kind = self.pick(['ki', 'ks', 'kb', 'kq', 'k10', 'ka'])
        if kind == 'ki':
            return ExprS(Meth(Id(v), 'set', [Str('ki'), self.dis_expr() if val_dis else self.int_expr()]))
        if kind == 'ks':
            args = [Str('ks'), self.dis_expr() if val_dis else Str('' if self.p(0.04) else self.pick([x for x in STRS if x] + ['"quoted"', '"half']))]
            if self.p(0.2):
                args.append(Kw('description', Str('a comment')))
            return ExprS(Meth(Id(v), 'set', args))
        if kind == 'kb':
            return ExprS(Meth(Id(v), 'set', [Str('kb'), self.bool_expr()]))
        if kind == 'kq':
            return ExprS(Meth(Id(v), 'set_quoted', [Str('kq'), self.dis_expr() if val_dis else Str(self.pick(['v', 'two_words', '', '7']))]))
        if kind == 'k10':
            return ExprS(Meth(Id(v), 'set10', [Str('ki'), self.bool_expr()]))
        anyv = self.vars_of('any', 'int', 'str', 'bool')
        if anyv:
            return ExprS(Meth(Id(v), 'set', [Str('ka'), Id(self.pick(anyv))]))
        return ExprS(Meth(Id(v), 'set', [Str('ki'), Int(1)]))

    def env_stmt(self) -> Node:
        ev = self.vars_of('env')
        c = self.r.random()
        if not ev or c < 0.12:
            x = self.pick(['e', 'g'])
            self.define(x, 'env')
            form = self.r.random()
            kws = []
            if self.p(0.4):
                kws.append(Kw('separator', Str(self.pick(SEPS))))
            if self.p(0.4):
                kws.append(Kw('method', Str(self.pick(['set', 'append', 'prepend']))))
            if form < 0.4:
                return Assign(x, Call('environment', kws))
            if form < 0.6:
                return Assign(x, Call('environment', [Str(self.pick(ENV_NAMES) + '=' + self.pick(['1', 'a=b', '']))] + kws))
            if form < 0.8:
                return Assign(x, Call('environment', [Arr([Str(n + '=' + self.pick(['u', 'v'])) for n in self.r.sample(ENV_NAMES, 2)])] + kws))
            ents = [(n, Arr([Str('p'), Str('q')]) if self.p(0.4) else Str(self.pick(['o', 'oo']))) for n in self.r.sample(ENV_NAMES, self.r.randint(1, 3))]
            return Assign(x, Call('environment', [Dict(ents)] + kws))
        v = self.pick(ev)
        if c < 0.22:
            x = self.pick(['e', 'g', 'e2'])
            self.define(x, 'env')
            return Assign(x, Id(v))
        if c < 0.3:
            return ExprS(Meth(Id(v), 'unset', [Str(self.pick(ENV_NAMES))]))
        m = self.pick(['set', 'append', 'prepend'])
        vals: T.List[Node] = [Str(self.pick(['x', 'y', 'zz', '', '/usr/bin'])) for _ in range(self.r.randint(1, 3))]
        if self.p(0.06):
            vals[self.r.randrange(len(vals))] = self.dis_expr()
        args = [Str(self.pick(ENV_NAMES))] + vals
        if self.p(0.4):
            args.append(Kw('separator', Str(self.pick(SEPS))))
        return ExprS(Meth(Id(v), m, args))

    def feat_stmt(self) -> Node:
        fv = self.vars_of('feat')
        c = self.r.random()
        x = self.pick(['f', 'h'])
        if not fv or c < 0.2:
            e = Id(self.pick(FEATS + (fv or [])))
        else:
            v = self.pick(fv)
            if c < 0.6:
                e = Meth(Id(v), self.pick(['disable_auto_if', 'enable_auto_if']), [self.bool_expr()])
            elif c < 0.7:
                e = Meth(Id(v), 'require', [Bool(True)])
            else:
                m = self.pick(['require', 'enable_if', 'disable_if'])
                args: T.List[Node] = [self.dis_expr() if self.p(0.08) else self.bool_expr()]
                if self.p(0.6):
                    args.append(Kw('error_message', Str(self.pick(EMSGS))))
                e = Meth(Id(v), m, args)
        self.define(x, 'feat')       # only now: the initialiser must not mention the name it introduces
        return Assign(x, e)

    def var_stmt(self) -> Node:
        c = self.r.random()
        if c < 0.35:
            ty = self.pick(['int', 'str', 'bool'])
            name = self.pick(['sv1', 'sv2'])
            if self.p(0.25):
                e = self.dis_expr()
                self.define(name, 'any')
                return ExprS(Call('set_variable', [Str(name), e]))
            e = self.scalar(ty)
            self.define(name, ty)
            return ExprS(Call('set_variable', [Str(name), e]))
        if c < 0.75:
            x = self.pick(['gv1', 'gv2'])
            src = self.pick(self.vars_of('int', 'str', 'bool', 'any', 'dis') + ['nosuch'])
            args: T.List[Node] = [Str(src)]
            if self.p(0.93 if src == 'nosuch' else 0.6):
                args.append(self.dis_expr() if self.p(0.3) else self.scalar(self.pick(['int', 'str'])))
            if self.p(0.08):
                args[0] = Id(self.pick(self.vars_of('dis') or ['d']))
            self.define(x, 'any')
            return Assign(x, Call('get_variable', args))
        if c < 0.85:
            cand = self.vars_of('any', 'int', 'str', 'bool')
            if cand and self.depth == 0:
                x = self.pick(cand)
                del self.types[x]
                self.scopes[0].discard(x)
                return ExprS(Call('unset_variable', [Str(x)]))
        return ExprS(Call('assert', [self.dis_expr() if self.p(0.3) else (Bool(True) if self.p(0.8) else self.bool_expr()), Str('assertion text')]))

    def block(self) -> T.List[Node]:
        self.depth += 1
        self.push()
        n = self.r.randint(1, 3)
        out = [self.stmt() for _ in range(n)]
        self.pop()
        self.depth -= 1
        return out

    def if_stmt(self) -> Node:
        def cond() -> Node:
            if self.p(0.2):
                anyv = self.vars_of('dis')
                return self.dis_expr() if self.p(0.7) or not anyv else Id(self.pick(anyv))
            return self.bool_expr()
        pairs = [(cond(), self.block())]
        if self.p(0.3):
            pairs.append((cond(), self.block()))
        els = self.block() if self.p(0.5) else None
        return If(pairs, els)

    def foreach_stmt(self) -> Node:
        x = self.pick(['it', 'jt'])
        ty = self.pick(['int', 'str'])
        items: T.List[Node] = [self.scalar(ty) for _ in range(self.r.randint(0, 3))]
        if self.p(0.3):
            items.insert(self.r.randrange(len(items) + 1), self.pick([Id('d'), Call('disabler', [])]))
        self.depth += 1
        self.push()
        if x in self.types:
            self.types[x] = 'any'
        else:
            self.define(x, 'any')
        body = [Msg(self.newtag(), Call('is_disabler', [Id(x)]))] if self.p(0.6) else []
        body += [self.stmt() for _ in range(self.r.randint(0, 2))]
        self.pop()
        self.depth -= 1
        return Foreach(x, Arr(items), body)

    def plus_stmt(self) -> Node:
        iv, sv = self.vars_of('int'), self.vars_of('str')
        if iv and self.p(0.5):
            return PlusAssign(self.pick(iv), self.int_expr())
        if sv:
            return PlusAssign(self.pick(sv), self.str_expr())
        return self.observe()

    def stmt(self) -> Node:
        c = self.r.random()
        if c < 0.3:
            return self.observe()
        if c < 0.42:
            return self.assign_scalar(self.depth > 0)
        if c < 0.55 and self.depth == 0:
            return self.cfg_stmt()
        if c < 0.66 and self.depth == 0:
            return self.env_stmt()
        if c < 0.76 and self.depth == 0:
            return self.feat_stmt()
        if c < 0.84:
            return self.var_stmt()
        if c < 0.91 and self.depth < 2:
            return self.if_stmt()
        if c < 0.96 and self.depth < 2:
            return self.foreach_stmt()
        if c < 0.98 and self.depth == 0:
            return self.plus_stmt()
        return self.observe()


def program(rnd: random.Random) -> T.List[Node]:
    g = Gen(rnd)
    prog: T.List[Node] = [Assign('d', Call('disabler', []))]
    g.define('d', 'dis')
    focus = rnd.random()
    if focus < 0.5:
        prog.append(Assign('c', Call('configuration_data', [])))
        g.define('c', 'cfg')
    if focus > 0.3:
        prog.append(Assign('e', Call('environment', [])))
        g.define('e', 'env')
    prog.append(Assign('f', Id(rnd.choice(FEATS))))
    g.define('f', 'feat')
    n = rnd.randint(8, 30)
    while len(prog) < n:
        prog.append(g.stmt())
    prog.append(g.observe())
    return prog
