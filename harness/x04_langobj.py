"""X04 - the Meson language beyond the core value language: disabler objects, feature
objects, configuration_data() / environment() and the path helpers behave as the
reference manual says.

1. TLC model-checks specs/langobj: LangObjPaths_MC (join laws, two formulations of
   join_paths, fs round trips over every string triple of a bounded alphabet),
   LangObjFeature_MC (tables == prose of feature.yaml, lattice laws, auto_features)
   and LangObj_MC (every program of a prefix + up to N statements of four statement
   alphabets: disabler absorption, `if` on a disabler, syntactic taint == evaluation,
   mutation is local to the receiver variable, used objects are frozen, get-after-set,
   merge, environment laws).
2. (A) exactly these bounded spaces (alphabets / string sets exported by the TLC runs)
   are rendered to meson.build text and run by the real ``Interpreter`` (in-process, one
   long-lived interpreter per auto_features value and worker); the outcome - success or
   failure, the texts printed by message(), the reported error_message - is judged by
   TraceLangObj (TLC runs the reference evaluator on the same abstract program).
3. (B) seeded random larger programs (nested if / foreach, disablers flowing into every
   kind of call, copies of mutable objects, feature chains, richer paths) judged the same
   way; a sample of A and B also runs through the real ``meson setup --backend=none``.

The model-checking runs go on in the background while the implementation is driven (their
input spaces are exported first by bound-0 runs of the same models and compared at the
end).  Debugging aids (not used by ./check): X04_ONLY=dis,feat,cfg,env,path,B restricts the
bindings, X04_NOMC=1 skips the model-checking runs, X04_MAX_REPORTED=n lifts the report cap.
"""
from __future__ import annotations

import argparse
import itertools
import json
import os
import random
import shutil
import subprocess
import sys
import tempfile
import traceback
import typing as T
from concurrent.futures import ProcessPoolExecutor, ThreadPoolExecutor

from . import common
from .common import Check, MachineryError, SPECS, run_tlc, scratch
from . import x04_gen

PROP = 'X04'
FAM = SPECS / 'langobj'

OUTER_NAME = 'X04_OUT'
OUTER_VALUE = 'BOB'
UNSET_MARK = '(unset)'
PRELUDE = ["fe = get_option('fe')", "fd = get_option('fd')", "fa = get_option('fa')", "fs = import('fs')"]
OPTIONS = ("option('fe', type : 'feature', value : 'enabled')\n"
           "option('fd', type : 'feature', value : 'disabled')\n"
           "option('fa', type : 'feature', value : 'auto')\n")
AF_NAME = {0: 'disabled', 1: 'auto', 2: 'enabled'}

Node = T.Dict[str, T.Any]


# ---------------------------------------------------------------------------
# rendering of abstract programs

def txt(cs: T.Sequence[int]) -> str:
    return ''.join(chr(c) for c in cs)


def quote(cs: T.Sequence[int]) -> str:
    return "'" + txt(cs).replace('\\', '\\\\').replace("'", "\\'") + "'"


ATOMS = {'str', 'int', 'bool', 'id', 'arr', 'dict', 'call', 'meth', 'envget'}


def rx(e: Node, abstract: T.Optional[T.Dict[str, str]] = None) -> str:
    """expression -> text; with ``abstract`` (name -> kind) identifiers and literals are replaced by their kinds."""
    k = e['k']
    A = lambda x: rx(x, abstract)  # noqa: E731
    P = lambda x: A(x) if x['k'] in ATOMS else '(' + A(x) + ')'  # noqa: E731
    if k == 'str':
        return quote(e['cs']) if abstract is None else 'STR'
    if k == 'int':
        return str(e['n']) if abstract is None else 'INT'
    if k == 'bool':
        return ('true' if e['n'] == 1 else 'false') if abstract is None else 'BOOL'
    if k == 'id':
        return txt(e['cs']) if abstract is None else abstract.get(txt(e['cs']), 'ID')
    if k == 'arr':
        return '[' + ', '.join(A(x) for x in e['a']) + ']'
    if k == 'dict':
        return '{' + ', '.join((quote(x['cs']) if abstract is None else 'STR') + ' : ' + A(x['a'][0]) for x in e['a']) + '}'
    if k == 'not':
        return 'not ' + P(e['a'][0])
    if k == 'neg':
        return '-' + P(e['a'][0])
    if k in ('and', 'or'):
        return P(e['a'][0]) + ' ' + k + ' ' + P(e['a'][1])
    if k in ('cmp', 'arith'):
        return P(e['a'][0]) + ' ' + e['s'] + ' ' + P(e['a'][1])
    if k == 'tern':
        return P(e['a'][0]) + ' ? ' + P(e['a'][1]) + ' : ' + P(e['a'][2])
    if k == 'idx':
        return P(e['a'][0]) + '[' + A(e['a'][1]) + ']'
    if k == 'kw':
        return e['s'] + ' : ' + A(e['a'][0])
    if k == 'call':
        return e['s'] + '(' + ', '.join(A(x) for x in e['a']) + ')'
    if k == 'meth':
        return P(e['a'][0]) + '.' + e['s'] + '(' + ', '.join(A(x) for x in e['a'][1:]) + ')'
    if k == 'envget':
        if abstract is not None:
            return 'envget(' + A(e['a'][0]) + ')'
        return ("run_command('/bin/sh', '-c', 'printf %s \"${" + txt(e['cs']) + '-' + UNSET_MARK + "}\"', env : "
                + A(e['a'][0]) + ', check : true).stdout()')
    raise MachineryError('cannot render expression kind ' + repr(k))


def head(s: Node, abstract: T.Optional[T.Dict[str, str]] = None) -> str:
    """first line of a statement"""
    k = s['k']
    name = txt(s['cs']) if abstract is None else 'ID'
    if k == 'assign':
        return name + ' = ' + rx(s['a'][0], abstract)
    if k == 'plusassign':
        return (txt(s['cs']) if abstract is None else abstract.get(txt(s['cs']), 'ID')) + ' += ' + rx(s['a'][0], abstract)
    if k == 'expr':
        return rx(s['a'][0], abstract)
    if k == 'if':
        return 'if ' + rx(s['a'][0], abstract)
    if k == 'foreach':
        return 'foreach ' + name + ' : ' + rx(s['a'][0], abstract)
    raise MachineryError('cannot render statement kind ' + repr(k))


def render(prog: T.Sequence[Node]) -> T.Tuple[T.List[str], T.List[T.Tuple[Node, int]]]:
    """program -> (lines, per line (innermost statement, 1-based index of the top-level statement))."""
    lines: T.List[str] = []
    where: T.List[T.Tuple[Node, int]] = []

    def emit(text: str, node: Node, top: int, ind: int) -> None:
        lines.append('  ' * ind + text)
        where.append((node, top))

    def stmt(s: Node, top: int, ind: int) -> None:
        k = s['k']
        if k == 'if':
            npairs = (len(s['a']) - s['n']) // 2
            for j in range(npairs):
                emit(('if ' if j == 0 else 'elif ') + rx(s['a'][2 * j]), s, top, ind)
                for b in s['a'][2 * j + 1]['a']:
                    stmt(b, top, ind + 1)
            if s['n'] == 1:
                emit('else', s, top, ind)
                for b in s['a'][-1]['a']:
                    stmt(b, top, ind + 1)
            emit('endif', s, top, ind)
        elif k == 'foreach':
            emit(head(s), s, top, ind)
            for b in s['a'][1]['a']:
                stmt(b, top, ind + 1)
            emit('endforeach', s, top, ind)
        else:
            emit(head(s), s, top, ind)

    for i, s in enumerate(prog):
        stmt(s, i + 1, 0)
    return lines, where


def error_messages(prog: T.Sequence[Node]) -> T.List[T.List[int]]:
    found: T.List[T.List[int]] = []

    def walk(n: Node) -> None:
        if n['k'] == 'kw' and n['s'] == 'error_message' and n['a'] and n['a'][0]['k'] == 'str' and n['a'][0]['cs'] not in found:
            found.append(list(n['a'][0]['cs']))
        for c in n['a']:
            walk(c)
    for s in prog:
        walk(s)
    return found


def msg_tag(s: Node) -> T.Optional[int]:
    if s['k'] == 'expr' and s['a'][0]['k'] == 'call' and s['a'][0]['s'] == 'message' and s['a'][0]['a'] and s['a'][0]['a'][0]['k'] == 'int':
        return T.cast(int, s['a'][0]['a'][0]['n'])
    return None


def statements(prog: T.Sequence[Node]) -> T.Iterator[Node]:
    for s in prog:
        yield s
        if s['k'] == 'if':
            npairs = (len(s['a']) - s['n']) // 2
            for j in range(npairs):
                yield from statements(s['a'][2 * j + 1]['a'])
            if s['n'] == 1:
                yield from statements(s['a'][-1]['a'])
        elif s['k'] == 'foreach':
            yield from statements(s['a'][1]['a'])


# ---------------------------------------------------------------------------
# in-process interpreter (one per auto_features value)

_INTR: T.Dict[int, T.Tuple[T.Any, T.Dict[str, T.Any]]] = {}
_TMP: T.Optional[str] = None


def _worker_env() -> None:
    os.environ[OUTER_NAME] = OUTER_VALUE
    for k in list(os.environ):
        if k.startswith('X04_') and k != OUTER_NAME:
            del os.environ[k]


def _interpreter(af: int) -> T.Tuple[T.Any, T.Dict[str, T.Any]]:
    global _TMP
    if af in _INTR:
        return _INTR[af]
    common.use_repo_meson()
    from mesonbuild import environment, build, interpreter, msetup, cmdline, mlog, mesonlib
    mlog.set_quiet()
    mlog._logger.log_disable_stdout = True
    mesonlib.set_meson_command(str(common.REPO / 'meson.py'))
    _worker_env()
    if _TMP is None:
        _TMP = tempfile.mkdtemp(prefix='x04-intr-')
        import atexit
        atexit.register(lambda: shutil.rmtree(T.cast(str, _TMP), ignore_errors=True))
    src = os.path.join(_TMP, f'src{af}')
    bld = os.path.join(_TMP, f'bld{af}')
    os.makedirs(src)
    with open(os.path.join(src, 'meson.build'), 'w') as f:
        f.write("project('verif')\n")
    with open(os.path.join(src, 'meson.options'), 'w') as f:
        f.write(OPTIONS)
    parser = argparse.ArgumentParser()
    msetup.add_arguments(parser)
    opts = parser.parse_args(['--backend=none', '-Dauto_features=' + AF_NAME[af], src, bld])
    cmdline.parse_cmd_line_options(opts)
    env = environment.Environment(src, bld, opts)
    intr = interpreter.Interpreter(build.Build(env), user_defined_options=opts)
    intr.run()
    _INTR[af] = (intr, dict(intr.variables))
    return _INTR[af]


class _Timeout(BaseException):
    pass


def _alarm(signum: int, frame: T.Any) -> None:
    raise _Timeout()


class _Buf:
    """stands in for meson-log.txt"""
    name = 'x04-log'

    def __init__(self) -> None:
        self.parts: T.List[str] = []

    def write(self, s: str) -> None:
        self.parts.append(s)

    def flush(self) -> None:
        pass

    def close(self) -> None:
        pass


def messages_of(log: str) -> T.List[T.List[int]]:
    return [[ord(c) for c in ln[len('Message: '):]] for ln in log.split('\n') if ln.startswith('Message: ')]


def run_program(prog: T.Sequence[Node], af: int) -> T.Dict[str, T.Any]:
    """Render, run in the real interpreter, project the outcome."""
    import signal
    lines, where = render(prog)
    text = '\n'.join(PRELUDE + lines) + '\n'
    intr, base = _interpreter(af)
    from mesonbuild import mparser, mesonlib, mlog
    intr.variables = dict(base)
    intr.argument_depth = 0
    buf = _Buf()
    saved = mlog._logger.log_file
    mlog._logger.log_file = T.cast(T.Any, buf)
    out: T.Dict[str, T.Any] = {'st': 'ok', 'fi': 0, 'em': [], 'text': text}
    err: T.Optional[BaseException] = None
    signal.signal(signal.SIGALRM, _alarm)
    signal.alarm(180)       # generous: the sandbox is shared and run_command forks
    try:
        ast = mparser.Parser(text, 'x04.build').parse()
        intr.evaluate_codeblock(ast)
    except mesonlib.MesonException as e:
        out['st'] = 'fail'
        err = e
    except _Timeout:
        out['st'] = 'internal:DoesNotTerminate@'
    except RecursionError as e:
        out['st'] = 'internal:RecursionError@'
        err = e
    except Exception as e:  # noqa: BLE001
        frames = [f for f in traceback.extract_tb(e.__traceback__) if 'mesonbuild' in f.filename]
        out['st'] = 'internal:' + type(e).__name__ + '@' + (frames[-1].name if frames else '')
        err = e
    finally:
        signal.alarm(0)
        mlog._logger.log_file = saved
    if err is not None:
        ln = getattr(err, 'lineno', None)
        if isinstance(ln, int) and len(PRELUDE) < ln <= len(PRELUDE) + len(where):
            out['fi'] = where[ln - len(PRELUDE) - 1][1]
            out['fline'] = ln - len(PRELUDE)
        msg = str(err)
        out['em'] = [m for m in error_messages(prog) if txt(m) in msg]
        out['error'] = msg[:300]
    out['out'] = messages_of(''.join(buf.parts))
    return out


# ---------------------------------------------------------------------------
# workers

def _pool_init() -> None:
    _worker_env()


def _warm(i: int) -> int:
    import time
    time.sleep(0.05)
    return os.getpid()


def _worker_enum(args: T.Tuple[str, T.List[Node], int, int, T.Any, int, int]) -> T.List[T.Dict[str, T.Any]]:
    """All programs prefix + n statements of the alphabet with codes lo..hi (table = prefix + alphabet)."""
    label, table, npre, n, lo, hi, af = args
    k = len(table) - npre
    res = []
    for code in (range(lo, hi) if isinstance(lo, int) else lo):       # a range of codes, or an explicit list (sampled bound)
        idxs = list(range(npre))
        c = code
        for _ in range(n):
            idxs.append(npre + c % k)
            c //= k
        obs = run_program([table[j] for j in idxs], af)
        obs.update({'id': f'{label}/{af}/{n}:{code}', 't': idxs, 'af': af})
        res.append(obs)
    return res


def _worker_tuples(args: T.Tuple[str, T.List[Node], T.List[T.List[int]]]) -> T.List[T.Dict[str, T.Any]]:
    label, table, progs = args
    res = []
    for idxs in progs:
        obs = run_program([table[j] for j in idxs], 1)
        obs.update({'id': label + ':' + '.'.join(map(str, idxs)), 't': idxs, 'af': 1})
        res.append(obs)
    return res


def _worker_gen(args: T.Tuple[int, int, int]) -> T.Dict[str, T.Any]:
    lo, hi, sd = args
    table = Table()
    cases = []
    for j in range(lo, hi):
        rnd = random.Random(sd * 1000003 + j)
        af = rnd.choice([0, 1, 1, 2])
        prog = x04_gen.program(rnd)
        obs = run_program(prog, af)
        obs.update({'id': f'B:{sd}:{j}', 't': [table.add(s) for s in prog], 'af': af})
        cases.append(obs)
    return {'table': table.items, 'cases': cases}


class Table:
    """interns top-level statements of a batch"""

    def __init__(self) -> None:
        self.items: T.List[Node] = []
        self.index: T.Dict[str, int] = {}

    def add(self, s: Node) -> int:
        key = json.dumps(s, sort_keys=True)
        i = self.index.get(key)
        if i is None:
            i = len(self.items)
            self.index[key] = i
            self.items.append(s)
        return i


class NodePool:
    """hash-consed syntax trees for a batch file"""

    def __init__(self) -> None:
        self.nodes: T.List[T.List[T.Any]] = []
        self.index: T.Dict[str, int] = {}

    def add(self, n: Node) -> int:
        enc = [n['k'], n['s'], n['n'], n['cs'], [self.add(c) for c in n['a']]]
        key = json.dumps(enc, separators=(',', ':'))
        i = self.index.get(key)
        if i is None:
            i = len(self.nodes)
            self.index[key] = i
            self.nodes.append(enc)
        return i


def merge(batches: T.Iterable[T.Dict[str, T.Any]]) -> T.Tuple[T.List[Node], T.List[T.Dict[str, T.Any]]]:
    table = Table()
    cases: T.List[T.Dict[str, T.Any]] = []
    for b in batches:
        remap = [table.add(s) for s in b['table']]
        for c in b['cases']:
            c['t'] = [remap[j] for j in c['t']]
            cases.append(c)
    return table.items, cases


# ---------------------------------------------------------------------------
# judgement by TLC

KEEP = ('id', 't', 'af', 'st', 'out', 'em', 'fi')


class Judge:
    """Runs TraceLangObj batches on a thread pool while the main thread goes on producing executions;
    verdicts are applied to the Check in submission order by ``finish``."""

    def __init__(self, chk: Check, tp: ThreadPoolExecutor) -> None:
        self.chk = chk
        self.tp = tp
        self.pending: T.List[T.Tuple[str, T.List[Node], T.Dict[str, T.Dict[str, T.Any]], int, T.Any]] = []

    def submit(self, table: T.List[Node], cases: T.List[T.Dict[str, T.Any]], label: str) -> None:
        chk = self.chk
        for c in cases:
            if c['st'].startswith('internal:'):
                chk.violation('InternalError:' + c['st'][len('internal:'):],
                              {'program': [table[j] for j in c['t']], 'af': c['af'], 'text': c['text'], 'outcome': c['st'], 'error': c.get('error')})
        todo = [c for c in cases if not c['st'].startswith('internal:')]
        # parts of bounded size: about 50,000 small programs or fewer big ones (TLC holds the whole batch as values)
        parts: T.List[T.List[T.Dict[str, T.Any]]] = [[]]
        weight = 0
        for c in todo:
            w = 40 + 12 * len(c['t']) + 3 * sum(len(x) + 2 for x in c['out'])
            if parts[-1] and (weight + w > 4_000_000 or len(parts[-1]) >= 50000):
                parts.append([])
                weight = 0
            parts[-1].append(c)
            weight += w
        for part_no, part in enumerate(parts):
            if not part:
                continue
            # ship only the statements this part uses, hash-consed: nodes[i] = [k, s, n, cs, [child indices]]
            used = sorted({j for c in part for j in c['t']})
            remap = {j: i for i, j in enumerate(used)}
            pool = NodePool()
            roots = [pool.add(table[j]) for j in used]
            text = json.dumps({'nodes': pool.nodes, 'roots': roots,
                               'cases': [dict({k: c[k] for k in KEEP}, t=[remap[j] for j in c['t']]) for c in part]},
                              separators=(',', ':'))
            fut = self.tp.submit(self._run, text)
            self.pending.append((f'TraceLangObj[{label}#{part_no}]', table, {c['id']: c for c in part}, len(part), fut))

    @staticmethod
    def _run(text: str) -> T.Any:
        with scratch('x04-') as d:
            tf = d / 'cases.json'
            tf.write_text(text)
            return run_tlc(FAM, 'TraceLangObj', env={'TRACE_FILE': str(tf)}, timeout=3600, heap='6g', workers=max(2, common.NCPU // 2))

    def finish(self) -> None:
        chk = self.chk
        for name, table, by_id, n, fut in self.pending:
            res = fut.result()
            if not res.clean:
                raise MachineryError(name + ' did not complete cleanly:\n' + res.stdout[-2500:])
            if res.distinct != 2 * n:
                raise MachineryError(f'{name} judged {res.distinct // 2} of {n} cases')
            chk.add_tlc(name, res, model=False)
            chk.traces += n
            for v in res.json_lines():
                c = by_id.get(v['id'])
                if c is None:
                    raise MachineryError('verdict for unknown case ' + repr(v.get('id')))
                prog = [table[j] for j in c['t']]
                chk.violation(signature(v, c, prog), {'verdict': {k: v[k] for k in ('clause', 'sig', 'code', 'em')},
                                                      'expected_messages': [txt(x) for x in v['expected']],
                                                      'observed_messages': [txt(x) for x in c['out']],
                                                      'outcome': c['st'], 'error': c.get('error'), 'af': c['af'],
                                                      'text': c['text'], 'program': prog})
        self.pending = []


def kinds_map(pairs: T.Sequence[T.Any]) -> T.Dict[str, str]:
    return {txt(p[0]): p[1] for p in pairs}


def signature(v: T.Dict[str, T.Any], c: T.Dict[str, T.Any], prog: T.Sequence[Node]) -> str:
    """clause @ the statement at fault with identifiers replaced by what they hold and literals by their types."""
    clause = v['clause']
    if clause in ('SucceedsButReferenceFails', 'ErrorMessageNotReported'):
        at = v['at']
        return clause + '@' + (head(at, kinds_map(v['rkinds'])) if at['k'] != 'none' else '?')
    if clause == 'FailsButReferenceSucceeds':
        _, where = render(prog)
        fl = c.get('fline')
        if fl is None:
            return clause + '@?'
        return clause + '@' + head(where[fl - 1][0], kinds_map(v['ikinds']))
    # output clauses: the first line that differs
    exp = [txt(x) for x in v['expected']]
    got = [txt(x) for x in c['out']]
    j = 0
    while j < len(exp) and j < len(got) and exp[j] == got[j]:
        j += 1
    e = exp[j] if j < len(exp) else None
    g = got[j] if j < len(got) else None
    tagtext = (e if e is not None else g or '').split(' ', 1)[0]
    culprit = ''
    if tagtext.isdigit():
        cands = [s for s in statements(prog) if msg_tag(s) == int(tagtext)]
        if cands:
            # what the object held matters, not whether it had been used: one signature per cause
            culprit = head(cands[0], {k: x.replace('-used', '') for k, x in kinds_map(v['rkinds']).items()})
    strip = lambda s: None if s is None else (s.split(' ', 1)[1] if ' ' in s else '')  # noqa: E731
    # the three output clauses differ in when the difference was noticed, not in what differs
    return f'OutputDiffers@{culprit}:expected={strip(e)!r}:got={strip(g)!r}'


# ---------------------------------------------------------------------------
# accounting

def account(chk: Check, table: T.List[Node], cases: T.List[T.Dict[str, T.Any]]) -> None:
    chk.evaluations += len(cases)
    for c in cases:
        if c['out'] or c['st'] == 'fail':
            chk.nontriv((c['af'], tuple(c['t'])) if len(c['t']) < 12 else c['id'])
    for c in cases[:: max(1, len(cases) // 2)][:2]:
        chk.sample({'id': c['id'], 'auto_features': AF_NAME[c['af']], 'text': c['text'][:600], 'outcome': c['st'],
                    'messages': [txt(x) for x in c['out']][:8]}, limit=14)


# ---------------------------------------------------------------------------
# the real command line

def cli_sample(jd: Judge, pools: T.List[T.Tuple[T.List[Node], T.List[T.Dict[str, T.Any]]]]) -> None:
    """The same programs through `meson setup --backend=none`: judged by TLC like the in-process runs."""
    chk = jd.chk
    table = Table()
    picked: T.List[T.Dict[str, T.Any]] = []
    for tb, cs in pools:
        for c in cs:
            if not c['st'].startswith('internal:'):
                picked.append(dict(c, t=[table.add(tb[j]) for j in c['t']]))
    if not picked:
        return
    env = dict(os.environ)
    env[OUTER_NAME] = OUTER_VALUE
    for k in list(env):
        if k.startswith('X04_') and k != OUTER_NAME:
            del env[k]
    with scratch('x04-cli-') as d:
        def run(job: T.Tuple[int, T.Dict[str, T.Any]]) -> T.Dict[str, T.Any]:
            import re
            i, c = job
            src = d / f'p{i}'
            src.mkdir()
            (src / 'meson.build').write_text("project('verif')\n" + c['text'])
            (src / 'meson.options').write_text(OPTIONS)
            p = subprocess.run([common.PYTHON, str(common.REPO / 'meson.py'), 'setup', '--backend=none',
                                '-Dauto_features=' + AF_NAME[c['af']], str(src / 'b'), str(src)],
                               stdout=subprocess.PIPE, stderr=subprocess.STDOUT, text=True, timeout=1800, env=env)
            prog = [table.items[j] for j in c['t']]
            o: T.Dict[str, T.Any] = {'id': 'CLI:' + c['id'], 't': c['t'], 'af': c['af'], 'text': c['text'], 'fi': 0,
                                     'out': messages_of(p.stdout), 'st': 'ok' if p.returncode == 0 else 'fail',
                                     'em': [m for m in error_messages(prog) if txt(m) in p.stdout], 'error': p.stdout[-400:]}
            if 'Traceback (most recent call last)' in p.stdout or 'Unhandled python exception' in p.stdout:
                tb = [ln for ln in p.stdout.split('\n') if ln.strip()]
                exc = tb[-1].split(':', 1)[0].strip() if tb else 'Exception'
                fn = [ln.strip().rsplit(' in ', 1)[1] for ln in tb if ln.strip().startswith('File ') and 'mesonbuild' in ln and ' in ' in ln]
                o['st'] = 'internal:' + exc + '@' + (fn[-1] if fn else '')
            elif p.returncode != 0:
                m = re.search(r'meson\.build:(\d+):\d+: ERROR', p.stdout)      # line of the failure -> statement
                if m:
                    _, where = render(prog)
                    ln = int(m.group(1)) - 1 - len(PRELUDE)
                    if 1 <= ln <= len(where):
                        o['fi'] = where[ln - 1][1]
                        o['fline'] = ln
            return o
        with ThreadPoolExecutor(max_workers=max(2, common.NCPU // 2)) as tp:
            got = list(tp.map(run, enumerate(picked)))
    chk.extra['cli_runs'] = len(got)
    chk.evaluations += len(got)
    jd.submit(table.items, got, 'CLI')


# ---------------------------------------------------------------------------
# model checking + bounded spaces

MC_INVARIANTS = ['Total', 'RunIsIncremental', 'OutputGrows', 'DisabledCallHasNoEffect', 'IfOnDisablerSkips', 'AbsorptionIsSyntactic',
                 'FoundIsFalse', 'MutationIsLocal', 'UsedIsFrozen', 'GetAfterSet', 'KeysSorted', 'MergeOverrides', 'EnvLaws', 'SetForgets']
PATH_INVARIANTS = ['FoldEqualsDeclarative', 'JoinAssociative', 'AbsoluteWins', 'OnlySlashes', 'NothingLost', 'AgreesWithCoreSpec',
                   'ParentNameRoundTrip', 'StemPlusSuffix', 'ReplaceSuffixLaws', 'RelativeRoundTrip', 'AsPosixIdempotent']
FEAT_INVARIANTS = ['TypeOK', 'TableEqualsProse', 'OneOfThree', 'AutoFeaturesOverride', 'Algebra', 'DecidedStaysDecided', 'ChainSettles']


def cfg_text(constants: T.Dict[str, T.Any], invariants: T.Sequence[str], post: T.Optional[str]) -> str:
    lines = ['SPECIFICATION Spec', 'CONSTANTS'] + [f' {k} = {common.tla(v)}' for k, v in constants.items()]
    lines += ['INVARIANT ' + i for i in invariants] + ['CHECK_DEADLOCK FALSE']
    if post:
        lines.append('POSTCONDITION ' + post)
    return '\n'.join(lines) + '\n'


def start_model_checking(tp: ThreadPoolExecutor, quick: bool) -> T.Tuple[T.Dict[str, T.Any], T.Dict[str, T.Any], T.Dict[str, T.Any]]:
    """Submits (a) export-only runs of the models (bound 0: they only write the input space the model is built from) and
    (b) the real model-checking runs, which go on in the background while the implementation is being driven.
    Returns (futures of the exports, futures of the model-checking runs, bounds)."""
    nlen = {'dis': 3, 'feat': 3, 'cfg': 3, 'env': 3} if quick else {'dis': 4, 'feat': 4, 'cfg': 4, 'env': 4}
    pruns = [(3, False), (2, True)] if quick else [(4, False), (3, True)]
    share = max(2, common.NCPU // 2)
    exports: T.Dict[str, T.Any] = {}
    runs: T.Dict[str, T.Any] = {}
    for area in nlen:
        exports[area] = tp.submit(run_tlc, FAM, 'LangObj_MC', cfg_text=cfg_text({'MaxLen': 0, 'Area': area}, ['Total'], 'EmitSpace'),
                                  collect=['space.json'], timeout=1800, heap='2g', workers=1, allow_violation=False)
    for ml, bs in pruns:
        exports[f'paths{ml}{bs}'] = tp.submit(run_tlc, FAM, 'LangObjPaths_MC',
                                              cfg_text=cfg_text({'MaxLen': ml, 'WithBackslash': bs, 'Explore': False}, ['AsPosixIdempotent'], 'EmitSpace'),
                                              collect=['space.json'], timeout=1800, heap='2g', workers=1, allow_violation=False)
    if os.environ.get('X04_NOMC'):                 # debugging aid: only drive the implementation
        return exports, runs, {'statements': nlen, 'path_strings': [{'max_length': ml, 'backslash': bs} for ml, bs in pruns],
                               'sample_above': {} if quick else {'dis': 300000}}
    for area, n in nlen.items():
        runs[f'LangObj_MC[{area},MaxLen={n}]'] = tp.submit(
            run_tlc, FAM, 'LangObj_MC', cfg_text=cfg_text({'MaxLen': n, 'Area': area}, MC_INVARIANTS, 'EmitSpace'),
            collect=['space.json'], timeout=7200, heap='6g', workers=share, allow_violation=False)
    for ml, bs in pruns:
        runs[f'LangObjPaths_MC[MaxLen={ml},backslash={bs}]'] = tp.submit(
            run_tlc, FAM, 'LangObjPaths_MC', cfg_text=cfg_text({'MaxLen': ml, 'WithBackslash': bs, 'Explore': True}, PATH_INVARIANTS, 'EmitSpace'),
            collect=['space.json'], timeout=7200, heap='6g', workers=share, allow_violation=False)
    mchain = 3 if quick else 5
    runs[f'LangObjFeature_MC[MaxChain={mchain}]'] = tp.submit(
        run_tlc, FAM, 'LangObjFeature_MC', cfg_text=cfg_text({'MaxChain': mchain}, FEAT_INVARIANTS, None),
        timeout=3600, heap='4g', workers=2, allow_violation=False)
    return exports, runs, {'statements': nlen, 'path_strings': [{'max_length': ml, 'backslash': bs} for ml, bs in pruns],
                           'sample_above': {} if quick else {'dis': 300000}}


def S(s: str) -> Node:
    return x04_gen.Str(s)


def path_space(strings: T.List[T.List[int]], quick: bool) -> T.Tuple[T.List[Node], T.List[T.List[int]]]:
    """Programs  p = <s1>; q = <s2>; r = <s3>; message(1, <observer>)  over the string set exported by LangObjPaths_MC."""
    g = x04_gen
    strs = sorted(strings, key=lambda s: (len(s), s))
    table = Table()
    P, Q, R_ = g.Id('p'), g.Id('q'), g.Id('r')
    fs = g.Id('fs')
    one = [g.Msg(1, g.Meth(fs, m, [P])) for m in ('name', 'parent', 'stem', 'suffix', 'is_absolute', 'as_posix')]
    two = [g.Msg(2, g.Arith('/', P, Q)), g.Msg(3, g.Call('join_paths', [g.Arr([P, Q])])), g.Msg(4, g.Meth(fs, 'relative_to', [P, Q]))]
    three = [g.Msg(5, g.Call('join_paths', [P, Q, R_])), g.Msg(6, g.Arith('/', g.Arith('/', P, Q), R_))]
    suf = g.Msg(7, g.Meth(fs, 'replace_suffix', [P, Q]))
    progs: T.List[T.List[int]] = []
    ap = {tuple(s): table.add(g.Assign('p', g.StrCs(s))) for s in strs}
    aq = {tuple(s): table.add(g.Assign('q', g.StrCs(s))) for s in strs}
    ar = {tuple(s): table.add(g.Assign('r', g.StrCs(s))) for s in strs}
    obs1 = [table.add(o) for o in one]
    obs2 = [table.add(o) for o in two]
    obs3 = [table.add(o) for o in three]
    osuf = table.add(suf)
    for s in strs:
        for o in obs1:
            progs.append([ap[tuple(s)], o])
    for s1 in strs:
        for s2 in strs:
            for o in obs2:
                progs.append([ap[tuple(s1)], aq[tuple(s2)], o])
    short = [s for s in strs if len(s) <= (2 if quick else 3) and 92 not in s]
    for s1 in short:
        for s2 in short:
            for s3 in short:
                for o in obs3:
                    progs.append([ap[tuple(s1)], aq[tuple(s2)], ar[tuple(s3)], o])
    suffixes = [[], [46], [46, 120], [46, 97, 46, 98], [120], [46, 47]]
    for sfx in suffixes:
        if tuple(sfx) not in aq:
            aq[tuple(sfx)] = table.add(g.Assign('q', g.StrCs(sfx)))
    for s in strs:
        for sfx in suffixes:
            progs.append([ap[tuple(s)], aq[tuple(sfx)], osuf])
    return table.items, progs


def main(chk: Check) -> None:
    quick = chk.tier == 'quick'
    nrand = 2500 if quick else 80000
    ncli = 20 if quick else 240
    chk.rule = ('A: every program "prefix + up to N statements" over the four statement alphabets exported by LangObj_MC '
                '(disabler 33, feature 19 x 3 auto_features values, configuration_data 24, environment 18 statements) and every '
                'observer of the path helpers over the string sets exported by LangObjPaths_MC (singles, pairs, short triples), '
                'rendered to meson.build text and run in-process; B: seeded random programs of 8-30 statements; plus a CLI '
                'sample. Non-trivial = the run printed at least one message or failed (distinct programs).')
    only = set(filter(None, os.environ.get('X04_ONLY', '').split(',')))     # debugging aid: run some parts only
    chk.max_reported = int(os.environ.get('X04_MAX_REPORTED', chk.max_reported))
    with ProcessPoolExecutor(max_workers=common.NCPU, initializer=_pool_init) as ex, ThreadPoolExecutor(max_workers=4) as tlc_pool:
        # all worker processes are forked here, while this process is still single-threaded (a fork with other threads
        # running can leave a child with a lock that nobody will release)
        list(ex.map(_warm, range(common.NCPU * 2)))
        exports, mc_runs, bounds = start_model_checking(tlc_pool, quick)
        chk.extra['bounds'] = bounds
        impl_n = bounds['statements']
        jd = Judge(chk, tlc_pool)
        spaces = {name: json.loads(fut.result().collected['space.json']) for name, fut in exports.items()}
        cli_pool: T.List[T.Tuple[T.List[Node], T.List[T.Dict[str, T.Any]]]] = []
        # (A) statement alphabets
        for area in ('dis', 'feat', 'cfg', 'env'):
            if only and area not in only:
                continue
            sp = spaces[area]
            table = list(sp['prefix']) + list(sp['alphabet'])
            npre = len(sp['prefix'])
            k = len(sp['alphabet'])
            cases: T.List[T.Dict[str, T.Any]] = []
            jobs = []
            nsampled = 0
            for af in sp['afs']:
                for n in range(0, impl_n[area] + 1):
                    total = k ** n
                    cap = bounds['sample_above'].get(area)
                    if cap is not None and total > cap:
                        # the longest programs of this alphabet: a seeded sample instead of all of them
                        rnd = random.Random(chk.seed * 977 + n * 31 + af)
                        codes = sorted(rnd.sample(range(total), cap))
                        nsampled += cap
                        jobs += [('A:' + area, table, npre, n, codes[lo:lo + 2000], 0, af) for lo in range(0, cap, 2000)]
                        continue
                    step = max(1, min(4000, total // (common.NCPU * 2) + 1))
                    jobs += [('A:' + area, table, npre, n, lo, min(total, lo + step), af) for lo in range(0, total, step)]
            for part in ex.map(_worker_enum, jobs):
                cases.extend(part)
                if len(cases) >= 200000:
                    account(chk, table, cases)
                    jd.submit(table, cases, 'A:' + area)
                    cases = []
            account(chk, table, cases)
            jd.submit(table, cases, 'A:' + area)
            rnd = random.Random(chk.seed * 31 + len(area))
            cli_pool.append((table, rnd.sample(cases, min(len(cases), max(2, ncli // 8)))))
            chk.extra.setdefault('space_sizes', {})[area] = {'model': sum((k ** n) for n in range(0, impl_n[area] + 1)) * len(sp['afs']),
                                                             'sampled_at_longest_length': nsampled}
        # (A) path helpers
        strings = sorted({tuple(x) for name, sp in spaces.items() if name.startswith('paths') for x in sp['strings']})
        ptable, pprogs = path_space([list(x) for x in strings], quick)
        if only and 'path' not in only:
            pprogs = []
        step = max(1, len(pprogs) // (common.NCPU * 3) + 1)
        pcases: T.List[T.Dict[str, T.Any]] = []
        for part in ex.map(_worker_tuples, [('A:path', ptable, pprogs[lo:lo + step]) for lo in range(0, len(pprogs), step)]):
            pcases.extend(part)
        account(chk, ptable, pcases)
        jd.submit(ptable, pcases, 'A:path')
        chk.extra.setdefault('space_sizes', {})['path'] = len(pcases)
        chk.extra['path_strings'] = len(strings)
        rnd = random.Random(chk.seed * 31 + 7)
        cli_pool.append((ptable, rnd.sample(pcases, min(len(pcases), max(2, ncli // 8)))))
        # (B) random programs
        if only and 'B' not in only:
            nrand = 0
        step = max(1, nrand // (common.NCPU * 2))
        btable, bcases = merge(ex.map(_worker_gen, [(lo, min(nrand, lo + step), chk.seed) for lo in range(0, nrand, step)]))
        account(chk, btable, bcases)
        jd.submit(btable, bcases, 'B:gen')
        chk.extra['generated_ok_fraction'] = round(sum(1 for c in bcases if c['st'] == 'ok') / max(1, len(bcases)), 3)
        chk.extra['generated_mean_messages'] = round(sum(len(c['out']) for c in bcases) / max(1, len(bcases)), 2)
        cli_pool.append((btable, bcases[:max(4, ncli // 2)]))
        cli_sample(jd, cli_pool)
        # the model-checking runs that went on meanwhile
        for name, fut in mc_runs.items():
            if fut is None:
                continue
            res = fut.result()
            chk.add_tlc(name, res)
            if 'space.json' in res.collected:
                key = name.split('[')[1].split(',')[0] if name.startswith('LangObj_MC') else None
                full = json.loads(res.collected['space.json'])
                if key is not None and full != spaces[key]:
                    raise MachineryError(f'{name}: the model-checked space is not the exported space')
                if key is None and not all(tuple(x) in set(strings) for x in full['strings']):
                    raise MachineryError(f'{name}: the model-checked string set is not the exported one')
        jd.finish()
    chk.exhaustive = True
    chk.assumptions += [
        'outcomes are compared as success-vs-failure, by the texts message() prints (scalars only) and by whether the '
        'error_message given to require/enable_if/disable_if is part of the failure text; never by other message texts',
        'disabler: where documentation and test 158 are silent the reference answers "unspecified" and the input is not generated: '
        'a disabler inside a dict passed as argument, is_disabler() of an array, set_variable/unset_variable with a disabler as name, '
        'found() with arguments, `+=` with a disabler on either side (Disabler.md says absorbed, test 229 wants an array to keep growing), '
        'comparison of arrays that contain a disabler',
        'mutable objects: assignment copies (test 41, Configuration.md); what happens to a configuration_data/environment object that is '
        'reached through an array, a foreach variable, set_variable or get_variable is not documented - such programs are not generated',
        'configuration_data: set10 with a number (deprecated), set_quoted with a non-string or with a value containing a quote or backslash, '
        'set with an array value and has() with a non-string are not generated',
        'environment: observed as the value a /bin/sh child sees through run_command(env : e); one outside variable (X04_OUT=BOB) is defined; '
        'initial values without "=", array arguments to set/append/prepend are not generated; the host is POSIX (default separator ":")',
        'paths: POSIX build machine; drive letters, operands starting or ending with a backslash and a backslash in a right-hand operand are '
        'unspecified (platform dependent); fs functions on empty paths, paths with a backslash, doubled or trailing "/" and stem/suffix/'
        'replace_suffix of dot files are unspecified; replace_suffix with a suffix not starting with "." is unspecified except that it must '
        'not crash; relative_to only for two absolute or two relative plain paths that differ; as_posix of adjacent backslashes is unspecified',
        'the random generator (B) does not store a lone double quote in configuration data, does not index with or iterate over a possibly '
        'disabled variable (known findings, covered exhaustively by A)',
    ]


def replay(chk: Check, data: T.Dict[str, T.Any]) -> None:
    det = data['detail']
    prog = det.get('program')
    if prog is None:
        raise MachineryError('no program recorded')
    af = det.get('af', 1)
    _worker_env()
    table = Table()
    obs = run_program(prog, af)
    obs.update({'id': 'replay', 't': [table.add(s) for s in prog], 'af': af})
    with ThreadPoolExecutor(max_workers=1) as tp:
        jd = Judge(chk, tp)
        jd.submit(table.items, [obs], 'replay')
        jd.finish()


if __name__ == '__main__':
    sys.exit(common.run_check(main, PROP, replay=replay))
