"""X05 - the generated Xcode project is a well-formed object graph that is faithful to the build definition.

1. TLC model-checks ``specs/xcode/Xcode_MC``: on a bounded family of abstract projects (provider/consumer pairs,
   chains of three or four targets) the reference generator ``XRefGraph`` satisfies every integrity clause
   (``XcodeGraph``) and every faithfulness clause (``XcodeModel``), its dependency closure equals the closure of
   the unit requirements and the one of the Ninja model (``ProjectModel!ModelGraph``), and the rule book is tight:
   dropping any reference / deleting any object / retargeting any reference to a wrong kind is rejected.
2. (A) the abstract projects of that family (exported by the TLC run) are written by ``projgen`` and configured
   by the real ``meson setup --backend=xcode`` (``tools/xcodebuild-stub`` first on PATH) - twice, at the same
   place, with different hash seeds; ``harness/pbxproj.py`` projects both ``project.pbxproj`` files to object
   graphs and ``TraceXcode`` (TLC) reports every violated clause: Lexical, UniqueIds, Root, RefsDefined, Typed,
   Mandatory, Proxy, GroupTree, TargetsListed, ConfigLists, OwnedOnce, NativeTargets, AggregateTargets, AllBuild,
   DepsCover, AcyclicDeps, Sources, Deterministic (equality of the two graphs modulo a renaming of the ids,
   which are random by design: ``gen_id`` is ``uuid4``).
3. (B) the same trace spec on seeded random larger projects (subprojects, generators, custom target chains,
   tests) and on fixed probes (odd target names, sources in sub-folders, two libraries of one name).
"""
from __future__ import annotations

import json
import os
import random
import re
import shutil
import sys
import threading
import time
import typing as T
from concurrent.futures import ProcessPoolExecutor
from pathlib import Path

from . import backend_views as bv
from . import common, pbxproj, projgen
from .common import Check, MachineryError, SPECS, run_tlc

PROP = 'X05'
STUB_DIR = common.VERIF / 'tools' / 'xcodebuild-stub'


def xenv(hashseed: str) -> T.Dict[str, str]:
    return {'PATH': f'{STUB_DIR}{os.pathsep}{os.environ.get("PATH", "")}', 'PYTHONHASHSEED': hashseed}


# ---------------------------------------------------------------------------
# model checking


def model_check(chk: Check, quick: bool) -> T.Tuple[T.List[T.Dict[str, T.Any]], T.Callable[[], None]]:
    """quick: the family with one sub-directory placement, mutations explored on the chains.
    thorough: the whole family with mutations on the chains, and (in parallel; joined by the returned function, so
    that the configuration of the family does not wait for it) the small placement with mutations on every project."""
    cfg = (SPECS / 'xcode' / 'Xcode_MC.cfg').read_text()
    small = cfg.replace('LocSet = "all"', 'LocSet = "small"')
    first = ('Xcode_MC[LocSet=small,Mutate=chains]', small) if quick else ('Xcode_MC[LocSet=all,Mutate=chains]', cfg)
    second = None if quick else ('Xcode_MC[LocSet=small,Mutate=all]',
                                 small.replace('Mutate = "chains"', 'Mutate = "all"').replace('POSTCONDITION EmitFamily\n', ''))
    out: T.Dict[str, T.Any] = {}
    errs: T.List[BaseException] = []

    def one(name: str, text: str, emit: bool) -> None:
        try:
            out[name] = run_tlc(SPECS / 'xcode', 'Xcode_MC', cfg_text=text, collect=['xfamily.json'] if emit else [],
                                timeout=3400, workers=8, allow_violation=False)
        except BaseException as e:  # re-raised in the main thread
            errs.append(e)

    th2 = threading.Thread(target=one, args=(second[0], second[1], False)) if second else None
    if th2:
        th2.start()
    one(first[0], first[1], True)
    if errs:
        raise errs[0]
    chk.add_tlc(first[0], out[first[0]])

    def join() -> None:
        if th2 and second:
            th2.join()
            if errs:
                raise errs[0]
            chk.add_tlc(second[0], out[second[0]])

    return T.cast(T.List[T.Dict[str, T.Any]], json.loads(out[first[0]].collected['xfamily.json'])), join


# ---------------------------------------------------------------------------
# one case = one project configured (twice) by the real backend


def _norm_error(text: str, d: str) -> str:
    text = text.replace(d, '<dir>')
    lines = [ln.strip() for ln in text.splitlines() if ln.strip()]
    where = ''
    for ln in lines:
        m = re.match(r'^File ".*?([\w.]+)\.py", line \d+, in (\w+)', ln)
        if m:
            where = f' in {m.group(1)}.{m.group(2)}'
    for ln in reversed(lines):
        if re.match(r'^(\w+\.)*\w*(Error|Exception)\b', ln):
            return re.sub(r'\s+', ' ', ln)[:300] + where
        if 'ERROR:' in ln:
            return re.sub(r'\s+', ' ', ln)[:300]
    return re.sub(r'\s+', ' ', lines[-1] if lines else '')[:300]


def _compact_second(G: T.Dict[str, T.Any]) -> T.Dict[str, T.Any]:
    return {'root': G['root'], 'errors': G['errors'],
            'objs': [{'id': o['id'], 'isa': o['isa'], 'refs': o['refs'], 'dig': o['dig']} for o in G['objs']]}


EMPTY_G: T.Dict[str, T.Any] = {'root': '', 'errors': [], 'objs': []}
FAITH_CLAUSES = ('NativeTargets', 'AggregateTargets', 'AllBuild', 'DepsCover', 'AcyclicDeps', 'Sources')


def run_case(job: T.Dict[str, T.Any]) -> T.Dict[str, T.Any]:
    """Executed in a worker process."""
    p = job['p']
    case: T.Dict[str, T.Any] = {'id': job['id'], 'p': bv.tlc_project(p), 'configured': False, 'error': '', 'G': dict(EMPTY_G),
                                'second': False, 'H': dict(EMPTY_G), 'ren': [],
                                'info': {'p_full': p, 'tag': job.get('tag', ''), 'files': job.get('files', {})}}
    with common.scratch('x05-') as d:
        src, build = d / 'src', d / 'b'
        projgen.write_project(p, src)
        for rel, text in job.get('files', {}).items():
            fp = src / rel
            fp.parent.mkdir(parents=True, exist_ok=True)
            fp.write_text(text)
        graphs = []
        t0 = time.time()
        for run, hs in enumerate(('1', '7') if job.get('second', True) else ('1',)):
            if run:
                shutil.rmtree(build)
            r = projgen.setup(src, build, p, backend='xcode', env=xenv(hs), timeout=job.get('timeout', 600))
            if not r.ok:
                case['error'] = _norm_error(r.stdout + '\n' + r.stderr, str(d))
                case['info']['run'] = run
                return case
            pb = build / f"{p['name']}.xcodeproj" / 'project.pbxproj'
            if not pb.is_file():
                raise MachineryError(f'{pb} was not written')
            text = pb.read_text(encoding='utf-8')
            graphs.append(pbxproj.project(text, str(src), str(build)))
            if run == 0 and job.get('keep_text'):
                case['info']['text'] = text
        case['info']['wall'] = round(time.time() - t0, 2)
        case['configured'] = True
        G = graphs[0]
        case['info']['error_lines'] = G.pop('error_lines', [])
        case['G'] = G
        case['info']['objects'] = len(G['objs'])
        if len(graphs) > 1:
            H = graphs[1]
            H.pop('error_lines', None)
            case['second'] = True
            case['ren'] = pbxproj.match_graphs(G, H)
            case['H'] = _compact_second(H)
    return case


def judge(chk: Check, cases: T.List[T.Dict[str, T.Any]], label: str, chunk: int = 60) -> T.List[T.Dict[str, T.Any]]:
    """TraceXcode over the cases (several TLC processes side by side: JSON loading is single-threaded)."""
    parts = list(common.chunks(cases, chunk))
    out: T.List[T.Optional[T.List[T.Dict[str, T.Any]]]] = [None] * len(parts)
    results: T.List[T.Any] = [None] * len(parts)
    errs: T.List[BaseException] = []
    sem = threading.Semaphore(4)

    def one(k: int, part: T.Sequence[T.Dict[str, T.Any]]) -> None:
        with sem:
            try:
                with common.scratch('x05j-') as d:
                    tf = d / 'cases.json'
                    tf.write_text(json.dumps([{k2: v for k2, v in c.items() if k2 != 'info'} for c in part]))
                    res = run_tlc(SPECS / 'xcode', 'TraceXcode', env={'TRACE_FILE': str(tf)}, timeout=3000, workers=4)
                    if not res.clean:
                        raise MachineryError('TraceXcode did not complete cleanly:\n' + res.stdout[-2500:])
                    if res.distinct != 2 * len(part):
                        raise MachineryError(f'TraceXcode judged {res.distinct // 2} of {len(part)} cases')
                    results[k] = res
                    out[k] = res.json_lines()
            except BaseException as e:  # re-raised in the main thread
                errs.append(e)

    th = [threading.Thread(target=one, args=(k, part)) for k, part in enumerate(parts)]
    for t in th:
        t.start()
    for t in th:
        t.join()
    if errs:
        raise errs[0]
    bad: T.List[T.Dict[str, T.Any]] = []
    for k, res in enumerate(results):
        chk.add_tlc(f'TraceXcode[{label}#{k}]', res, model=False)
        bad.extend(out[k] or [])
    return bad


# ---------------------------------------------------------------------------
# (A') scalar level: the strings of PlistLex_MC through meson's property-list writer


def plist_model(chk: Check, quick: bool) -> T.List[T.List[str]]:
    cfg = (SPECS / 'xcode' / 'PlistLex_MC.cfg').read_text()
    res = run_tlc(SPECS / 'xcode', 'PlistLex_MC', cfg_text=cfg, collect=['strings.json'], timeout=1200, workers=4,
                  allow_violation=False)
    chk.add_tlc('PlistLex_MC[N=3]', res)
    if not quick:
        res4 = run_tlc(SPECS / 'xcode', 'PlistLex_MC', cfg_text=cfg.replace('N = 3', 'N = 4').replace('POSTCONDITION Emit\n', ''),
                       timeout=3000, workers=4, allow_violation=False)
        chk.add_tlc('PlistLex_MC[N=4]', res4)
    return T.cast(T.List[T.List[str]], json.loads(res.collected['strings.json']))


def writer_cases(strings: T.List[T.List[str]]) -> T.List[T.Dict[str, T.Any]]:
    """Executed in a worker process: every string as a dictionary value and as an array item of the real writer."""
    import io
    common.use_repo_meson()
    from mesonbuild.backend import xcodebackend as xb
    out: T.List[T.Dict[str, T.Any]] = []
    for k, chars in enumerate(strings):
        s = ''.join(chars)
        d = xb.PbxDict()
        d.add_item('k', s)
        buf = io.StringIO()
        d.write(buf, 0)
        text = buf.getvalue()
        pre, post = '{\n\tk = ', ';\n}\n'
        if not (text.startswith(pre) and text.endswith(post)):
            raise MachineryError('unexpected PbxDict layout: ' + repr(text))
        out.append({'id': f'D{k}', 'place': 'dict', 's': list(chars), 't': list(text[len(pre):-len(post)])})
        a = xb.PbxArray()
        a.add_item(s)
        buf = io.StringIO()
        a.write(buf, 0)
        text = buf.getvalue()
        pre, post = '(\n\t', ',\n);\n'
        if not (text.startswith(pre) and text.endswith(post)):
            raise MachineryError('unexpected PbxArray layout: ' + repr(text))
        out.append({'id': f'R{k}', 'place': 'array', 's': list(chars), 't': list(text[len(pre):-len(post)])})
    return out


def judge_writer(chk: Check, cases: T.List[T.Dict[str, T.Any]]) -> T.List[T.Dict[str, T.Any]]:
    bad: T.List[T.Dict[str, T.Any]] = []
    for k, part in enumerate(common.chunks(cases, 13000)):
        with common.scratch('x05w-') as d:
            tf = d / 'cases.json'
            tf.write_text(json.dumps(list(part)))
            res = run_tlc(SPECS / 'xcode', 'TracePlistLex', env={'TRACE_FILE': str(tf)}, timeout=3000, workers=4)
            if not res.clean:
                raise MachineryError('TracePlistLex did not complete cleanly:\n' + res.stdout[-2500:])
            if res.distinct != 2 * len(part):
                raise MachineryError(f'TracePlistLex judged {res.distinct // 2} of {len(part)} cases')
            chk.add_tlc(f'TracePlistLex[#{k}]', res, model=False)
            bad.extend(res.json_lines())
    return bad


def report_writer(chk: Check, bad: T.List[T.Dict[str, T.Any]]) -> None:
    """One signature per (place, written with/without quotation marks): the set of single characters that do not
    read back; a longer failing string that contains none of them gets a signature of its own."""
    def show(s: T.List[str]) -> str:
        return json.dumps(''.join(s), ensure_ascii=True)[1:-1]
    groups: T.Dict[T.Tuple[str, bool], T.List[T.List[str]]] = {}
    for v in bad:
        groups.setdefault((v['place'], bool(v['wrote_quotes'])), []).append(list(v['s']))
    single_by_place: T.Dict[str, T.Set[str]] = {}
    for (place, _), ss in groups.items():
        single_by_place.setdefault(place, set()).update(s[0] for s in ss if len(s) == 1)
    for (place, quoted), ss in sorted(groups.items()):
        singles = sorted({s[0] for s in ss if len(s) == 1})
        how = 'quoted-unescaped' if quoted else 'bare'
        examples = [show(s) for s in ss[:6]]
        if singles:
            chk.violation(f"ScalarReadsBack:{place}:{how}[{show(singles)}]", {'place': place, 'examples': examples, 'count': len(ss)})
        if any(len(s) == 0 for s in ss):
            chk.violation(f'ScalarReadsBack:{place}:{how}:empty-string', {'place': place})
        for s in ss:
            if len(s) > 1 and not (set(s) & single_by_place.get(place, set())):
                chk.violation(f'ScalarReadsBack:{place}:{how}:{show(s)}', {'place': place, 's': show(s)})


# ---------------------------------------------------------------------------
# signatures (normalisation only - the verdict is TLC's)


def _unit_kind(p: T.Dict[str, T.Any], label: str) -> T.Tuple[str, T.Optional[int]]:
    """label = <half>:<name>#<index of the target in p>"""
    m = re.match(r'^(\w+):.*#(\d+)$', label, re.S)
    if not m:
        return label.partition(':')[0], None
    return m.group(1), int(m.group(2))


def _relation(p: T.Dict[str, T.Any], ui: T.Optional[int], vi: T.Optional[int]) -> str:
    if ui is None or vi is None:
        return '?'
    t = p['targets'][ui - 1]
    rels = [k for k in ('link', 'gen', 'genidx', 'deps') if vi in t.get(k, [])]
    return '+'.join(rels) or '?'


def _loc_class(loc: str) -> str:
    root = loc.split('/', 1)[0]
    ext = os.path.splitext(loc)[1]
    return f'{root}/*{ext}'


def normalise(clause: str, detail: str, p: T.Dict[str, T.Any]) -> str:
    ts = p['targets']
    if clause == 'GroupTree' and detail.startswith('orphan-group:'):
        name = detail.split(':', 1)[1]
        for t in ts:
            if t['kind'] == 'custom' and name in (t['name'], f"{t['sp']} • {t['name']}"):
                return 'orphan-group:<custom target>'
        return detail
    if clause in ('NativeTargets', 'AggregateTargets'):
        m = re.match(r'^(missing|ambiguous):(\w+):', detail)
        if m:
            return f'{m.group(1)}:{m.group(2)}'
        m = re.match(r'^product:(\w+):.*?:(@\w+)/', detail)
        if m:
            return f'product:{m.group(1)}:{m.group(2)}'
        if detail.startswith('no-script-phase:') and detail.split(':', 1)[1] not in ('RUN_TESTS', 'REGENERATE'):
            return 'no-script-phase:run'
        if detail.startswith('unexpected:'):
            return 'unexpected:<target>'
        return detail
    if clause == 'AllBuild':
        m = re.match(r'^missing:(\w+):', detail)
        if m:
            return f'missing:{m.group(1)}'
        if detail.startswith('extra:'):
            return 'extra:<target>'
        return detail
    if clause == 'DepsCover':
        a, _, b = detail.partition('->')
        vh, vi = _unit_kind(p, b)
        if a == 'RUN_TESTS':
            if b == 'ALL_BUILD':
                return detail
            dflt = '?'
            if vi is not None:
                t = ts[vi - 1]
                built = (t['bbd'] != 'false') if t['kind'] in projgen.BUILD_KINDS else \
                    (t['bbd'] == 'true' or (t['bbd'] == 'unset' and t['install']))
                dflt = 'default' if built else 'not-default'
            return f'RUN_TESTS->{vh}[{dflt}]' if dflt != 'not-default' else 'RUN_TESTS->*[not-default]'
        uh, ui = _unit_kind(p, a)
        if uh == 'custom':
            return f'custom->*[{_relation(p, ui, vi).split("+")[0]}]'
        return f'{uh}->{vh}[{_relation(p, ui, vi)}]'
    if clause == 'Sources':
        kind, _, rest = detail.partition(':')
        if kind in ('missing', 'twice', 'unexpected'):
            return f'{kind}:{_loc_class(rest)}'
        if kind == 'generator-output':
            return 'generator-output:' + rest.rsplit(':', 1)[-1]
        if kind == 'sources-phases':
            return 'sources-phases:' + rest.split(':', 1)[0]
        return detail
    if clause == 'AcyclicDeps':
        return 'cycle'
    return detail


def signatures(case: T.Dict[str, T.Any], v: T.Dict[str, T.Any]) -> T.List[T.Tuple[str, T.Dict[str, T.Any]]]:
    out = []
    tag = case['info'].get('tag', '')
    for b in v['bad']:
        seen = set()
        for det in b['detail']:
            n = normalise(b['clause'], det, case['p'])
            if n in seen:
                continue
            seen.add(n)
            # a probe whose file needed reader recovery: its faithfulness verdicts are namespaced by the probe's tag
            tagged = tag and (b['clause'] == 'BackendAccepts' or (case['G']['errors'] and b['clause'] in FAITH_CLAUSES))
            sig = f"{b['clause']}:{n}" + (f'@{tag}' if tagged else '')
            out.append((sig, {'clause': b['clause'], 'detail': [d for d in b['detail'] if normalise(b['clause'], d, case['p']) == n][:6]}))
    return out


def short_project(p: T.Dict[str, T.Any]) -> str:
    def refs(t: T.Dict[str, T.Any]) -> str:
        r = ''.join(f" {k}={t[k]}" for k in ('link', 'gen', 'genidx', 'deps', 'genlist') if t.get(k))
        return r + (f" bbd={t['bbd']}" if t['bbd'] != 'unset' else '') + (' install' if t['install'] else '')
    ts = '; '.join(f"{i}:{t['kind']} {t['name']}@{projgen.location(t) or '.'}" + (('>' + ','.join(t['outs'])) if t['outs'] else '') + refs(t)
                   for i, t in enumerate(p['targets'], 1))
    xs = '; '.join(f"{'bench' if x['bench'] else 'test'}(exe={x['exe']} depends={x['depends']} args={x['args']})" for x in p['tests'])
    return f"deflib={p['deflib']} [{ts}]" + (f' tests[{xs}]' if xs else '')


# ---------------------------------------------------------------------------
# probes


def odd_names_project() -> T.Dict[str, T.Any]:
    """Every odd-but-legal target name once (as target and as custom target output)."""
    ts: T.List[T.Dict[str, T.Any]] = []
    kinds = ['exe', 'static', 'custom', 'shared']
    for i, name in enumerate(projgen.ODD_NAMES, 1):
        kind = kinds[i % len(kinds)]
        t: T.Dict[str, T.Any] = {'kind': kind, 'name': name}
        if kind in projgen.BUILD_KINDS:
            t['srcs'] = [f't{i}.c']
        if kind == 'custom':
            t['outs'] = [name + '.out']
            t['bbd'] = 'true'
        ts.append(t)
    return projgen.normalize({'name': 'odd', 'layout': 'mirror', 'deflib': 'shared', 'targets': ts})


def probes() -> T.List[T.Dict[str, T.Any]]:
    out: T.List[T.Dict[str, T.Any]] = [{'id': 'P:odd-names', 'p': odd_names_project(), 'tag': 'odd-names'}]
    # a directory with a blank in its name (paths in unquoted array items)
    out.append({'id': 'P:blank-dir', 'tag': 'blank-dir', 'p': projgen.normalize({
        'name': 'blank', 'targets': [{'kind': 'custom', 'name': 'c1', 'subdir': 'o dd', 'outs': ['out.txt'], 'bbd': 'true'},
                                     {'kind': 'exe', 'name': 'bar', 'subdir': 'o dd', 'srcs': ['t2.c']}]})})
    # an executable linking two libraries that have the same name (different directories, mirror layout)
    out.append({'id': 'P:same-name-libs', 'tag': 'same-name-libs', 'p': projgen.normalize({
        'name': 'twins', 'targets': [{'kind': 'static', 'name': 'foo', 'subdir': 'sub', 'srcs': ['t1.c']},
                                     {'kind': 'static', 'name': 'foo', 'subdir': 'x', 'srcs': ['t2.c']},
                                     {'kind': 'exe', 'name': 'bar', 'srcs': ['t3.c'], 'link': [1, 2]}]})})
    # sources given with a folder component (the backend builds folder groups for them)
    out.append({'id': 'P:folder-sources', 'tag': 'folder-sources', 'p': projgen.normalize({
        'name': 'folders', 'targets': [{'kind': 'exe', 'name': 'bar', 'srcs': ['t1.c', 'dir/a.c', 'dir/deep/b.c']},
                                       {'kind': 'static', 'name': 'foo', 'srcs': ['t2.c', 'dir/c.c']}]})})
    return out


# ---------------------------------------------------------------------------


def pick_family(fam: T.List[T.Dict[str, T.Any]], rnd: random.Random, n: int) -> T.List[T.Dict[str, T.Any]]:
    if n >= len(fam):
        return list(fam)
    chains = [p for p in fam if len(p['targets']) != 2]
    pairs = [p for p in fam if len(p['targets']) == 2]
    with_tests = [p for p in pairs if p['tests']]
    picks = rnd.sample(chains, min(len(chains), n // 3)) + rnd.sample(with_tests, min(len(with_tests), n // 3))
    chosen = {id(p) for p in picks}
    rest = [p for p in pairs if id(p) not in chosen]
    picks += rnd.sample(rest, max(0, n - len(picks)))
    return picks


def main(chk: Check) -> None:
    quick = chk.tier == 'quick'
    rnd = random.Random(chk.seed * 1000003 + 505)
    n_family = 36 if quick else 700
    n_random = 20 if quick else 160
    chk.max_reported = 200
    chk.rule = ('A: abstract projects of the TLC family (seeded sample: a third chains, a third pairs with a test, a third '
                "any; 36 quick / 700 thorough), A': every string of <= 3 characters of PlistLex_MC as dictionary value and as "
                'array item of the real property-list writer, B: seeded random projects of 3-14 targets and four fixed probes; '
                'every project is configured twice by the real Xcode backend. Non-trivial = a configured project whose pbxproj '
                'has >= 60 objects (distinct by abstract project), or a string that needs quotation marks.')
    t0 = time.time()
    stages: T.Dict[str, float] = {}
    bjobs: T.List[T.Dict[str, T.Any]] = []
    for k in range(n_random):
        r2 = random.Random(chk.seed * 7919 + 50000 + k)
        p = projgen.random_project(r2, n_targets=r2.randint(3, 14), installs=False, options=False, custom_inputs=True,
                                   alias_runs=True, odd_names=False, layout='mirror')
        p['unity'] = 'off'
        bjobs.append({'id': f'B{k}', 'p': p})
    bjobs += probes()
    cases: T.List[T.Dict[str, T.Any]] = []
    with ProcessPoolExecutor(max_workers=common.NCPU) as ex:
        bfut = [ex.submit(run_case, j) for j in bjobs]
        fam, join_models = model_check(chk, quick)
        strings = plist_model(chk, quick)
        stages['model_check'] = round(time.time() - t0, 1)
        wfut = [ex.submit(writer_cases, list(part)) for part in common.chunks(strings, 2000)]
        chk.extra['family_size'] = len(fam)
        jobs = []
        for k, p in enumerate(pick_family(fam, rnd, n_family)):
            projgen.normalize(p)
            jobs.append({'id': f'A{k}', 'p': p})
        for case in ex.map(run_case, jobs, chunksize=1):
            cases.append(case)
        for f in bfut:
            cases.append(f.result())
        wcases: T.List[T.Dict[str, T.Any]] = []
        for f in wfut:
            part = f.result()
            for c in part:      # ids are per chunk: make them unique
                c['id'] = f"{c['id']}.{len(wcases)}"
            wcases.extend(part)
    stages['configure'] = round(time.time() - t0 - stages['model_check'], 1)
    chk.extra['configured'] = sum(1 for c in cases if c['configured'])
    chk.extra['objects_total'] = sum(c['info'].get('objects', 0) for c in cases)
    for c in cases:
        if c['info'].get('objects', 0) >= 60:
            chk.nontriv(json.dumps(c['p'], sort_keys=True))
    chk.evaluations += 2 * len(cases)
    for c in cases[:: max(1, len(cases) // 4)][:4]:
        chk.sample({'id': c['id'], 'project': short_project(c['p']), 'configured': c['configured'], 'objects': c['info'].get('objects'),
                    'first_objects': c['G']['objs'][:2]}, limit=6)
    by_id = {c['id']: c for c in cases}
    bad = judge(chk, cases, 'projects')
    chk.traces += len(cases)
    stages['judge'] = round(time.time() - t0 - stages['model_check'] - stages['configure'], 1)
    chk.extra['stage_wall_s'] = stages
    report(chk, by_id, bad)
    wbad = judge_writer(chk, wcases)
    chk.traces += len(wcases)
    chk.evaluations += len(wcases)
    chk.extra['writer_strings'] = len(strings)
    safe = set('abcdefghijklmnopqrstuvwxyzABCDEFGHIJKLMNOPQRSTUVWXYZ0123456789_$/:.-')
    for cs in strings:
        if not cs or set(cs) - safe:
            chk.nontriv('str:' + ''.join(cs))
    chk.sample({'writer_case': wcases[len(wcases) // 3]}, limit=8)
    report_writer(chk, wbad)
    stages['writer'] = round(time.time() - t0 - sum(stages.values()), 1)
    join_models()
    stages['wait_for_second_model_run'] = round(time.time() - t0 - sum(stages.values()), 1)
    chk.exhaustive = False
    chk.assumptions += [
        'the ids of the generated file are random by design (XCodeBackend.gen_id = uuid4): determinism is judged modulo a '
        'renaming of ids (witness found by colour refinement, checked by TLC) and modulo the order of the two sections the '
        'backend sorts by id; comments are not compared',
        'lexical validity is what harness/pbxproj.py (written from the description of old-style property lists) reports; no '
        'Xcode / plutil exists in the sandbox',
        'only layout=mirror, unity=off projects are generated (the Xcode backend has neither notion); odd target names only '
        'in the fixed probe',
        'PBXTargetDependency objects are treated as shareable value objects (the backend keeps one per dependee), i.e. '
        'Target.dependencies is not an ownership edge in OwnedOnce',
        'frameworks, resources, Swift, pch, extracted objects and `objects:` are not generated',
        'xcodebuild is a stub printing "Xcode 15.0": objectVersion 60 only',
    ]


def report(chk: Check, by_id: T.Dict[str, T.Dict[str, T.Any]], bad: T.List[T.Dict[str, T.Any]]) -> None:
    for v in bad:
        c = by_id[v['id']]
        for sig, what in signatures(c, v):
            chk.violation(sig, {'verdict': what, 'id': c['id'], 'project': short_project(c['p']), 'p_full': c['info']['p_full'],
                                'tag': c['info'].get('tag', ''), 'files': c['info'].get('files', {}), 'error': c['error'],
                                'error_lines': c['info'].get('error_lines', [])})


def replay(chk: Check, data: T.Dict[str, T.Any]) -> None:
    det = data['detail']
    if data['signature'].startswith('ScalarReadsBack:'):
        strings = plist_model(chk, True)
        wbad = judge_writer(chk, writer_cases(strings))

        class _Pick:
            def violation(self, sig: str, detail: T.Any) -> None:
                if sig == data['signature']:
                    chk.violation(sig, detail)
        report_writer(T.cast(Check, _Pick()), wbad)
        return
    job = {'id': det['id'], 'p': projgen.normalize(det['p_full']), 'tag': det.get('tag', ''), 'files': det.get('files', {})}
    case = run_case(job)
    bad = judge(chk, [case], 'replay')
    want = data['signature']
    for v in bad:
        for sig, what in signatures(case, v):
            if sig == want:
                chk.violation(sig, dict(det, verdict=what))


if __name__ == '__main__':
    sys.exit(common.run_check(main, PROP, replay=replay))
