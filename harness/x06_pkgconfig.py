"""X06 - the pkg-config file generator writes what the documented derivation owes.

1. TLC model-checks specs/pkgconfig/PkgConfig_MC on bounded exhaustive scenario
   families (library graphs / dependency objects / scalar keyword arguments):
   the operational generator (PkgConfigGen) is accepted by the declarative rule
   book (PkgConfig) and the laws hold (nothing both required and linked, no
   duplicates, every publicly named library reaches the consumer, public fields
   come from public input only, nothing is lost for static consumers, unrelated
   calls commute).  The run prints every maximal scenario.
2. (A) every printed scenario (thorough: additionally a seeded sample of the
   larger bound) is rendered to a real meson project (many scenarios per
   project, disjoint names), configured with `meson setup` (ninja stub), and the
   generated meson-private/*.pc and meson-uninstalled/*.pc files - projected
   to ordered abstract fields - are judged by TLC (TracePkgConfig) with the
   clauses of the same rule book.  pkg-config itself is run on the generated
   files and what it computes must contain what the rule book says a consumer
   needs.
3. (B) seeded random larger projects (chains of shared/static libraries,
   link_whole, uninstalled static libraries, declare_dependency(), external
   dependency objects, several generate() calls, subdirectories, custom install
   directories, scalar keyword arguments), judged by the same trace spec.
"""
from __future__ import annotations

import json
import os
import random
import re
import subprocess
import sys
import typing as T
from concurrent.futures import ProcessPoolExecutor, ThreadPoolExecutor
from pathlib import Path

from . import common
from .common import Check, MachineryError, SPECS, run_tlc, scratch

PROP = 'X06'
FAM = SPECS / 'pkgconfig'
NINJA_STUB = str(common.VERIF / 'tools' / 'ninja-stub')
PKG_CONFIG = '/usr/bin/pkg-config'

INVARIANTS = ['GenAccepted', 'NoLibInRequiresAndLibs', 'NoDuplicateEntries', 'MentionedProvided',
              'PublicFromPublicInput', 'NothingLost', 'OrderIndependent', 'TypeOK', 'Export']

# signatures of the two defect classes that do not depend on the scenario
SIG_SHARED_DEP = 'DependentsFirst:shared-dependency'
SIG_NO_WARNING = 'DeprecationWarned:none'
SIG_SIBLING = ('RequiresSet:whole-linked-sibling', 'RequiresPrivateSet:whole-linked-sibling')


# ---------------------------------------------------------------------------
# the fixed environment of every project (mirrors PkgConfig_MC!Exts / Opts, which the model run exports)

EXT_PC = {
    'x06ext1': 'Name: x06ext1\nDescription: external one\nVersion: 1.5\nLibs: -lx06ext1\nCflags: -DX06EXT1\n',
    'x06ext2': 'Name: x06ext2\nDescription: external two\nVersion: 1.5\nLibs: -lx06ext2\nCflags: -DX06EXT2\n',
    'x06ext3': 'Name: x06ext3\nDescription: external three\nVersion: 0.3\nLibs: -lx06ext3\n',
}


def ext_decl(k: int, e: T.Dict[str, T.Any]) -> str:
    var = f'x06e{k}'
    if e['k'] == 'pc':
        v = f", version: '{e['ver']}'" if e['ver'] else ''
        return f"{var} = dependency('{e['nm']}'{v}, method: 'pkg-config')"
    if e['k'] == 'nf':
        return f"{var} = dependency('{e['nm']}', required: false, method: 'pkg-config')"
    if e['k'] == 'thr':
        return f"{var} = dependency('threads')"
    return f"{var} = meson.get_compiler('c').find_library('{e['nm']}')"


# ---------------------------------------------------------------------------
# rendering of abstract scenarios

def q(s: str) -> str:
    return "'" + s.replace('\\', '\\\\').replace("'", "\\'") + "'"


def qlist(xs: T.Sequence[str]) -> str:
    return '[' + ', '.join(xs) + ']'


class Renderer:
    def __init__(self, case: T.Dict[str, T.Any], rnd: random.Random):
        self.case = case
        self.rnd = rnd
        self.pfx = case['pfx']

    def var(self, i: int) -> str:
        return f'{self.pfx}o{i}'

    def ref(self, r: T.Dict[str, T.Any], req: bool = False) -> str:
        if r['t'] in ('lib', 'idep'):
            return self.var(r['n'])
        if r['t'] == 'ext':
            return f"x06e{r['n']}"
        if req and r['v']:
            m = re.match(r'(>=|<=|!=|==|=|>|<)(.*)', r['v'])
            assert m
            # the version is always spelled `<op><version>` (as dependency(version:) spells it): the same requirement spelled
            # with different blanks inside one call is kept twice by the generator, which no document covers
            form = self.rnd.choice(['{n} {o}{v}', '{n}{o}{v}', ' {n}  {o}{v} '])
            return q(form.format(n=r['s'], o=m.group(1), v=m.group(2)))
        return q(r['s'])

    def obj(self, i: int, o: T.Dict[str, T.Any]) -> str:
        kw = []
        if o['lw']:
            kw.append('link_with: ' + qlist([self.var(j) for j in o['lw']]))
        if o['lwh']:
            kw.append('link_whole: ' + qlist([self.var(j) for j in o['lwh']]))
        if o['deps']:
            kw.append('dependencies: ' + qlist([self.ref(r) for r in o['deps']]))
        if o['t'] == 'idep':
            if o['ca']:
                kw.append('compile_args: ' + qlist([q(a) for a in o['ca']]))
            if o['la']:
                kw.append('link_args: ' + qlist([q(a) for a in o['la']]))
            return f"{self.var(i)} = declare_dependency({', '.join(kw)})"
        fn = {'shared': 'shared_library', 'lib': 'library', 'static': 'static_library', 'ustatic': 'static_library'}[o['k']]
        if o['k'] == 'ustatic':
            if self.rnd.random() < 0.5:
                kw.append('install: false')
        else:
            kw.append('install: true')
            if o['idir']:
                kw.append('install_dir: ' + q(o['idir']))
        return f"{self.var(i)} = {fn}({q(o['nm'])}, x06src, {', '.join(kw)})"

    def call(self, c: T.Dict[str, T.Any]) -> str:
        a = []
        if c['main']:
            a.append(self.var(c['main']))
        for key, kw, req in (('libs', 'libraries', False), ('libsp', 'libraries_private', False),
                             ('reqs', 'requires', True), ('reqsp', 'requires_private', True)):
            if c[key]:
                items = [self.ref(r, req) for r in c[key]]
                if len(items) == 1 and self.rnd.random() < 0.3:
                    a.append(f'{kw}: {items[0]}')
                else:
                    a.append(f'{kw}: {qlist(items)}')
        if c['subdirs'] != ['.'] or self.rnd.random() < 0.3:
            a.append('subdirs: ' + qlist([q(s) for s in c['subdirs']]))
        if c['xcf']:
            a.append('extra_cflags: ' + qlist([q(s) for s in c['xcf']]))
        if c['vars']:
            a.append('variables: ' + qlist([q(f"{v['k']}={v['v']}") for v in c['vars']]))
        for key, kw in (('name', 'name'), ('fb', 'filebase'), ('ver', 'version'), ('desc', 'description'),
                        ('idir', 'install_dir')):
            if c[key]:
                a.append(f'{kw}: {q(c[key])}')
        return f"x06pkg.generate({', '.join(a)})"

    def render(self) -> T.Tuple[T.List[str], T.Dict[str, T.List[str]]]:
        """-> (lines of the root build file, {subdir: lines})."""
        root: T.List[str] = []
        subs: T.Dict[str, T.List[str]] = {}
        for i, o in enumerate(self.case['objs'], 1):
            line = self.obj(i, o)
            if o['sub']:
                if o['sub'] not in subs:
                    subs[o['sub']] = []
                    root.append(f"subdir({q(o['sub'])})")
                    subs[o['sub']].append(line)
                else:
                    # a later object of the same directory: a second subdir() of one directory is an error,
                    # the harness gives every object its own directory instead
                    raise MachineryError('two objects in one subdirectory')
            else:
                root.append(line)
        order = list(range(len(self.case['calls'])))
        if self.case.get('perm'):
            order.reverse()
        for k in order:
            root.append(self.call(self.case['calls'][k]))
        return root, subs


# ---------------------------------------------------------------------------
# projection of generated files

def words(text: str) -> T.List[str]:
    """pkg-config word splitting: blanks separate, `\\ ` keeps a blank inside a word."""
    out: T.List[str] = []
    cur: T.List[str] = []
    have = False
    j = 0
    while j < len(text):
        ch = text[j]
        if ch == '\\' and j + 1 < len(text) and text[j + 1] == ' ':
            cur.append(' ')
            have = True
            j += 2
            continue
        if ch in ' \t':
            if have:
                out.append(''.join(cur))
                cur, have = [], False
        else:
            cur.append(ch)
            have = True
        j += 1
    if have:
        out.append(''.join(cur))
    return out


# pc(5): blanks around the comparison operator are required, their number is insignificant
REQ_RE = re.compile(r'^([^\s<>=!]+)(?:\s+(>=|<=|!=|==|=|>|<)\s+([^\s<>=!]+))?$')


def proj_reqs(text: str) -> T.List[T.Dict[str, str]]:
    out = []
    for part in text.split(','):
        part = part.strip()
        if not part:
            continue
        m = REQ_RE.match(part)
        if m:
            out.append({'n': m.group(1), 'v': (m.group(2) + m.group(3)) if m.group(2) else ''})
        else:
            out.append({'n': part, 'v': 'malformed'})
    return out


def proj_libs(text: str, libidx: T.Dict[str, int]) -> T.List[T.Dict[str, T.Any]]:
    out = []
    for w in words(text):
        if w.startswith('-L'):
            out.append({'t': 'L', 'n': 0, 's': w[2:]})
        elif w.startswith('-l') and w[2:] in libidx:
            out.append({'t': 'lib', 'n': libidx[w[2:]], 's': ''})
        else:
            out.append({'t': 'str', 'n': 0, 's': w})
    return out


def parse_pc(path: Path, libidx: T.Dict[str, int]) -> T.Optional[T.Dict[str, T.Any]]:
    if not path.exists():
        return None
    fields: T.Dict[str, str] = {}
    variables: T.List[T.Dict[str, T.Any]] = []
    for line in path.read_text(encoding='utf-8').splitlines():
        if not line.strip():
            continue
        m = re.match(r'^([A-Za-z_][A-Za-z0-9_.]*)\s*(=|:)\s*(.*)$', line)
        if not m:
            fields.setdefault('?', '')
            fields['?'] += line
            continue
        if m.group(2) == '=':
            variables.append({'k': m.group(1), 'w': words(m.group(3))})
        else:
            if m.group(1) in fields:
                fields['?'] = fields.get('?', '') + 'dup:' + m.group(1)
            fields[m.group(1)] = m.group(3)
    return {
        'name': fields.get('Name', ''), 'ver': fields.get('Version', ''), 'desc': fields.get('Description', ''),
        'req': proj_reqs(fields.get('Requires', '')), 'reqp': proj_reqs(fields.get('Requires.private', '')),
        'libs': proj_libs(fields.get('Libs', ''), libidx), 'libsp': proj_libs(fields.get('Libs.private', ''), libidx),
        'cfl': words(fields.get('Cflags', '')), 'vars': variables, 'junk': fields.get('?', ''),
    }


EMPTY_F = {'fb': '', 'name': '', 'ver': '', 'desc': '', 'dest': '', 'req': [], 'reqp': [], 'libs': [], 'libsp': [],
           'cfl': [], 'vars': []}
EMPTY_U = {'req': [], 'reqp': [], 'libs': [], 'libsp': [], 'cfl': [], 'inc': []}
NO_PC = {'ran': 0, 'ok': 0, 'libs': [], 'slibs': [], 'cfl': []}


def file_base(case: T.Dict[str, T.Any], c: T.Dict[str, T.Any]) -> str:
    """Name under which the file of a call is looked for (the rule book checks it: clause FileBase)."""
    return c['fb'] or c['name'] or case['objs'][c['main'] - 1]['nm']


def run_pkgconfig(fb: str, env: T.Dict[str, str]) -> T.Dict[str, T.Any]:
    res: T.Dict[str, T.Any] = {'ran': 1, 'ok': 1, 'libs': [], 'slibs': [], 'cfl': []}
    for key, args in (('libs', ['--libs']), ('slibs', ['--libs', '--static']), ('cfl', ['--cflags'])):
        p = subprocess.run([PKG_CONFIG] + args + [fb], env=env, stdout=subprocess.PIPE, stderr=subprocess.PIPE, text=True)
        if p.returncode != 0:
            res['ok'] = 0
            res['err'] = p.stderr[-300:]
            break
        res[key] = words(p.stdout.strip())
    return res


# ---------------------------------------------------------------------------
# one meson project holding a batch of scenarios

def write_project(d: Path, cases: T.List[T.Dict[str, T.Any]], fixed: T.Dict[str, T.Any], sd: int) -> None:
    src = d / 'src'
    src.mkdir()
    (d / 'ext').mkdir()
    for n, text in EXT_PC.items():
        (d / 'ext' / f'{n}.pc').write_text(text)
    (src / 'a.c').write_text('int x06_f(void) { return 0; }\n')
    o = fixed['o']
    lines = [f"project({q(o['proj'])}, 'c', version: {q(o['pver'])})", "x06pkg = import('pkgconfig')", "x06src = files('a.c')"]
    for k, e in enumerate(fixed['exts'], 1):
        lines.append(ext_decl(k, e))
    for case in cases:
        rnd = random.Random(f"{sd}:{case['id']}")
        root, subs = Renderer(case, rnd).render()
        lines.extend(root)
        for sub, sl in subs.items():
            (src / sub).mkdir()
            (src / sub / 'meson.build').write_text('\n'.join(sl) + '\n')
    (src / 'meson.build').write_text('\n'.join(lines) + '\n')


def setup_project(d: Path, fixed: T.Dict[str, T.Any]) -> T.Tuple[int, str]:
    o = fixed['o']
    env = dict(os.environ)
    env.update({'NINJA': NINJA_STUB, 'PKG_CONFIG_LIBDIR': str(d / 'ext'), 'PYTHONHASHSEED': '0'})
    env.pop('PKG_CONFIG_PATH', None)
    cmd = [common.PYTHON, str(common.REPO / 'meson.py'), 'setup', str(d / 'b'), str(d / 'src'),
           '--prefix=' + o['prefix'], '--libdir=' + o['libdir'], '--includedir=' + o['includedir'],
           '--datadir=' + o['dirs']['datadir'], '--bindir=' + o['dirs']['bindir']]
    p = subprocess.run(cmd, env=env, stdout=subprocess.PIPE, stderr=subprocess.STDOUT, text=True, errors='replace',
                       timeout=1800)
    return p.returncode, p.stdout


def observe(d: Path, cases: T.List[T.Dict[str, T.Any]], stdout: str, pc_frac: float, sd: int) -> None:
    b = d / 'b'
    plan: T.Dict[str, str] = {}
    try:
        ip = json.loads((b / 'meson-info' / 'intro-install_plan.json').read_text())
        for path, ent in ip.get('data', {}).items():
            plan[os.path.basename(path)] = ent.get('destination', '')
    except Exception:
        pass
    warned = set(re.findall(r'Library (\S+) was passed to the "libraries" keyword', stdout))
    pcenv = dict(os.environ)
    pcenv.update({'PKG_CONFIG_LIBDIR': f"{b / 'meson-private'}:{d / 'ext'}", 'PKG_CONFIG_ALLOW_SYSTEM_LIBS': '1',
                  'PKG_CONFIG_ALLOW_SYSTEM_CFLAGS': '1'})
    for var in ('PKG_CONFIG_PATH', 'PKG_CONFIG_SYSROOT_DIR', 'PKG_CONFIG_TOP_BUILD_DIR'):
        pcenv.pop(var, None)
    for case in cases:
        rnd = random.Random(f"pc:{sd}:{case['id']}")
        libidx = {o['nm']: i for i, o in enumerate(case['objs'], 1) if o['t'] == 'lib'}
        case['err'] = 0
        case['warned'] = sorted(libidx[n] for n in warned if n in libidx)
        out = []
        with_pc = rnd.random() < pc_frac
        for c in case['calls']:
            fb = file_base(case, c)
            f = parse_pc(b / 'meson-private' / f'{fb}.pc', libidx)
            u = parse_pc(b / 'meson-uninstalled' / f'{fb}-uninstalled.pc', libidx)
            rec: T.Dict[str, T.Any] = {}
            if f is None:
                rec['f'] = dict(EMPTY_F)
            else:
                rec['f'] = {'fb': fb, 'name': f['name'], 'ver': f['ver'], 'desc': f['desc'],
                            'dest': plan.get(f'{fb}.pc', ''), 'req': f['req'], 'reqp': f['reqp'], 'libs': f['libs'],
                            'libsp': f['libsp'], 'cfl': f['cfl'], 'vars': f['vars']}
                if f['junk']:
                    rec['f']['name'] = 'unparsable:' + f['junk'][:40]
            if u is None:
                rec['u'] = dict(EMPTY_U)
            else:
                rec['u'] = {'req': u['req'], 'reqp': u['reqp'], 'libs': u['libs'], 'libsp': u['libsp'],
                            'cfl': [w for w in u['cfl'] if not w.startswith('-I')],
                            'inc': [w[2:] for w in u['cfl'] if w.startswith('-I')]}
            rec['pc'] = run_pkgconfig(fb, pcenv) if (with_pc and f is not None) else dict(NO_PC)
            out.append(rec)
        case['out'] = out


def failed(cases: T.List[T.Dict[str, T.Any]], log: str) -> None:
    for case in cases:
        case['err'] = 1
        case['warned'] = []
        case['log'] = log[-1500:]
        case['out'] = [{'f': dict(EMPTY_F), 'u': dict(EMPTY_U), 'pc': dict(NO_PC)} for _ in case['calls']]


def run_batch(args: T.Tuple[T.List[T.Dict[str, T.Any]], T.Dict[str, T.Any], int, float]) -> T.List[T.Dict[str, T.Any]]:
    """Configure one real project that holds all scenarios of the batch; on failure split the batch."""
    cases, fixed, sd, pc_frac = args
    with scratch('x06-') as d:
        write_project(d, cases, fixed, sd)
        rc, log = setup_project(d, fixed)
        if rc == 0:
            observe(d, cases, log, pc_frac, sd)
            return cases
    if len(cases) == 1:
        failed(cases, log)
        return cases
    h = len(cases) // 2
    return run_batch((cases[:h], fixed, sd, pc_frac)) + run_batch((cases[h:], fixed, sd, pc_frac))


# ---------------------------------------------------------------------------
# scenarios

def instantiate(scn: T.Dict[str, T.Any], cid: str, rnd: random.Random) -> T.Dict[str, T.Any]:
    """A scenario printed by the model -> a case with names that are unique within the batch project."""
    pfx = 'k' + cid
    objs = []
    for o in scn['objs']:
        o = dict(o)
        if o['t'] == 'lib':
            o['nm'] = pfx + o['nm']
        if o['sub']:
            o['sub'] = pfx + o['sub']
        objs.append(o)
    calls = []
    for c in scn['calls']:
        c = dict(c)
        for key in ('name', 'fb'):
            if c[key]:
                c[key] = pfx + c[key]
        calls.append(c)
    return {'id': cid, 'pfx': pfx, 'objs': objs, 'calls': calls,
            'perm': 1 if (scn.get('ind') and rnd.random() < 0.5) else 0}


def _ref(t: str, n: int = 0, s: str = '', v: str = '') -> T.Dict[str, T.Any]:
    return {'t': t, 'n': n, 's': s, 'v': v}


def random_case(rnd: random.Random, cid: str, fixed: T.Dict[str, T.Any]) -> T.Dict[str, T.Any]:
    """(B) a larger project: chains of libraries of all kinds, internal dependencies, several calls."""
    pfx = 'r' + cid
    nobj = rnd.randint(4, 10)
    objs: T.List[T.Dict[str, T.Any]] = []
    nsub = 0
    exts = list(range(1, len(fixed['exts']) + 1))

    def libs_before(pred: T.Callable[[T.Dict[str, T.Any]], bool] = lambda o: True) -> T.List[int]:
        return [j for j, o in enumerate(objs, 1) if o['t'] == 'lib' and pred(o)]

    def pick_deps(maxn: int) -> T.List[T.Dict[str, T.Any]]:
        pool = [_ref('ext', e) for e in exts] + [_ref('idep', j) for j, o in enumerate(objs, 1) if o['t'] == 'idep']
        rnd.shuffle(pool)
        return pool[:rnd.choice([0, 0, 1, 1, 2][:maxn + 3])]

    for i in range(1, nobj + 1):
        earlier = libs_before()
        statics = libs_before(lambda o: o['k'] in ('static', 'ustatic'))
        if i > 1 and rnd.random() < 0.22:
            lw = rnd.sample(earlier, min(len(earlier), rnd.choice([0, 1, 1, 2])))
            lwh = rnd.sample(statics, 1) if statics and rnd.random() < 0.15 else []
            lwh = [j for j in lwh if j not in lw]
            objs.append({'t': 'idep', 'k': '', 'nm': '', 'lw': lw, 'lwh': lwh, 'deps': pick_deps(2),
                         'ca': rnd.choice([[], [f'-DI{i}'], [f'-DI{i}', '-DCOMMON'], ['-DCOMMON']]),
                         'la': rnd.choice([[], [f'-li{i}x'], [f'-li{i}x', '-lcommonx'], ['-lcommonx']]),
                         'sub': '', 'idir': ''})
            continue
        kind = rnd.choice(['shared', 'lib', 'lib', 'static', 'static', 'ustatic'])
        if i == nobj and kind == 'ustatic':
            kind = 'static'
        lw = rnd.sample(earlier, min(len(earlier), rnd.choice([0, 1, 1, 2, 2, 3])))
        lwh = rnd.sample(statics, 1) if statics and rnd.random() < 0.2 else []
        if rnd.random() < 0.8:
            lwh = [j for j in lwh if j not in lw]
        sub = ''
        if rnd.random() < 0.25:
            nsub += 1
            sub = f'{pfx}sd{nsub}'
        objs.append({'t': 'lib', 'k': kind, 'nm': f'{pfx}l{i}', 'lw': lw, 'lwh': lwh, 'deps': pick_deps(2),
                     'ca': [], 'la': [], 'sub': sub,
                     'idir': 'mylibs' if (kind != 'ustatic' and rnd.random() < 0.1) else ''})
    eligible = libs_before(lambda o: o['k'] != 'ustatic')
    if not eligible:
        objs.append({'t': 'lib', 'k': 'lib', 'nm': f'{pfx}l{len(objs) + 1}', 'lw': libs_before()[:2], 'lwh': [], 'deps': [],
                     'ca': [], 'la': [], 'sub': '', 'idir': ''})
        eligible = [len(objs)]
    ideps = [j for j, o in enumerate(objs, 1) if o['t'] == 'idep']
    calls: T.List[T.Dict[str, T.Any]] = []
    was_main: T.List[int] = []
    for k in range(rnd.choice([1, 2, 2, 3, 4])):
        free = [j for j in eligible if j not in was_main]
        main = rnd.choice(free) if free and rnd.random() < 0.7 else 0

        def listrefs(maxn: int) -> T.List[T.Dict[str, T.Any]]:
            pool = ([_ref('lib', j) for j in eligible] + [_ref('idep', j) for j in ideps] + [_ref('ext', e) for e in exts]
                    + [_ref('str', s='-lzz'), _ref('str', s='-lyy'), _ref('str', s='-pthread')])
            return [rnd.choice(pool) for _ in range(rnd.choice([0, 0, 1, 1, 2, 3][:maxn + 3]))]

        def reqrefs() -> T.List[T.Dict[str, T.Any]]:
            pool = ([_ref('lib', j) for j in was_main]
                    + [_ref('idep', j) for j in ideps if objs[j - 1]['lw'] and all(x in was_main for x in objs[j - 1]['lw'])]
                    + [_ref('ext', e) for e in exts if fixed['exts'][e - 1]['k'] != 'oth']
                    + [_ref('str', s='x06ext3'), _ref('str', s='x06ext1', v='<2.0'), _ref('str', s='x06ext2', v='>=1.1')])
            return [rnd.choice(pool) for _ in range(rnd.choice([0, 0, 0, 1, 1, 2]))]

        c = {'main': main, 'libs': listrefs(3), 'libsp': listrefs(2), 'reqs': reqrefs(), 'reqsp': reqrefs(),
             'subdirs': rnd.choice([['.'], ['.'], ['.'], ['inc'], ['.', 'a b'], ['deep/er']]),
             'xcf': rnd.choice([[], [], [], ['-DX'], ['-DX', '-DY', '-DX'], ['-DCOMMON', '-DZ=1 2']]),
             'vars': rnd.choice([[], [], [], [{'k': 'foo', 'v': 'bar', 'ref': ''}],
                                 [{'k': 'dd', 'v': '${datadir}/x y', 'ref': 'datadir'}, {'k': 'foo', 'v': '${dd}/z', 'ref': ''}],
                                 [{'k': 'bb', 'v': '${bindir}/tool', 'ref': 'bindir'}]]),
             'name': '', 'fb': '', 'ver': rnd.choice(['', '', '3.1']), 'desc': rnd.choice(['', 'some text']),
             'idir': rnd.choice(['', '', '', 'share/pkgconfig'])}
        if main == 0 or rnd.random() < 0.2:
            c['name'] = f'{pfx}n{k}'
        if main == 0 and not c['desc']:
            c['desc'] = 'a description'
        if rnd.random() < 0.15:
            c['fb'] = f'{pfx}fb{k}'
        if main:
            was_main.append(main)
        calls.append(c)
    return {'id': cid, 'pfx': pfx, 'objs': objs, 'calls': calls, 'perm': 0}


# ---------------------------------------------------------------------------
# judging

CASE_KEYS = ('id', 'objs', 'calls', 'out', 'warned', 'err')


def _judge_part(args: T.Tuple[T.List[T.Dict[str, T.Any]], T.Dict[str, T.Any], int]) -> T.Tuple[common.TLCResult, T.List[T.Any]]:
    part, fixed, workers = args
    with scratch('x06j-') as d:
        tf = d / 'cases.json'
        tf.write_text(json.dumps({'exts': fixed['exts'], 'o': fixed['o'],
                                  'cases': [{k: c[k] for k in CASE_KEYS} for c in part]}))
        res = run_tlc(FAM, 'TracePkgConfig', env={'TRACE_FILE': str(tf)}, timeout=3600, workers=workers, heap='4g')
    if not res.clean:
        raise MachineryError('TracePkgConfig did not complete cleanly:\n' + res.stdout[-2000:])
    if res.distinct != 2 * len(part):
        raise MachineryError(f'TracePkgConfig judged {res.distinct // 2} of {len(part)} cases')
    return res, res.json_lines()


def norm_case(case: T.Dict[str, T.Any]) -> str:
    """Scenario without the names the harness invented (stable across batches and seeds)."""
    pfx = case['pfx']

    def r(x: T.Dict[str, T.Any]) -> str:
        return {'lib': 'l', 'idep': 'i', 'ext': 'e'}.get(x['t'], '') + (str(x['n']) if x['t'] != 'str' else x['s'] + x['v'])

    objs = []
    for o in case['objs']:
        s = (o['k'] or 'idep') + '[' + ','.join(map(str, o['lw'])) + '|' + ','.join(map(str, o['lwh'])) + '|' + ','.join(r(x) for x in o['deps'])
        s += '|' + ','.join(o['ca'] + o['la']) + ('|sub' if o['sub'] else '') + ('|' + o['idir'] if o['idir'] else '') + ']'
        objs.append(s)
    calls = []
    for c in case['calls']:
        s = f"g(m{c['main']};" + ';'.join(','.join(r(x) for x in c[k]) for k in ('libs', 'libsp', 'reqs', 'reqsp'))
        extra = [','.join(c['subdirs']) if c['subdirs'] != ['.'] else '', ','.join(c['xcf']),
                 ','.join(f"{v['k']}={v['v']}" for v in c['vars']), c['name'].replace(pfx, ''), c['fb'].replace(pfx, ''),
                 c['ver'], c['desc'], c['idir']]
        if any(extra):
            s += ';' + '|'.join(extra)
        calls.append(s + ')')
    return ' '.join(objs) + ' :: ' + ' '.join(calls) + (' perm' if case.get('perm') else '')


def judge(chk: Check, cases: T.List[T.Dict[str, T.Any]], fixed: T.Dict[str, T.Any], label: str) -> None:
    by_id = {c['id']: c for c in cases}
    parts = list(common.chunks(cases, 6000))
    nproc = min(len(parts), 3) or 1
    workers = max(2, common.NCPU // nproc)
    with ThreadPoolExecutor(max_workers=nproc) as ex:
        results = list(ex.map(_judge_part, [(p, fixed, workers) for p in parts]))
    for n, (res, bad) in enumerate(results):
        chk.add_tlc(f'TracePkgConfig[{label}#{n}]', res, model=False)
        for v in bad:
            case = by_id[v['id']]
            for b in v['bad']:
                head = f"{b['clause']}:{b['what']}" if b['what'] else b['clause']
                if head in (SIG_SHARED_DEP, SIG_NO_WARNING) + SIG_SIBLING:
                    sig = head
                else:
                    sig = f"{head}@call{b['call']}@{norm_case(case)}"
                chk.violation(sig, {'verdict': b, 'case': {k: case.get(k) for k in ('id', 'pfx', 'objs', 'calls', 'perm')},
                                    'observed': case.get('out'), 'warned': case.get('warned'), 'log': case.get('log', ''),
                                    'fixed': fixed})
    chk.traces += len(cases)


def account(chk: Check, cases: T.List[T.Dict[str, T.Any]]) -> None:
    chk.evaluations += sum(len(c['calls']) for c in cases)
    for c in cases:
        multi = len(c['calls']) > 1
        for k, rec in enumerate(c['out']):
            f = rec['f']
            if f['req'] or f['reqp'] or f['libsp'] or len([x for x in f['libs'] if x['t'] != 'L']) > 1 or multi:
                chk.nontriv(norm_case(c))
                break
    for c in cases[:: max(1, len(cases) // 3)][:3]:
        chk.sample({'id': c['id'], 'scenario': norm_case(c), 'files': [r['f'] for r in c['out']]}, limit=9)


def execute(chk: Check, cases: T.List[T.Dict[str, T.Any]], fixed: T.Dict[str, T.Any], per_project: int, pc_frac: float,
            label: str) -> None:
    jobs = [(list(part), fixed, chk.seed, pc_frac) for part in common.chunks(cases, per_project)]
    done: T.List[T.Dict[str, T.Any]] = []
    with ProcessPoolExecutor(max_workers=common.NCPU) as ex:
        for part in ex.map(run_batch, jobs):
            done.extend(part)
    account(chk, done)
    judge(chk, done, fixed, label)


# ---------------------------------------------------------------------------

def model_cfg(fam: str, n: int, m1: int, m2: int, sample: int, sd: int, export: bool) -> str:
    inv = [i for i in INVARIANTS if export or i != 'Export']
    return ('SPECIFICATION Spec\nCONSTANTS FAM = "%s"\n N = %d\n MENT1 = %d\n MENT2 = %d\n SAMPLE = %d\n SEED = %d\n' % (fam, n, m1, m2, sample, sd)
            + ''.join(f'INVARIANT {i}\n' for i in inv) + 'CHECK_DEADLOCK FALSE\nPOSTCONDITION Fixed\n')


def run_model(chk: Check, fam: str, n: int, m1: int, m2: int, sample: int = 1, export: bool = True
              ) -> T.Tuple[T.List[T.Dict[str, T.Any]], T.Dict[str, T.Any]]:
    res = run_tlc(FAM, 'PkgConfig_MC', cfg_text=model_cfg(fam, n, m1, m2, sample, chk.seed, export),
                  collect=['fixed.json'], timeout=3000, allow_violation=False, heap='6g')
    chk.add_tlc(f'PkgConfig_MC[{fam},N={n},MENT={m1}/{m2}' + (f',sample 1/{sample}' if sample > 1 else '') + ']', res)
    if 'fixed.json' not in res.collected:
        raise MachineryError('the model run did not export the fixed part of the projects')
    return res.json_lines(), json.loads(res.collected['fixed.json'])


def main(chk: Check) -> None:
    quick = chk.tier == 'quick'
    chk.rule = ('A: every maximal scenario printed by the TLC model (families G = library graphs, D = dependency objects, '
                'S = scalar keyword arguments; one or two generate() calls), rendered into real projects and configured; '
                'B: seeded random projects of 4-10 objects with 1-4 calls.  Non-trivial = some generated file has a Requires '
                'entry, a private library or more than one public library entry, or the scenario has several calls '
                '(distinct abstract scenarios).')
    if not os.access(PKG_CONFIG, os.X_OK):
        raise MachineryError('pkg-config is not available')
    # ---- model checking + export of the scenario space
    if quick:
        runs = [('G', 2, 2, 1, 1), ('D', 2, 1, 1, 5), ('S', 1, 1, 1, 14)]
    else:
        runs = [('G', 2, 3, 2, 1), ('G', 3, 2, 1, 25), ('D', 3, 2, 1, 25), ('S', 1, 1, 1, 3)]
    scenarios: T.List[T.Dict[str, T.Any]] = []
    fixed: T.Dict[str, T.Any] = {}
    sizes = {}
    for fam, n, m1, m2, sample in runs:
        lines, fixed = run_model(chk, fam, n, m1, m2, sample)
        sizes[f'{fam}{n}/{m1}/{m2}' + (f'/sample{sample}' if sample > 1 else '')] = len(lines)
        scenarios.extend(lines)
    chk.extra['scenarios_exported'] = sizes
    rnd = random.Random(chk.seed)
    cases = [instantiate(s, f'a{j}', rnd) for j, s in enumerate(scenarios)]
    chk.extra['A_scenarios'] = len(cases)
    # ---- (A) replay through the real generator
    execute(chk, cases, fixed, 120, 0.2 if quick else 0.1, 'A')
    # ---- (B) random larger projects
    nb = 600 if quick else 8000
    rcases = [random_case(random.Random(f'B:{chk.seed}:{j}'), f'b{j}', fixed) for j in range(nb)]
    chk.extra['B_scenarios'] = nb
    execute(chk, rcases, fixed, 40, 0.5 if quick else 0.25, 'B')
    chk.exhaustive = True
    chk.assumptions += [
        'not generated: both_libraries(), custom_target() libraries, dataonly, unescaped_variables, uninstalled_variables, '
        'cflags_private, conflicts, url/license, d_module_versions (no D compiler), pkgconfig.relocatable, name_prefix/'
        'name_suffix, include_directories of targets, subprojects',
        'words given as text in libraries / link_args are -l forms or -pthread (the de-duplication of other words is not documented)',
        'an uninstalled static library is never the main library nor listed in libraries / libraries_private; '
        'requires only names libraries that were a main library before (anything else is a documented error)',
        'a Requires entry that only stands for a library which the same call link_whole\'s into another one may stay or go',
        'the order of Requires entries, of words contributed by dependency objects and of compiler flags contributed by '
        'dependencies is not constrained; what is: main library first, literal order of the call kept, dependents before '
        'libraries pulled in for them, header search path first, order of extra_cflags',
        'pkg-config observations: flags computed by /usr/bin/pkg-config (pkgconf) from the generated files are compared '
        'as sets (it merges and reorders); run on a seeded fraction of the scenarios',
        'Linux host: dependency(\'threads\') is -pthread in Libs and Cflags',
    ]


def replay(chk: Check, data: T.Dict[str, T.Any]) -> None:
    det = data['detail']
    case = dict(det['case'])
    fixed = det['fixed']
    done = run_batch(([case], fixed, data.get('seed', 0), 1.0))
    judge(chk, done, fixed, 'replay')


if __name__ == '__main__':
    sys.exit(common.run_check(main, PROP, replay=replay))
