"""X07 - option definition files (meson.options / meson_options.txt) and deprecated options.

1. TLC model-checks specs/optfile/OptFile_MC (the restricted expression language: evaluator = typed
   denotation; option() declaration rules; batch = incremental = declarative file processing; defaults
   satisfy their own declaration; order independence) and OptDeprecated_MC (the four documented forms of
   `deprecated:`: stored values stay in the option's domain, forwarding = direct assignment, idempotence,
   the result of a command does not depend on the order of its -D arguments).  Both runs export their
   bounded input space.
2. (A) every file of the model's space (one statement of the big alphabet, or up to N statements of the
   core alphabet) is rendered to text and processed by the real ``OptionInterpreter`` in-process; every
   (table, command line) case of OptDeprecated_MC is rendered to an option file and replayed on a real
   ``OptionStore`` with the calls meson makes.  Observations are judged by TLC (TraceOptFile).
3. (B) seeded random larger files (deeper expressions, 5-30 statements) in-process, random multi-group
   tables + command lines in-process and through the real ``meson setup --backend=none -D...`` CLI observed
   with ``meson introspect --buildoptions``; judged by the same trace specification.
Python renders abstract syntax to text, drives the implementation and projects its state; every verdict is TLC's.
"""
from __future__ import annotations

import json
import os
import random
import re
import signal
import subprocess
import sys
import threading
import time
import typing as T
from concurrent.futures import ProcessPoolExecutor, ThreadPoolExecutor
from pathlib import Path

from . import common
from .common import Check, MachineryError, SPECS, run_tlc, scratch

PROP = 'X07'
NOBOUND = -999999
FAM = SPECS / 'optfile'
OPS = ('bin', 'cmp', 'logic', 'tern', 'neg', 'not')


# ---------------------------------------------------------------------------
# abstract syntax (same shape as specs/optfile/OptExpr.tla: Node(k, s, n, a))

def node(k: str, s: str = '', n: int = 0, a: T.Optional[T.List[T.Any]] = None) -> T.Dict[str, T.Any]:
    return {'k': k, 's': s, 'n': n, 'a': a or []}


def e_str(s: str) -> T.Dict[str, T.Any]:
    return node('str', s)


def e_int(n: int) -> T.Dict[str, T.Any]:
    return node('neg', a=[node('int', n=-n)]) if n < 0 else node('int', n=n)


def e_bool(b: bool) -> T.Dict[str, T.Any]:
    return node('bool', n=int(b))


def e_arr(es: T.List[T.Any]) -> T.Dict[str, T.Any]:
    return node('arr', a=es)


def e_dict(pairs: T.List[T.Tuple[T.Any, T.Any]]) -> T.Dict[str, T.Any]:
    return node('dict', a=[node('pair', a=[k, v]) for k, v in pairs])


def kw(n: str, e: T.Any) -> T.Dict[str, T.Any]:
    return {'n': n, 'e': e}


def stmt(k: str, f: str, pos: T.List[T.Any], kws: T.List[T.Any]) -> T.Dict[str, T.Any]:
    return {'k': k, 'f': f, 'pos': pos, 'kw': kws}


# ---------------------------------------------------------------------------
# rendering to the concrete syntax

def q(s: str) -> str:
    return "'" + s.replace('\\', '\\\\').replace("'", "\\'") + "'"


def render_int(n: int, rnd: random.Random) -> str:
    r = rnd.random()
    if r < 0.8 or n < 0:
        return str(n)
    if r < 0.88:
        return hex(n)          # Release-notes-for-0.45.0: hexadecimal literals in build and option files
    if r < 0.94:
        return oct(n)          # Release-notes-for-0.47.0: octal and binary literals
    return bin(n)


def render_expr(e: T.Dict[str, T.Any], rnd: random.Random) -> str:
    k = e['k']
    a = e['a']

    def wrap(x: T.Dict[str, T.Any]) -> str:
        r = render_expr(x, rnd)
        return '(' + r + ')' if x['k'] in OPS else r

    if k == 'str':
        return q(e['s'])
    if k == 'int':
        return render_int(e['n'], rnd)
    if k == 'bool':
        return 'true' if e['n'] == 1 else 'false'
    if k == 'arr':
        inner = ', '.join(render_expr(x, rnd) for x in a)
        if a and rnd.random() < 0.15:
            inner += ','
        return '[' + inner + ']'
    if k == 'dict':
        sep = rnd.choice([': ', ' : ', ':'])
        return '{' + ', '.join(render_expr(p['a'][0], rnd) + sep + render_expr(p['a'][1], rnd) for p in a) + '}'
    if k == 'paren':
        return '(' + render_expr(a[0], rnd) + ')'
    if k == 'neg':
        return '-' + rnd.choice(['', ' ']) + wrap(a[0])
    if k == 'not':
        return 'not ' + wrap(a[0])
    if k in ('bin', 'cmp', 'logic'):
        return wrap(a[0]) + ' ' + e['s'] + ' ' + wrap(a[1])
    if k == 'tern':
        return wrap(a[0]) + ' ? ' + wrap(a[1]) + ' : ' + wrap(a[2])
    if k == 'id':
        return e['s']
    if k == 'call':
        return e['s'] + '(' + ', '.join(render_expr(x, rnd) for x in a) + ')'
    if k == 'method':
        return wrap(a[0]) + '.' + e['s'] + '(' + ', '.join(render_expr(x, rnd) for x in a[1:]) + ')'
    if k == 'index':
        return wrap(a[0]) + '[' + render_expr(a[1], rnd) + ']'
    raise MachineryError('cannot render expression ' + repr(e))


def render_stmt(s: T.Dict[str, T.Any], rnd: random.Random) -> str:
    k = s['k']
    if k in ('call', 'kwfirst'):
        sep = rnd.choice([': ', ' : ', ':'])
        pos = [render_expr(x, rnd) for x in s['pos']]
        kws = [x['n'] + sep + render_expr(x['e'], rnd) for x in s['kw']]
        args = kws + pos if k == 'kwfirst' else pos + kws
        r = rnd.random()
        if r < 0.12 and len(args) > 1:
            return s['f'] + '(\n  ' + ',\n  '.join(args) + rnd.choice(['', ',']) + '\n)'
        if r < 0.2 and len(args) > 1:
            return s['f'] + '(' + args[0] + ',\n       ' + ', '.join(args[1:]) + ')'
        return s['f'] + rnd.choice(['', '', ' ']) + '(' + ', '.join(args) + ')'
    if k == 'assign':
        return s['f'] + ' = ' + render_expr(s['pos'][0], rnd)
    if k == 'plusassign':
        return s['f'] + ' += ' + render_expr(s['pos'][0], rnd)
    if k == 'expr':
        return render_expr(s['pos'][0], rnd)
    if k == 'if':
        return 'if ' + render_expr(s['pos'][0], rnd) + '\nendif'
    if k == 'foreach':
        return 'foreach ' + s['f'] + ' : ' + render_expr(s['pos'][0], rnd) + '\nendforeach'
    if k == 'method':
        return render_expr(s['pos'][0], rnd) + '.' + s['f'] + '()'
    if k == 'garbage':
        return s['f']
    raise MachineryError('cannot render statement ' + repr(s))


def render_file(stmts: T.List[T.Dict[str, T.Any]], rnd: random.Random) -> T.Tuple[str, T.Dict[int, int]]:
    """-> (text, {line number: statement index}); a statement always starts on a line of its own."""
    lines: T.List[str] = []
    start: T.Dict[int, int] = {}
    if rnd.random() < 0.2:
        lines.append('# option definitions')
    for idx, s in enumerate(stmts):
        if rnd.random() < 0.15:
            lines.append('')
        if rnd.random() < 0.1:
            lines.append('# ' + rnd.choice(['a comment', "option('c', type : 'string')", 'x = 1']))
        txt = render_stmt(s, rnd)
        if s['k'] != 'garbage' and rnd.random() < 0.1:
            txt += '  # trailing'
        first = len(lines) + 1
        for j, ln in enumerate(txt.split('\n')):
            start[first + j] = idx + 1
            lines.append(ln)
    return '\n'.join(lines) + rnd.choice(['\n', '\n', '']), start


# ---------------------------------------------------------------------------
# projection of the real objects

def project_value(v: T.Any) -> T.Dict[str, T.Any]:
    if isinstance(v, bool):
        return {'t': 'b', 'n': int(v), 'w': []}
    if isinstance(v, int):
        return {'t': 'i', 'n': int(v), 'w': []}
    if isinstance(v, str):
        return {'t': 's', 'n': 0, 'w': [v]}
    if isinstance(v, list) and all(isinstance(x, str) for x in v):
        return {'t': 'a', 'n': 0, 'w': list(v)}
    return {'t': 'alien:' + type(v).__name__, 'n': 0, 'w': []}


def project_dep(d: T.Any) -> T.Dict[str, T.Any]:
    if d is False:
        return {'f': 'none', 'l': [], 'm': [], 's': ''}
    if d is True:
        return {'f': 'all', 'l': [], 'm': [], 's': ''}
    if isinstance(d, str):
        return {'f': 'name', 'l': [], 'm': [], 's': d}
    if isinstance(d, list):
        return {'f': 'list', 'l': [str(x) for x in d], 'm': [], 's': ''}
    if isinstance(d, dict):
        return {'f': 'map', 'l': [str(x) for x in d.keys()], 'm': [str(x) for x in d.values()], 's': ''}
    return {'f': 'alien:' + type(d).__name__, 'l': [], 'm': [], 's': ''}


def project_opt(mo: T.Any, o: T.Any) -> T.Dict[str, T.Any]:
    """real UserOption -> abstract declared option (OptDecl!Opt without `free`)."""
    cls = type(o)
    kind = {mo.UserStringOption: 'string', mo.UserBooleanOption: 'boolean', mo.UserIntegerOption: 'integer',
            mo.UserComboOption: 'combo', mo.UserStringArrayOption: 'array', mo.UserFeatureOption: 'feature'}.get(cls, 'alien:' + cls.__name__)
    choices: T.List[str] = []
    if kind in ('combo', 'array'):
        choices = [str(x) for x in (o.choices or [])]
    lo = hi = NOBOUND
    if kind == 'integer':
        lo = NOBOUND if o.min_value is None else int(o.min_value)
        hi = NOBOUND if o.max_value is None else int(o.max_value)
    return {'name': o.name, 'kind': kind, 'choices': choices, 'lo': lo, 'hi': hi, 'def': project_value(o.value),
            'yield': bool(o.yielding), 'dep': project_dep(o.deprecated), 'desc': o.description}


NOTE_RES = [
    ('replaced', re.compile(r'^Option "([^"]*)" value \'(.*)\' is replaced by \'(.*)\'$')),
    ('value', re.compile(r'^Option "([^"]*)" value \'(.*)\' is deprecated$')),
    ('renamed', re.compile(r'^Option "([^"]*)" is replaced by \'(.*)\'$')),
    ('option', re.compile(r'^Option "([^"]*)" is deprecated$')),
]


def parse_note(msg: str) -> T.Optional[T.Dict[str, str]]:
    """the four notice texts pinned by test cases/common/247 deprecated option/test.json -> abstract notice."""
    msg = msg.strip()
    if not msg.startswith('Option "'):
        return None
    for kind, rx in NOTE_RES:
        m = rx.match(msg)
        if m:
            g = m.groups()
            if kind == 'replaced':
                return {'k': kind, 'o': g[0], 'v': g[1], 'nv': g[2]}
            if kind == 'value':
                return {'k': kind, 'o': g[0], 'v': g[1], 'nv': ''}
            if kind == 'renamed':
                return {'k': kind, 'o': g[0], 'v': '', 'nv': g[1]}
            return {'k': kind, 'o': g[0], 'v': '', 'nv': ''}
    return {'k': 'other', 'o': msg[:60], 'v': '', 'nv': ''}


# ---------------------------------------------------------------------------
# driving the real code in-process

class _Impl:
    """per-process handle on the tree under test."""
    inst: T.Optional['_Impl'] = None

    def __init__(self) -> None:
        common.use_repo_meson()
        import mesonbuild.interpreter  # noqa: F401  (resolves the import cycle optinterpreter <-> interpreter)
        from mesonbuild import optinterpreter, options, mesonlib, mlog
        self.oi = optinterpreter
        self.mo = options
        self.ml = mesonlib
        self.mlog = mlog
        self.notes: T.List[str] = []
        mlog.deprecation = self._capture      # options.py / optinterpreter.py call mlog.deprecation(...)
        mlog.warning = lambda *a, **k: None
        base = os.environ.get('VERIF_TMPDIR') or os.environ.get('TMPDIR') or '/tmp'
        self.path = os.path.join(base, f'x07-{os.getpid()}.options')

    def _capture(self, *args: T.Any, **kwargs: T.Any) -> None:
        self.notes.append(' '.join(str(a) for a in args))

    @classmethod
    def get(cls) -> '_Impl':
        if cls.inst is None:
            cls.inst = _Impl()
        return cls.inst


class _Watchdog(Exception):
    pass


def _alarm(signum: int, frame: T.Any) -> None:
    raise _Watchdog('the call did not return within %d s' % WATCHDOG_S)


WATCHDOG_S = 60
# exception types that are never input validation: a rejection produced by one of them (directly, or converted into a
# MesonException by a blanket handler - visible as the exception's __context__) is an unhandled Python exception
INTERNAL = (AttributeError, TypeError, KeyError, IndexError, RecursionError, AssertionError, NameError, UnboundLocalError, _Watchdog)


def internal_cause(e: BaseException, meson_exc: T.Any) -> str:
    """the type of the Python exception behind a rejection when it was not a deliberate check: either the exception is itself of
    such a type, or it is a MesonException that a blanket handler made out of one (same message text, original as __context__;
    a deliberate `except KeyError: raise MesonException('Unknown option ...')` has a message of its own and is not counted)."""
    if isinstance(e, INTERNAL) and not isinstance(e, meson_exc):
        return type(e).__name__
    ctx = e.__cause__ or e.__context__
    if ctx is not None and isinstance(ctx, INTERNAL) and not isinstance(ctx, meson_exc) and str(ctx) == str(e):
        return type(ctx).__name__
    return ''


def guarded(fn: T.Callable[[], T.Dict[str, T.Any]]) -> T.Dict[str, T.Any]:
    """run one implementation call under a watchdog (a mutant or a cyclic input must not hang the check)."""
    old = signal.signal(signal.SIGALRM, _alarm)
    signal.alarm(WATCHDOG_S)
    try:
        return fn()
    finally:
        signal.alarm(0)
        signal.signal(signal.SIGALRM, old)


def stmt_tag(s: T.Dict[str, T.Any]) -> str:
    """normalised description of a statement for signatures: kind, function, literal name."""
    name = s['pos'][0]['s'] if s['pos'] and s['pos'][0]['k'] == 'str' else '?'
    return f"{s['k']}:{s['f']}({name!r})"


def has_cycle(tab: T.List[T.Dict[str, T.Any]]) -> bool:
    nxt = {o['name']: o['dep']['s'] for o in tab if o['dep']['f'] == 'name'}
    for start in nxt:
        seen, x = set(), start
        while x in nxt and x not in seen:
            seen.add(x)
            x = nxt[x]
        if x in seen:
            return True
    return False


def run_file(text: str, start: T.Dict[int, int]) -> T.Dict[str, T.Any]:
    """process one option file with the real OptionInterpreter: accepted?, failing statement, declared options."""
    im = _Impl.get()
    with open(im.path, 'w', encoding='utf-8') as f:
        f.write(text)
    store = im.mo.OptionStore(False)
    interp = im.oi.OptionInterpreter(store, '')
    out: T.Dict[str, T.Any] = {'acc': True, 'at': 0, 'opts': [], 'alien': '', 'internal': ''}
    try:
        interp.process(im.path)
        out['opts'] = [project_opt(im.mo, o) for o in interp.options.values()]
    except im.ml.MesonException as e:
        out['acc'] = False
        ln = getattr(e, 'lineno', None)
        out['at'] = start.get(ln, -1) if isinstance(ln, int) else -1
        out['internal'] = internal_cause(e, im.ml.MesonException)
    except Exception as e:  # not a clean rejection
        out['acc'] = False
        out['at'] = -1
        out['alien'] = type(e).__name__ + ': ' + str(e)[:200]
    return out


def raw_text(r: T.Dict[str, T.Any]) -> str:
    """OptionKinds raw value (text forms) -> the text after -Dname="""
    t = r['t']
    if t == 'str':
        return T.cast(str, r['w'][0])
    if t == 'inttxt':
        return str(r['n'])
    if t == 'csv':
        return ','.join(r['w'])
    if t == 'brk':
        return '[' + ', '.join("'" + x + "'" for x in r['w']) + ']'
    raise MachineryError('not a command-line value: ' + repr(r))


def val_expr(v: T.Dict[str, T.Any]) -> T.Dict[str, T.Any]:
    t = v['t']
    if t == 's':
        return e_str(v['w'][0])
    if t == 'b':
        return e_bool(v['n'] == 1)
    if t == 'i':
        return e_int(v['n'])
    if t == 'a':
        return e_arr([e_str(x) for x in v['w']])
    raise MachineryError('cannot render value ' + repr(v))


def opt_stmt(o: T.Dict[str, T.Any], rnd: random.Random) -> T.Dict[str, T.Any]:
    """abstract declared option -> an option() statement that declares it."""
    kws = [kw('type', e_str(o['kind']))]
    if o['kind'] in ('combo', 'array') and (o['choices'] or o['kind'] == 'combo'):
        kws.append(kw('choices', e_arr([e_str(x) for x in o['choices']])))
    if o['kind'] == 'integer':
        if o['lo'] != NOBOUND:
            kws.append(kw('min', e_int(o['lo'])))
        if o['hi'] != NOBOUND:
            kws.append(kw('max', e_int(o['hi'])))
    kws.append(kw('value', val_expr(o['def'])))
    d = o['dep']
    if d['f'] == 'all':
        kws.append(kw('deprecated', e_bool(True)))
    elif d['f'] == 'list':
        kws.append(kw('deprecated', e_arr([e_str(x) for x in d['l']])))
    elif d['f'] == 'map':
        kws.append(kw('deprecated', e_dict([(e_str(a), e_str(b)) for a, b in zip(d['l'], d['m'])])))
    elif d['f'] == 'name':
        kws.append(kw('deprecated', e_str(d['s'])))
    elif rnd.random() < 0.2:
        kws.append(kw('deprecated', e_bool(False)))
    if o['yield'] or rnd.random() < 0.1:
        kws.append(kw('yield', e_bool(bool(o['yield']))))
    if o['desc'] != o['name']:
        kws.append(kw('description', e_str(o['desc'])))
    head, tail = kws[:1], kws[1:]
    rnd.shuffle(tail)
    return stmt('call', 'option', [e_str(o['name'])], head + tail)


def run_cmd(tab: T.List[T.Dict[str, T.Any]], cl: T.List[T.Dict[str, T.Any]], rnd: random.Random) -> T.Dict[str, T.Any]:
    """declare `tab` through the real OptionInterpreter and give the command line `cl` to a real OptionStore."""
    im = _Impl.get()
    order = list(range(len(tab)))
    rnd.shuffle(order)
    text, _ = render_file([opt_stmt(tab[j], rnd) for j in order], rnd)
    with open(im.path, 'w', encoding='utf-8') as f:
        f.write(text)
    OK = im.mo.OptionKey
    out: T.Dict[str, T.Any] = {'otab': [], 'raised': False, 'vals': [], 'notes': [], 'alien': '', 'text': text,
                               'args': ['-D' + a['n'] + '=' + raw_text(a['r']) for a in cl]}
    novals = [{'t': 'none', 'n': 0, 'w': []} for _ in tab]
    try:
        store = im.mo.OptionStore(False)
        store.init_builtins()
        interp = im.oi.OptionInterpreter(store, '')
        interp.process(im.path)
        out['otab'] = [project_opt(im.mo, o) for o in interp.options.values()]
        store.update_project_options(interp.options, '')
        im.notes = []
        cmd = {OK.from_string(a['n']): raw_text(a['r']) for a in cl}
        try:
            store.initialize_from_top_level_project_call({}, cmd, {})
        except im.ml.MesonException as e:
            out['raised'] = True
            out['vals'] = novals
            ic = internal_cause(e, im.ml.MesonException)
            if ic:
                out['alien'] = ic + ': converted into a MesonException'
            return out
        out['vals'] = [project_value(store.get_value_for(OK(o['name'], ''))) for o in tab]
        out['notes'] = [n for n in (parse_note(m) for m in im.notes) if n is not None]
    except Exception as e:
        out['alien'] = type(e).__name__ + ': ' + str(e)[:200]
        out['raised'] = True
        out['vals'] = novals
    return out


# ---------------------------------------------------------------------------
# workers

def _w_pid(_: int) -> int:
    time.sleep(0.05)
    return os.getpid()


def _w_files(args: T.Tuple[T.List[T.Tuple[str, T.List[T.Dict[str, T.Any]]]], int]) -> T.List[T.Dict[str, T.Any]]:
    items, sd = args
    out = []
    for cid, stmts in items:
        rnd = random.Random(f'{sd}/{cid}')
        text, start = render_file(stmts, rnd)
        obs = guarded(lambda: run_file(text, start))
        tag = stmt_tag(stmts[obs['at'] - 1]) if 0 < obs['at'] <= len(stmts) else '?'
        alien = obs['alien'] or (obs['internal'] + ': converted into a MesonException' if obs['internal'] else '')
        out.append({'id': cid, 'kind': 'file', 'view': 'full', 'f': stmts, 'acc': obs['acc'], 'at': obs['at'],
                    'opts': obs['opts'], 'alien': alien, 'tag': tag, 'text': text})
    return out


def _w_cmds(args: T.Tuple[T.List[T.Tuple[str, T.List[T.Dict[str, T.Any]], T.List[T.Dict[str, T.Any]]]], int]) -> T.List[T.Dict[str, T.Any]]:
    items, sd = args
    out = []
    for cid, tab, cl in items:
        rnd = random.Random(f'{sd}/{cid}')
        obs = guarded(lambda: run_cmd(tab, cl, rnd))
        out.append({'id': cid, 'kind': 'cmd', 'view': 'full', 'tab': tab, 'cl': cl, 'otab': obs['otab'],
                    'raised': obs['raised'], 'vals': obs['vals'], 'notes': obs['notes'], 'alien': obs['alien'],
                    'tag': 'replacement-cycle' if has_cycle(tab) else 'no-cycle',
                    'text': obs['text'], 'args': obs['args']})
    return out


# ---------------------------------------------------------------------------
# (B) random generation

WORDS = ['a', 'b', 'c', 'one', 'two', 'x-y', 'v1.2', 'Rel', 'true', 'false', 'enabled', 'auto', '7', '42', 'some words', 'path/to']
WORDS_NN = [w for w in WORDS if not w.lstrip('-').isdigit()]
GOODNAMES = ['alpha', 'beta', 'with-dash', 'under_score', 'CamelCase', 'n0', 'libs', 'cflags', 'cxx', 'backends', 'bb', 'platlib',
             'feature-x', 'opt_level', 'build_docs', 'x_c', 'debugger', 'prefix-dir']
BADNAMES = ['prefix', 'libdir', 'buildtype', 'werror', 'b_lto', 'b_custom', 'c_args', 'cpp_x', 'rust_flags', 'backend_max_links',
            'a.b', 'sub:opt', 'has space', 'fortran_x', 'default_library', 'build.opt', 'wrap_mode', 'objc_x']


def rand_expr(rnd: random.Random, typ: str, depth: int) -> T.Dict[str, T.Any]:
    """an expression that (by construction of the generator, not judged here) is meant to have type `typ`;
    'junk' produces constructs outside the option-file language or ill-typed ones."""
    if typ in ('str', 'strnn'):
        # pieces of a concatenation are never numeric words (the model reads integer texts only within -99..99)
        if depth > 0 and rnd.random() < 0.35:
            return node('bin', '+', a=[rand_expr(rnd, 'strnn', depth - 1), rand_expr(rnd, 'strnn', depth - 1)])
        if depth > 0 and rnd.random() < 0.15:
            return node('paren', a=[rand_expr(rnd, typ, depth - 1)])
        return e_str(rnd.choice(WORDS if typ == 'str' else WORDS_NN))
    if typ == 'int':
        if depth > 0 and rnd.random() < 0.3:
            return node('neg', a=[rand_expr(rnd, 'int', depth - 1)])
        if depth > 0 and rnd.random() < 0.15:
            return node('paren', a=[rand_expr(rnd, 'int', depth - 1)])
        return node('int', n=rnd.choice([0, 1, 2, 3, 5, 7, 9, 10, 16, 42, 64, 99]))
    if typ == 'bool':
        if depth > 0 and rnd.random() < 0.3:
            return node('not', a=[rand_expr(rnd, 'bool', depth - 1)])
        if depth > 0 and rnd.random() < 0.15:
            return node('paren', a=[rand_expr(rnd, 'bool', depth - 1)])
        return e_bool(rnd.random() < 0.5)
    if typ == 'strarr':
        ws = rnd.sample(WORDS, rnd.randint(0, 4))
        return e_arr([rand_expr(rnd, 'str', max(0, depth - 1)) if rnd.random() < 0.2 else e_str(w) for w in ws])
    if typ == 'strdict':
        ks = rnd.sample(WORDS, rnd.randint(0, 3))
        return e_dict([(e_str(k), rand_expr(rnd, 'str', max(0, depth - 1))) for k in ks])
    # junk
    leaf = rnd.choice([e_str('a'), node('int', n=3), e_bool(True), node('id', 'somevar')])
    other = rnd.choice([e_str('b'), node('int', n=4), e_bool(False)])
    r = rnd.randrange(12)
    if r == 0:
        return node('id', rnd.choice(['foo', 'host_machine', 'meson']))
    if r == 1:
        return node('call', rnd.choice(['get_option', 'files', 'join_paths']), a=[leaf])
    if r == 2:
        return node('method', rnd.choice(['strip', 'to_string', 'version']), a=[leaf])
    if r == 3:
        return node('bin', rnd.choice(['-', '*', '/', '%']), a=[leaf, other])
    if r == 4:
        return node('bin', '+', a=[node('int', n=1), node('int', n=2)])
    if r == 5:
        return node('bin', '+', a=[e_str('a'), rnd.choice([node('int', n=2), e_bool(True), e_arr([e_str('x')])])])
    if r == 6:
        return node('cmp', rnd.choice(['==', '!=', '<', '>=', 'in', 'not in']), a=[leaf, e_arr([other]) if rnd.random() < 0.3 else other])
    if r == 7:
        return node('logic', rnd.choice(['and', 'or']), a=[e_bool(True), e_bool(False)])
    if r == 8:
        return node('tern', a=[e_bool(True), leaf, other])
    if r == 9:
        return node('index', a=[e_arr([leaf]), node('int', n=0)])
    if r == 10:
        return node('neg', a=[rnd.choice([e_str('a'), e_arr([]), node('id', 'v')])])
    return node('not', a=[rnd.choice([e_str('a'), node('int', n=1), node('id', 'v')])])


def int_expr(rnd: random.Random, n: int, depth: int) -> T.Dict[str, T.Any]:
    """an expression of the option-file language that is meant to denote n (literal, parentheses, double negation)."""
    e = e_int(n)
    for _ in range(depth):
        r = rnd.random()
        if r < 0.2:
            e = node('paren', a=[e])
        elif r < 0.35:
            e = node('neg', a=[node('neg', a=[e])])
    return e


def rand_decl(rnd: random.Random, name: str, depth: int, sound: float) -> T.Dict[str, T.Any]:
    """one random option() call; with probability 1 - sound something about it is made questionable."""
    kind = rnd.choice(['string', 'boolean', 'integer', 'combo', 'array', 'feature'])
    kws = [kw('type', rand_expr(rnd, 'str', 0) if rnd.random() > 0.97 else
              (node('bin', '+', a=[e_str(kind[:2]), e_str(kind[2:])]) if rnd.random() < 0.1 else e_str(kind)))]
    choices = rnd.sample(['a', 'b', 'c', 'one', 'two'], rnd.randint(1, 4))
    ok = rnd.random() < sound
    if kind in ('combo',) or (kind == 'array' and rnd.random() < 0.6):
        kws.append(kw('choices', e_arr([e_str(c) for c in choices])))
    elif kind not in ('combo', 'array') and not ok and rnd.random() < 0.2:
        kws.append(kw('choices', e_arr([e_str(c) for c in choices])))
    has_choices = any(x['n'] == 'choices' for x in kws)
    if rnd.random() < 0.75 or kind == 'integer':
        if kind == 'string':
            v = rand_expr(rnd, 'str', depth)
        elif kind == 'boolean':
            v = rand_expr(rnd, 'bool', depth) if rnd.random() < 0.85 else e_str(rnd.choice(['true', 'false']))
        elif kind == 'integer':
            lo_n = rnd.choice([-5, 0, 0, 1, 10])
            hi_n = lo_n + rnd.choice([0, 1, 5, 50, 89])
            v_n = rnd.randint(lo_n, hi_n) if ok or rnd.random() < 0.5 else rnd.choice([lo_n - 1, hi_n + 1])
            v = int_expr(rnd, v_n, depth) if rnd.random() < 0.85 else e_str(str(v_n))
        elif kind == 'combo':
            v = e_str(rnd.choice(choices)) if ok or rnd.random() < 0.5 else e_str('zz')
        elif kind == 'array':
            pool = choices if has_choices and (ok or rnd.random() < 0.5) else ['a', 'b', 'q', 'zz', 'one']
            v = e_arr([e_str(x) for x in rnd.sample(pool, rnd.randint(0, min(3, len(pool))))])
        else:
            v = e_str(rnd.choice(['enabled', 'disabled', 'auto'])) if ok or rnd.random() < 0.5 else e_str(rnd.choice(['yes', 'true', 'on']))
        if not ok and rnd.random() < 0.35:
            v = rand_expr(rnd, rnd.choice(['junk', 'str', 'int', 'bool', 'strarr', 'strdict']), depth)
        kws.append(kw('value', v))
    if kind == 'integer':
        if rnd.random() < 0.6:
            kws.append(kw('min', int_expr(rnd, lo_n, depth) if ok or rnd.random() < 0.8 else rnd.choice([e_str('0'), e_bool(False)])))
        if rnd.random() < 0.6:
            kws.append(kw('max', int_expr(rnd, hi_n, depth)))
    elif not ok and rnd.random() < 0.1:
        kws.append(kw(rnd.choice(['min', 'max']), node('int', n=3)))
    if rnd.random() < 0.4:
        kws.append(kw('description', rand_expr(rnd, 'str', depth) if ok or rnd.random() < 0.8 else node('int', n=1)))
    if rnd.random() < 0.25:
        kws.append(kw('yield', rand_expr(rnd, 'bool', depth) if ok or rnd.random() < 0.8 else e_str('true')))
    if rnd.random() < 0.35:
        form = rnd.randrange(5)
        dv = [rand_expr(rnd, 'bool', depth), rand_expr(rnd, 'strarr', depth), rand_expr(rnd, 'strdict', depth),
              e_str(rnd.choice(GOODNAMES)), rand_expr(rnd, 'junk', depth) if not ok else e_bool(True)][form]
        if not ok and rnd.random() < 0.2:
            dv = rnd.choice([node('int', n=1), e_arr([e_str('a'), node('int', n=1)]), e_dict([(e_str('a'), e_bool(True))]),
                             e_dict([(node('int', n=1), e_str('b'))])])
        kws.append(kw('deprecated', dv))
    if not ok and rnd.random() < 0.25:
        kws.append(kw(rnd.choice(['value_', 'default', 'required', 'choice', 'minimum', 'help']), e_str('v')))
    head, tail = kws[:1], kws[1:]
    rnd.shuffle(tail)
    if not ok and rnd.random() < 0.08:
        head = []
    pos: T.List[T.Any] = [e_str(name) if rnd.random() < 0.9 else node('bin', '+', a=[e_str(name[:1]), e_str(name[1:])])]
    if not ok and rnd.random() < 0.1:
        pos = rnd.choice([[], [e_str(name), e_str('extra')], [node('int', n=1)], [e_arr([e_str(name)])]])
    k = 'kwfirst' if not ok and rnd.random() < 0.05 and pos else 'call'
    return stmt(k, 'option', pos, head + tail)


def rand_file(rnd: random.Random) -> T.List[T.Dict[str, T.Any]]:
    n = rnd.randint(5, 30)
    depth = rnd.choice([1, 2, 3])
    pbad = rnd.choice([0.0, 0.0, 0.03, 0.1])
    names = rnd.sample(GOODNAMES, min(n, len(GOODNAMES)))
    out = []
    for i in range(n):
        name = names[i] if i < len(names) else f'opt{i}'
        bad = rnd.random() < pbad
        if bad and rnd.random() < 0.3:
            r = rnd.randrange(8)
            other = [stmt('assign', 'v', [e_str('a')], []), stmt('expr', '', [e_str('doc string')], []),
                     stmt('if', '', [e_bool(True)], []), stmt('foreach', 'i', [e_arr([])], []),
                     stmt('call', rnd.choice(['message', 'project', 'get_option', 'add_option']), [e_str('x')], []),
                     stmt('method', 'strip', [e_str('abc')], []), stmt('plusassign', 'v', [node('int', n=1)], []),
                     stmt('garbage', rnd.choice(['~', '$', '`']), [], [])][r]
            out.append(other)
            continue
        if bad and rnd.random() < 0.3:
            name = rnd.choice(BADNAMES)
        out.append(rand_decl(rnd, name, depth, 0.0 if bad else 1.0))
    if rnd.random() < 0.1 and len(out) > 2:        # a name declared twice
        out[rnd.randrange(len(out))] = dict(out[rnd.randrange(len(out))])
    return out


# deprecated groups for random tables --------------------------------------------------------

def mkopt(name: str, kind: str, choices: T.List[str], lo: int, hi: int, default: T.Any, dep: T.Dict[str, T.Any],
          desc: T.Optional[str] = None, yld: bool = False) -> T.Dict[str, T.Any]:
    return {'name': name, 'kind': kind, 'choices': choices, 'lo': lo, 'hi': hi, 'def': project_value(default),
            'yield': yld, 'dep': dep, 'desc': desc or name, 'free': False}


def dep(f: str, l: T.Optional[T.List[str]] = None, m: T.Optional[T.List[str]] = None, s: str = '') -> T.Dict[str, T.Any]:
    return {'f': f, 'l': l or [], 'm': m or [], 's': s}


def rword(w: str) -> T.Dict[str, T.Any]:
    if re.fullmatch(r'-?[0-9]+', w) and str(int(w)) == w and -99 <= int(w) <= 99:
        return {'t': 'inttxt', 'n': int(w), 'w': []}
    return {'t': 'str', 'n': 0, 'w': [w]}


def rand_group(rnd: random.Random, g: int) -> T.Tuple[T.List[T.Dict[str, T.Any]], T.List[T.Dict[str, T.Any]]]:
    """one independent group of options (an old one, possibly its replacement chain) and assignments to it."""
    old, new, third = f'g{g}-old', f'g{g}_new', f'g{g}third'
    kind = rnd.choice(['boolean', 'feature', 'combo', 'array', 'array', 'string', 'integer'])
    ch = rnd.sample(['a', 'b', 'c', 'd', 'e'], rnd.randint(2, 4))
    form = rnd.choice(['none', 'all', 'list', 'map', 'map', 'name', 'name'])
    tab: T.List[T.Dict[str, T.Any]] = []
    words: T.List[str]
    if kind == 'boolean':
        words = ['true', 'false', 'enabled', 'disabled', 'auto']
        d = {'none': dep('none'), 'all': dep('all'), 'list': dep('list', ['false']), 'name': dep('name', s=new),
             'map': dep('map', ['enabled', 'disabled', 'auto'], ['true', 'false', rnd.choice(['true', 'false'])])}[form]
        tab.append(mkopt(old, kind, [], NOBOUND, NOBOUND, rnd.random() < 0.5, d))
    elif kind == 'feature':
        words = ['enabled', 'disabled', 'auto', 'true', 'false']
        d = {'none': dep('none'), 'all': dep('all'), 'list': dep('list', ['auto']), 'name': dep('name', s=new),
             'map': dep('map', ['true', 'false'], ['enabled', 'disabled'])}[form]
        tab.append(mkopt(old, kind, [], NOBOUND, NOBOUND, rnd.choice(['enabled', 'disabled', 'auto']), d))
    elif kind == 'combo':
        words = ch + ['zz']
        d = {'none': dep('none'), 'all': dep('all'), 'list': dep('list', [ch[0]]), 'name': dep('name', s=new),
             'map': dep('map', [ch[0], 'legacy'], [ch[1], ch[-1]])}[form]
        tab.append(mkopt(old, kind, ch, NOBOUND, NOBOUND, rnd.choice(ch), d))
    elif kind == 'array':
        free = rnd.random() < 0.4
        words = ch + ['zz']
        d = {'none': dep('none'), 'all': dep('all'), 'list': dep('list', ch[:rnd.randint(1, 2)]), 'name': dep('name', s=new),
             'map': dep('map', [ch[0], 'legacy'], [ch[1], ch[-1]])}[form]
        tab.append(mkopt(old, kind, [] if free else ch, NOBOUND, NOBOUND, rnd.sample(ch, rnd.randint(0, 2)), d))
    elif kind == 'string':
        words = ['a', 'b', 'path/x', 'v1.2', '5']
        d = {'none': dep('none'), 'all': dep('all'), 'list': dep('list', ['a', 'v1.2']), 'name': dep('name', s=new),
             'map': dep('map', ['a', 'b'], ['A', 'a' if rnd.random() < 0.3 else 'B'])}[form]
        tab.append(mkopt(old, kind, [], NOBOUND, NOBOUND, rnd.choice(['', 'dflt']), d))
    else:
        words = ['0', '3', '7', '50', 'x']
        d = {'none': dep('none'), 'all': dep('all'), 'list': dep('list', ['0']), 'name': dep('name', s=new),
             'map': dep('map', ['0', '50'], ['1', '9'])}[form]
        tab.append(mkopt(old, kind, [], 0, 9, rnd.randint(0, 9), d))
    arrays_only = kind == 'array'
    if form == 'name':
        nk = rnd.choice({'boolean': ['boolean', 'feature', 'string'], 'feature': ['feature', 'boolean', 'combo'],
                         'combo': ['combo', 'string', 'array'], 'array': ['array', 'array', 'string'],
                         'string': ['string', 'combo', 'integer'], 'integer': ['integer', 'string']}[kind])
        chain = rnd.random() < 0.25 and nk == 'string'
        nd = dep('name', s=third) if chain else dep('none')
        if nk == 'boolean':
            if rnd.random() < 0.6:
                nd = dep('map', ['enabled', 'disabled', 'auto'], ['true', 'false', 'false'])
            tab.append(mkopt(new, nk, [], NOBOUND, NOBOUND, True, nd))
        elif nk == 'feature':
            if rnd.random() < 0.6:
                nd = dep('map', ['true', 'false'], ['enabled', 'disabled'])
            tab.append(mkopt(new, nk, [], NOBOUND, NOBOUND, 'auto', nd))
        elif nk == 'combo':
            nch = ch if kind in ('combo', 'array') and rnd.random() < 0.7 else ['enabled', 'disabled', 'auto', 'a', '3']
            tab.append(mkopt(new, nk, nch, NOBOUND, NOBOUND, nch[0], nd))
        elif nk == 'array':
            tab.append(mkopt(new, nk, ch if rnd.random() < 0.6 else [], NOBOUND, NOBOUND, [], nd))
        elif nk == 'string':
            tab.append(mkopt(new, nk, [], NOBOUND, NOBOUND, 'n', nd))
        else:
            tab.append(mkopt(new, nk, [], 0, 9, 5, nd))
        if chain:
            tab.append(mkopt(third, 'string', [], NOBOUND, NOBOUND, 't', dep('map', ['a'], ['A'])))
        arrays_only = arrays_only and nk == 'array'
    cl: T.List[T.Dict[str, T.Any]] = []

    def raw_for(o: T.Dict[str, T.Any], lists_ok: bool, pool: T.List[str]) -> T.Dict[str, T.Any]:
        if o['kind'] == 'array' and lists_ok:
            ws = rnd.sample(pool, rnd.randint(0, min(3, len(pool))))
            if len(ws) == 1:
                return rword(ws[0])
            return {'t': rnd.choice(['csv', 'csv', 'brk']), 'n': 0, 'w': ws}
        return rword(rnd.choice(pool))

    good = words[:-1] if rnd.random() < 0.85 else words
    r = rnd.random()
    if r < 0.8:
        cl.append({'n': old, 'r': raw_for(tab[0], arrays_only or form != 'name', good)})
    if form == 'name' and (r >= 0.8 or rnd.random() < 0.35):
        o2 = tab[1]
        pool2 = {'boolean': ['true', 'false'], 'feature': ['enabled', 'disabled', 'auto'], 'combo': o2['choices'],
                 'array': o2['choices'] or ['a', 'q'], 'string': ['s1', 's2'], 'integer': ['1', '8']}[o2['kind']]
        a2 = {'n': new, 'r': raw_for(o2, not (len(tab) > 2), pool2)}
        if rnd.random() < 0.5:
            cl.append(a2)
        else:
            cl.insert(0, a2)
    return tab, cl


def rand_cmd_case(rnd: random.Random, ngroups: int) -> T.Tuple[T.List[T.Dict[str, T.Any]], T.List[T.Dict[str, T.Any]]]:
    tab: T.List[T.Dict[str, T.Any]] = []
    cl: T.List[T.Dict[str, T.Any]] = []
    for g in range(ngroups):
        t, c = rand_group(rnd, g)
        tab += t
        if rnd.random() < 0.5:
            cl = cl + c
        else:
            cl = c + cl
    if not cl:
        cl = [{'n': tab[0]['name'], 'r': rword('a')}]
    return tab, cl


# ---------------------------------------------------------------------------
# the real CLI

INTRO_KIND = {'string': 'string', 'boolean': 'boolean', 'combo': 'combo', 'integer': 'integer', 'array': 'array'}


def intro_opt(d: T.Dict[str, T.Any]) -> T.Dict[str, T.Any]:
    kind = INTRO_KIND.get(d.get('type', ''), 'alien:' + str(d.get('type')))
    return {'name': d['name'], 'kind': kind, 'choices': [str(x) for x in d.get('choices', [])] if kind in ('combo', 'array') else [],
            'lo': NOBOUND, 'hi': NOBOUND, 'def': project_value(d['value']), 'yield': False,
            'dep': {'f': 'none', 'l': [], 'm': [], 's': ''}, 'desc': d.get('description', '')}


def _cli(job: T.Dict[str, T.Any]) -> T.Dict[str, T.Any]:
    """one `meson setup --backend=none` + `meson introspect --buildoptions` on a generated project."""
    rnd = random.Random(job['seed'])
    base = os.environ.get('VERIF_TMPDIR') or os.environ.get('TMPDIR') or '/tmp'
    import tempfile
    import shutil
    d = Path(tempfile.mkdtemp(prefix='x07-cli-', dir=base))
    try:
        src = d / 'src'
        src.mkdir()
        fname = rnd.choice(['meson.options', 'meson_options.txt'])
        if job['kind'] == 'file':
            text, start = render_file(job['f'], rnd)
            args: T.List[str] = []
        else:
            order = [j for j in range(len(job['tab'])) if '.' not in job['tab'][j]['name']]   # dotted names: built-in module options
            rnd.shuffle(order)
            text, start = render_file([opt_stmt(job['tab'][j], rnd) for j in order], rnd)
            args = ['-D' + a['n'] + '=' + raw_text(a['r']) for a in job['cl']]
        (src / fname).write_text(text, encoding='utf-8')
        mb = "project('x07', meson_version : '>= 1.1.0')\n"
        for name in job.get('getopt', []):
            mb += "message('X07VAL:%s=' + get_option('%s'))\n" % (name, name)
        (src / 'meson.build').write_text(mb, encoding='utf-8')
        env = dict(os.environ)
        env.pop('MESON_UNIT_TEST', None)
        env['LC_ALL'] = 'C.UTF-8'
        cmd = [common.PYTHON, str(common.REPO / 'meson.py'), 'setup', '--backend=none'] + args + [str(d / 'b'), str(src)]
        p = subprocess.run(cmd, stdout=subprocess.PIPE, stderr=subprocess.STDOUT, text=True, errors='replace', env=env, timeout=600)
        out = p.stdout
        res: T.Dict[str, T.Any] = {'rc': p.returncode, 'text': text, 'args': args, 'fname': fname, 'stdout': out[-3000:], 'alien': ''}
        notes = []
        for ln in out.splitlines():
            m = re.search(r'DEPRECATION: (Option ".*)$', ln)
            if m:
                n = parse_note(m.group(1))
                if n is not None:
                    notes.append(n)
        res['notes'] = notes
        res['getopt'] = {m.group(1): m.group(2) for m in re.finditer(r'^Message: X07VAL:([^=]*)=(.*)$', out, re.M)}
        res['all'] = []
        if p.returncode == 0:
            pi = subprocess.run([common.PYTHON, str(common.REPO / 'meson.py'), 'introspect', '--buildoptions', str(d / 'b')],
                                stdout=subprocess.PIPE, stderr=subprocess.PIPE, text=True, env=env, timeout=600)
            if pi.returncode != 0:
                res['alien'] = 'introspect failed: ' + pi.stderr[-300:]
                res['user'] = []
            else:
                res['all'] = [intro_opt(o) for o in json.loads(pi.stdout) if '.' in o.get('name', '')]
                res['user'] = [intro_opt(o) for o in json.loads(pi.stdout) if o.get('section') == 'user']
            res['acc'] = True
            res['at'] = 0
        else:
            res['user'] = []
            res['acc'] = False
            m2 = re.search(re.escape(fname) + r':(\d+):(\d+): ERROR', out)
            res['at'] = start.get(int(m2.group(1)), -1) if m2 else 0     # 0: the error does not point into the option file
            if 'Traceback (most recent call last)' in out or p.returncode not in (0, 1):
                res['alien'] = 'meson crashed: rc=%d %s' % (p.returncode, out.strip().splitlines()[-1][:200] if out.strip() else '')
        return res
    finally:
        shutil.rmtree(d, ignore_errors=True)


def cli_case(job: T.Dict[str, T.Any], res: T.Dict[str, T.Any]) -> T.Dict[str, T.Any]:
    extra = {'alien': res['alien'], 'text': res['text'], 'args': res['args'], 'stdout': res['stdout'], 'fname': res['fname'],
             'tag': ('replacement-cycle' if has_cycle(job['tab']) else 'no-cycle') if job['kind'] == 'cmd' else '?',
             'getopt': job.get('getopt', []), 'observe': job.get('observe', '')}
    if job['kind'] == 'file':
        return dict(id=job['id'], kind='file', view='intro', f=job['f'], acc=res['acc'], at=res['at'], opts=res['user'], **extra)
    tab = job['tab']
    byname = {o['name']: o for o in res['user']}
    for o in res.get('all', []):          # built-in module options named by a `deprecated:` replacement
        if any(t['name'] == o['name'] for t in tab):
            byname[o['name']] = dict(intro_view(next(t for t in tab if t['name'] == o['name'])), **{'def': o['def']})
    if job.get('observe') == 'get_option':
        for name, val in res.get('getopt', {}).items():
            if name in byname:
                byname[name] = dict(byname[name], **{'def': project_value(val)})
    raised = not res['acc']
    if raised and res['at'] != 0:
        extra['alien'] = extra['alien'] or 'the generated option file was rejected: ' + res['stdout'][-300:]
    # the declared table as introspection shows it: the value column is the *current* value, so the default is taken from the
    # specification's table only where no assignment can have touched it (checked by the Value clause anyway)
    otab = []
    for o in tab:
        io = byname.get(o['name'])
        if io is not None:
            otab.append(dict(io, **{'def': o['def']}))
    if raised:
        otab = [dict(intro_view(o)) for o in tab]
    vals = [byname[o['name']]['def'] if o['name'] in byname else {'t': 'none', 'n': 0, 'w': []} for o in tab]
    return dict(id=job['id'], kind='cmd', view='intro', tab=tab, cl=job['cl'], otab=otab, raised=raised, vals=vals,
                notes=res['notes'], **extra)


def intro_view(o: T.Dict[str, T.Any]) -> T.Dict[str, T.Any]:
    """placeholder table for a rejected configuration (nothing can be observed; TLC only compares `raised`)."""
    kind = 'combo' if o['kind'] == 'feature' else o['kind']
    ch = ['enabled', 'disabled', 'auto'] if o['kind'] == 'feature' else (o['choices'] if o['kind'] in ('combo', 'array') else [])
    return {'name': o['name'], 'kind': kind, 'choices': ch, 'lo': NOBOUND, 'hi': NOBOUND, 'def': o['def'], 'yield': False,
            'dep': {'f': 'none', 'l': [], 'm': [], 's': ''}, 'desc': o['desc']}


# ---------------------------------------------------------------------------
# judging with TLC

FILE_FIELDS = ('id', 'kind', 'view', 'f', 'acc', 'at', 'opts')
CMD_FIELDS = ('id', 'kind', 'view', 'tab', 'cl', 'otab', 'raised', 'vals', 'notes')


def _judge_part(part: T.List[T.Dict[str, T.Any]], label: str) -> T.Tuple[T.Any, T.List[T.Dict[str, T.Any]]]:
    with scratch('x07-') as d:
        tf = d / 'cases.json'
        tf.write_text(json.dumps([{k: c[k] for k in (FILE_FIELDS if c['kind'] == 'file' else CMD_FIELDS)} for c in part]))
        res = run_tlc(FAM, 'TraceOptFile', env={'TRACE_FILE': str(tf)}, timeout=3000, workers=6)
        bad = res.json_lines()
        if not res.clean:
            raise MachineryError(f'TraceOptFile[{label}] did not complete cleanly:\n' + res.stdout[-2500:])
        if res.distinct != 2 * len(part):
            raise MachineryError(f'TraceOptFile[{label}] judged {res.distinct // 2} of {len(part)} cases')
        nlines = sum(1 for ln in res.stdout.splitlines() if ln.strip().startswith('"{'))
        if nlines != len(bad):
            res1 = run_tlc(FAM, 'TraceOptFile', env={'TRACE_FILE': str(tf)}, timeout=3000, workers=1)
            bad = res1.json_lines()
    return res, bad


class Verdicts:
    """what one judged batch contributes; applied to the Check in the main thread."""

    def __init__(self) -> None:
        self.runs: T.List[T.Tuple[str, T.Any]] = []
        self.traces = 0
        self.viol: T.List[T.Tuple[str, T.Dict[str, T.Any]]] = []

    def apply(self, chk: Check) -> None:
        for name, res in self.runs:
            chk.add_tlc(name, res, model=False)
        chk.traces += self.traces
        for sig, detail in self.viol:
            chk.violation(sig, detail)


def surface_of(c: T.Dict[str, T.Any]) -> str:
    return 'cli' if c.get('view') == 'intro' else ('interp' if c.get('kind') == 'file' else 'store')


def judge(cases: T.List[T.Dict[str, T.Any]], label: str, surface0: str, chunk: int = 10000) -> Verdicts:
    """validate recorded executions against the specification; several TLC processes share a batch."""
    out = Verdicts()
    if not cases:
        return out
    by_id = {c['id']: c for c in cases}
    if len(by_id) != len(cases):
        raise MachineryError('duplicate case ids in batch ' + label)
    parts = list(common.chunks(cases, chunk))
    with ThreadPoolExecutor(max_workers=4) as ex:
        results = list(ex.map(lambda ip: _judge_part(ip[1], f'{label}#{ip[0]}'), enumerate(parts)))
    for no, (res, bad) in enumerate(results):
        out.runs.append((f'TraceOptFile[{label}#{no}]', res))
        out.traces += len(parts[no])
        for v in bad:
            c = by_id.get(v['id'], {})
            surface = surface_of(c) if c else surface0
            sig = f"{surface}:{v['clause']}:{v['sig']}" if v['clause'] in ('Rejection', 'RejectedAt', 'DeclaredNames', 'DeclaredTable') \
                else f"{v['clause']}:{v['sig']}"
            out.viol.append((sig, {'verdict': v, 'surface': surface, 'text': c.get('text'), 'args': c.get('args'),
                                   'case': {k: c.get(k) for k in c if k not in ('text', 'stdout')}, 'stdout': c.get('stdout')}))
    for c in cases:
        if c.get('alien'):
            surface = surface_of(c)
            out.viol.append((f"{surface}:UnexpectedException:{c['kind']}:{c['alien'].split(':')[0]}:{c.get('tag', '?')}",
                             {'case': {k: c.get(k) for k in c if k != 'stdout'}, 'surface': surface, 'stdout': c.get('stdout')}))
    return out


def _account_files(chk: Check, cases: T.List[T.Dict[str, T.Any]]) -> None:
    chk.evaluations += len(cases)
    for c in cases:
        if not c['acc'] or any(o['dep']['f'] != 'none' or o['kind'] in ('combo', 'array', 'integer') for o in c['opts']):
            chk.nontriv(json.dumps(c['f'], sort_keys=True))
    for c in cases[:: max(1, len(cases) // 2)][:2]:
        chk.sample({'id': c['id'], 'text': c['text'], 'accepted': c['acc'], 'failing_statement': c['at'], 'options': c['opts']}, limit=10)


def _account_cmds(chk: Check, cases: T.List[T.Dict[str, T.Any]]) -> None:
    chk.evaluations += len(cases)
    for c in cases:
        if c['raised'] or c['notes']:
            chk.nontriv(json.dumps([c['tab'], c['cl']], sort_keys=True))
    for c in cases[:: max(1, len(cases) // 2)][:2]:
        chk.sample({'id': c['id'], 'option_file': c['text'], 'args': c['args'], 'raised': c['raised'], 'values': c['vals'],
                    'notices': c['notes']}, limit=10)


def _spread(items: T.List[T.Any], n: int) -> T.List[T.List[T.Any]]:
    size = max(1, (len(items) + n - 1) // n)
    return [items[i:i + size] for i in range(0, len(items), size)]


# ---------------------------------------------------------------------------

def main(chk: Check) -> None:
    quick = chk.tier == 'quick'
    depth = 1 if quick else 2
    maxlen = 3
    n_rand_files = 600 if quick else 6000
    n_rand_cmds = 1500 if quick else 12000
    n_cli = 40 if quick else 400
    cmd_stride = 2 if quick else 1
    chk.rule = ('A: every one-statement option file over the big alphabet exported by OptFile_MC (every expression of depth <= d in every '
                'argument slot of option(), type x value x choices x min/max literals, names, common keywords, statement shapes) and every '
                'file of <= 3 statements over the core alphabet, through the real OptionInterpreter; every (table, command line) case of '
                'OptDeprecated_MC on a real OptionStore.  B: seeded random files of 5-30 statements, random multi-group deprecated tables '
                'with command lines in-process and through `meson setup --backend=none` + `meson introspect --buildoptions`.  Non-trivial = '
                'a rejected file / a file declaring a combo, array, integer or deprecated option / a command line that is rejected or '
                'draws a deprecation notice (distinct abstract inputs).')
    cfg_file = ('SPECIFICATION Spec\nCONSTANTS MaxLen = %d\n Depth = %d\nINVARIANT EvaluatorIsTheTypedDenotation\n'
                'INVARIANT BatchEqualsDeclarative\nINVARIANT IncrementalEqualsBatch\nINVARIANT DefaultsValid\nINVARIANT NamesValid\n'
                'INVARIANT OrderIndep\nINVARIANT Local\nINVARIANT TypeOK\nPROPERTY Monotone\nCHECK_DEADLOCK FALSE\n'
                'POSTCONDITION EmitAlphabet\n' % (maxlen, depth))
    cfg_dep = ('SPECIFICATION Spec\nCONSTANT Pairs = "%s"\nCONSTANT Pool = "%s"\nINVARIANT ValuesInDomain\nINVARIANT ProtectedEqualsDeclarative\nINVARIANT BothReadingsAllowed\n'
               'INVARIANT OrderOfAssignmentsIrrelevant\nINVARIANT NaiveDiffersOnlyWhenOvertaken\nINVARIANT RejectionOrderIrrelevant\n'
               'INVARIANT SingleLaws\nINVARIANT OnlyChainTouched\nCHECK_DEADLOCK FALSE\nPOSTCONDITION EmitCases\n'
               % (('name', 'small') if quick else ('all', 'full')))
    box: T.Dict[str, T.Any] = {}
    # All pool workers are forked here, before any thread starts a subprocess: a worker forked while another thread is inside
    # subprocess.Popen would inherit the write end of that child's stdout pipe and the reader would never see end-of-file.
    ex = ProcessPoolExecutor(max_workers=common.NCPU)
    if len(set(ex.map(_w_pid, range(common.NCPU * 4), chunksize=1))) < 1:
        raise MachineryError('worker pool did not start')

    def replay_files(items: T.List[T.Tuple[str, T.List[T.Dict[str, T.Any]]]], spread: int) -> T.List[T.Dict[str, T.Any]]:
        cases: T.List[T.Dict[str, T.Any]] = []
        for part in ex.map(_w_files, [(p, chk.seed) for p in _spread(items, spread)]):
            cases.extend(part)
        return cases

    def replay_cmds(items: T.List[T.Tuple[str, T.List[T.Dict[str, T.Any]], T.List[T.Dict[str, T.Any]]]], spread: int) -> T.List[T.Dict[str, T.Any]]:
        cases: T.List[T.Dict[str, T.Any]] = []
        for part in ex.map(_w_cmds, [(p, chk.seed) for p in _spread(items, spread)]):
            cases.extend(part)
        return cases

    def lane_files() -> T.Dict[str, T.Any]:
        """OptFile_MC, then (A) every file of its space through the real OptionInterpreter."""
        res = run_tlc(FAM, 'OptFile_MC', cfg_text=cfg_file, collect=['alphabet.json'], timeout=3000, allow_violation=False,
                      workers=8, heap='8g')
        alpha = json.loads(res.collected['alphabet.json'])
        big, core = alpha['big'], alpha['core']
        items: T.List[T.Tuple[str, T.List[T.Dict[str, T.Any]]]] = [(f'A:b{j}', [s]) for j, s in enumerate(big)]
        k = len(core)
        for n in range(0, maxlen + 1):
            for code in range(k ** n):
                idx, c = [], code
                for _ in range(n):
                    idx.append(c % k)
                    c //= k
                items.append((f'A:c{n}.{code}', [core[j] for j in idx]))
        cases = replay_files(items, common.NCPU * 4)
        return {'mc': res, 'big': len(big), 'core': len(core), 'cases': cases, 'v': judge(cases, 'A-files', 'interp')}

    def lane_dep() -> T.Dict[str, T.Any]:
        """OptDeprecated_MC, then (A) its (table, command line) cases on a real option store."""
        res = run_tlc(FAM, 'OptDeprecated_MC', cfg_text=cfg_dep, collect=['cases.json'], timeout=3000, allow_violation=False,
                      workers=8, heap='8g')
        depcases = json.loads(res.collected['cases.json'])
        tabs = depcases['tabs']
        sel = [(j, c) for j, c in enumerate(depcases['cases']) if (j + chk.seed) % cmd_stride == 0]
        citems = [(f'A:d{j}', tabs[c['p'] - 1], c['cl']) for j, c in sel]
        cases = replay_cmds(citems, common.NCPU * 4)
        return {'mc': res, 'tabs': len(tabs), 'ncases': len(depcases['cases']), 'cases': cases, 'v': judge(cases, 'A-cmds', 'store')}

    def lane_random() -> T.Dict[str, T.Any]:
        """(B) random larger files and tables in-process, and through the real CLI (subprocesses run meanwhile)."""
        jobs = []
        for j in range(n_cli):
            r3 = random.Random(f'{chk.seed}/cli{j}')
            if j % 4 == 3:
                f = rand_file(r3)[: r3.randint(3, 12)]
                jobs.append({'id': f'CLI:f{j}', 'kind': 'file', 'f': f, 'seed': f'{chk.seed}/cli{j}'})
            else:
                tab, cl = rand_cmd_case(r3, r3.randint(2, 5))
                jobs.append({'id': f'CLI:c{j}', 'kind': 'cmd', 'tab': tab, 'cl': cl, 'seed': f'{chk.seed}/cli{j}'})
        # Build-options.md "A project option is replaced by a module option" (o8 -> python.platlibdir), observed through
        # get_option() (as test cases/common/247 does) and through introspection
        mtab = [mkopt('o8', 'string', [], NOBOUND, NOBOUND, '', dep('name', s='python.platlibdir')),
                mkopt('python.platlibdir', 'string', [], NOBOUND, NOBOUND, '', dep('none'))]
        for how in ('get_option', 'introspect'):
            jobs.append({'id': f'CLI:module-{how}', 'kind': 'cmd', 'tab': mtab, 'cl': [{'n': 'o8', 'r': rword('/foo')}],
                         'seed': f'{chk.seed}/cli-mod', 'getopt': ['python.platlibdir', 'o8'], 'observe': how})
        # totality: a cycle of replacements must be rejected like any other invalid assignment
        ctab = [mkopt('a', 'string', [], NOBOUND, NOBOUND, '', dep('name', s='b')), mkopt('b', 'string', [], NOBOUND, NOBOUND, '', dep('name', s='a'))]
        jobs.append({'id': 'CLI:cycle', 'kind': 'cmd', 'tab': ctab, 'cl': [{'n': 'a', 'r': rword('x')}], 'seed': f'{chk.seed}/cli-cycle'})
        with ThreadPoolExecutor(max_workers=min(common.NCPU, 8)) as tex:
            futs = [tex.submit(_cli, job) for job in jobs]
            ritems = [(f'B:f{j}', rand_file(random.Random(f'{chk.seed}/Bf{j}'))) for j in range(n_rand_files)]
            rcases = replay_files(ritems, common.NCPU * 2)
            rc_items = []
            for j in range(n_rand_cmds):
                r2 = random.Random(f'{chk.seed}/Bc{j}')
                tab, cl = rand_cmd_case(r2, r2.randint(1, 4))
                rc_items.append((f'B:c{j}', tab, cl))
            rccases = replay_cmds(rc_items, common.NCPU * 2)
            v1 = judge(rcases + rccases, 'B', 'random', chunk=6000)
            clicases = [cli_case(job, fu.result()) for job, fu in zip(jobs, futs)]
        v2 = judge(clicases, 'CLI', 'cli')
        return {'files': rcases, 'cmds': rccases, 'cli': clicases, 'v': [v1, v2]}

    def lane(name: str, fn: T.Callable[[], T.Dict[str, T.Any]]) -> None:
        t0 = time.time()
        try:
            box[name] = fn()
        except BaseException as e:  # re-raised in the main thread
            box[name] = e
        box[name + '_wall'] = round(time.time() - t0, 1)

    lanes = {'file': lane_files, 'dep': lane_dep, 'random': lane_random}
    threads = [threading.Thread(target=lane, args=(n, f)) for n, f in lanes.items()]
    for t in threads:
        t.start()
    for t in threads:
        t.join()
    ex.shutdown()
    for name in lanes:
        if isinstance(box[name], BaseException):
            raise box[name]
    lf, ld, lr = box['file'], box['dep'], box['random']
    chk.add_tlc(f'OptFile_MC[MaxLen={maxlen},Depth={depth}]', lf['mc'])
    chk.add_tlc(f'OptDeprecated_MC[Pairs={"name" if quick else "all"}]', ld['mc'])
    chk.extra.update(big_alphabet=lf['big'], core_alphabet=lf['core'], model_max_statements=maxlen, expression_depth=depth,
                     deprecated_tables=ld['tabs'], deprecated_cases=ld['ncases'], deprecated_cases_replayed=len(ld['cases']),
                     lane_wall_s={n: box[n + '_wall'] for n in lanes})
    _account_files(chk, lf['cases'])
    lf['v'].apply(chk)
    chk.extra['files_accepted_A'] = sum(1 for c in lf['cases'] if c['acc'])
    chk.extra['files_rejected_A'] = sum(1 for c in lf['cases'] if not c['acc'])
    _account_cmds(chk, ld['cases'])
    ld['v'].apply(chk)
    _account_files(chk, lr['files'])
    _account_cmds(chk, lr['cmds'])
    for v in lr['v']:
        v.apply(chk)
    chk.extra['files_accepted_B'] = sum(1 for c in lr['files'] if c['acc'])
    chk.extra['cmds_rejected_B'] = sum(1 for c in lr['cmds'] if c['raised'])
    clicases = lr['cli']
    _account_files(chk, [c for c in clicases if c['kind'] == 'file'])
    _account_cmds(chk, [c for c in clicases if c['kind'] == 'cmd'])
    chk.extra['cli_runs'] = len(clicases)
    chk.extra['cli_rejected'] = sum(1 for c in clicases if (c['kind'] == 'file' and not c['acc']) or (c['kind'] == 'cmd' and c['raised']))
    chk.exhaustive = True
    chk.assumptions += [
        'integer option without `value`: the documentation gives no default; acceptance with any integer inside min/max and rejection are both allowed',
        'a name declared twice in one file: not documented (the tool warns "already exists"); rejection at the repeated declaration or keeping any of '
        'the clashing declarations is allowed',
        'not generated (documentation silent): f-strings and multi-line strings, dictionary keys that are not '
        'string literals but evaluate to strings, duplicate keyword arguments, duplicate dictionary keys, string values for array options '
        '(deprecated "[...]" form), boolean strings other than true/false, integer texts outside -99..99',
        'when one command sets a deprecated option that forwards to `new` and also sets `new` explicitly, the documentation does not say which of '
        'the two user assignments wins: the explicit value and the forwarded value are both allowed (nothing else); the specification proves '
        'that the set has at most these two values and that a reading in which the explicit value always wins is order independent',
        'totality: an invalid option file / assignment must be rejected with a MesonException - an exception of a type that is never input '
        'validation (AttributeError, TypeError, KeyError, IndexError, RecursionError, AssertionError, ...), raised directly or converted by a blanket '
        'handler (the MesonException carries the same text and has it as __context__), is reported; ValueError (int() of a text) is not counted; every implementation '
        'call runs under a 60 s watchdog.  The empty option name and replacement cycles (a -> b -> a, a -> a) are generated for this purpose',
        'not generated: empty descriptions, subproject-qualified assignments (-Dsub:old=v), several deprecated options forwarding different values '
        'to one replacement; module-option replacement only as the documented o8 -> python.platlibdir example',
        'comma-separated / bracketed command-line texts are only given where every option they reach is an array; words never contain "," or "["',
        'deprecation notices are compared as a set of (kind, option, value, new value) parsed from the four message forms pinned by '
        'test cases/common/247 deprecated option/test.json; other message texts are not compared',
        'through the CLI only what `meson introspect --buildoptions` shows is compared (name, type, choices, description, current value)',
    ]


def replay(chk: Check, data: T.Dict[str, T.Any]) -> None:
    """re-run the recorded case on the current tree and judge it again."""
    det = data['detail']
    c = det['case']
    rnd = random.Random('replay')
    if det.get('surface') == 'cli':
        job = dict(c, seed='replay')
        res = _cli(job)
        judge([cli_case(job, res)], 'replay', 'cli').apply(chk)
    elif c['kind'] == 'file':
        judge(_w_files(([(c['id'], c['f'])], chk.seed)), 'replay', 'interp').apply(chk)
    else:
        judge(_w_cmds(([(c['id'], c['tab'], c['cl'])], chk.seed)), 'replay', 'store').apply(chk)
    del rnd


if __name__ == '__main__':
    sys.exit(common.run_check(main, PROP, replay=replay))
