"""X08 - find_program() resolves by the documented search order; overrides happen before use.

Specification: specs/findprog/FindProgram.tla (written from find_program.yaml, meson.yaml, Machine-files.md, the wrap
manual, Subprojects.md, the release notes and the pinned test projects).
  1. TLC model-checks FindProgram_MC on bounded families of environments (native builds with two names, cross
     builds with two machines, a small family for the two expensive laws): OverrideWins, SystemOrder,
     ForcedNeverUsesSystem, NofallbackNeverConfigures, RequiredContract, VersionMismatchIsNotFound, CacheStable,
     OverrideBeforeUse, MachinesIsolated, OperationalEqualsDeclarative, ... over every reachable state, the next
     statement and every reading of the open points.  Each run exports its environments and statements.
  2. (A) sessions over that exported space (every environment in the thorough tier) and (B) seeded random longer
     sessions over a wider space (three names, all wrap modes, feature options, cross and native) are rendered into
     real project trees (wrapper subprojects, provider wraps, scripts, a scratch PATH, machine files) and run with
     ``meson setup --backend=none``; TraceFindProgram (TLC) judges what the build definitions observed.
"""
from __future__ import annotations

import json
import random
import sys
import typing as T
from concurrent.futures import ThreadPoolExecutor

from . import common, findprog_drv as fd
from .common import Check, MachineryError, SPECS, run_tlc, scratch

PROP = 'X08'

CHEAP = ('TypeOK', 'FindLaws', 'OverrideLaws')
DEEP = ('RelevantReadingsSuffice', 'CacheStable')


def mc_cfg(inv: T.Sequence[str], props: T.Sequence[str] = (), **kw: str) -> str:
    c = {'MaxSteps': '1', 'VBIN': '{0, 3}', 'VXD': '{0, 3}', 'VA': '{0, 3}', 'VSD': '{0}', 'ProvA': '{"none", "ovr"}',
         'BProfiles': '{"nowhere"}', 'WMs': '{"default", "nofallback", "forcefallback"}', 'FFFs': '{{}}', 'CrossFamily': 'FALSE',
         'NameSeqIds': '{"a"}', 'MCReqs': '{"true", "false", "disabled"}', 'MCCons': '{"any", "ge2"}',
         'MCSites': '{"root", "sd"}', 'MCDirs': '{TRUE, FALSE}', 'SubV': '3', 'MainV': '1', 'ProjV': '3'}
    c.update(kw)
    t = 'SPECIFICATION Spec\nCONSTANTS\n' + ''.join(f' {k} = {v}\n' for k, v in c.items())
    t += ''.join(f'INVARIANT {i}\n' for i in inv) + ''.join(f'PROPERTY {p}\n' for p in props)
    return t + 'CHECK_DEADLOCK FALSE\nPOSTCONDITION EmitSpace\n'


def model_runs(tier: str) -> T.List[T.Tuple[str, str]]:
    """(name, cfg text) of the model-checking runs of a tier.  Sizes follow the measured cost of ~0.1 ms per evaluation
    of Step (about 300 evaluations per state for the cheap laws, thousands for the two deep ones)."""
    frozen = ('UsedNamesAreFrozen',)
    if tier == 'quick':
        return [
            # native builds, two names, every combination of the system sources of "a" (incl. wrong versions)
            ('native', mc_cfg(CHEAP, frozen, VXD='{0, 1, 3}', VA='{0, 1, 3}', BProfiles='{"nowhere", "path3"}',
                              NameSeqIds='{"a", "ab"}', WMs='{"default"}')),
            # providers of every style under nofallback / forcefallback / force_fallback_for
            ('forced', mc_cfg(CHEAP, VXD='{0}', ProvA='{"ovr", "noovr", "broken"}', BProfiles='{"prov"}',
                              NameSeqIds='{"a", "ba"}', WMs='{"nofallback", "forcefallback"}', FFFs='{{}, {"a"}}', MCDirs='{FALSE}')),
            # cross builds: two machines, native and cross file
            ('cross', mc_cfg(CHEAP + ('MachineLaws',), CrossFamily='TRUE', WMs='{"default", "forcefallback"}', MCCons='{"any"}')),
            ('deep', mc_cfg(DEEP + ('NativeLaws',), VXD='{0}', ProvA='{"ovr"}', BProfiles='{"path3"}', NameSeqIds='{"a", "ab"}',
                            WMs='{"default"}', MCSites='{"root"}', MCDirs='{FALSE}', MCReqs='{"true", "false"}')),
        ]
    return [
        ('native', mc_cfg(CHEAP, frozen, MaxSteps='2', VXD='{0, 1, 3}', VA='{0, 1, 3}', BProfiles='{"nowhere", "path3"}',
                          NameSeqIds='{"a", "ab"}', WMs='{"default"}', MCSites='{"root"}')),
        # the two calling directories (root / subdir) with scripts of both versions in each
        ('sites', mc_cfg(CHEAP, VSD='{0, 1, 3}', BProfiles='{"nowhere", "root1path3"}', NameSeqIds='{"a", "ba"}',
                         WMs='{"default"}')),
        ('forced', mc_cfg(CHEAP, frozen, MaxSteps='2', VXD='{0}', ProvA='{"none", "ovr", "noovr", "broken"}',
                          BProfiles='{"prov", "provpath1"}', NameSeqIds='{"a", "ab", "ba"}', FFFs='{{}, {"a"}, {"b"}}',
                          MCDirs='{FALSE}')),
        ('cross', mc_cfg(CHEAP + ('MachineLaws',), frozen, MaxSteps='2', CrossFamily='TRUE', VBIN='{0, 1, 3}',
                         ProvA='{"none", "ovr", "broken"}')),
        ('deep', mc_cfg(DEEP + ('NativeLaws',), VXD='{0}', BProfiles='{"nowhere", "path3"}', NameSeqIds='{"a", "ab"}',
                        WMs='{"default", "forcefallback"}', MCSites='{"root"}', MCDirs='{FALSE}')),
    ]


# ---------------------------------------------------------------------------------------------
# sessions

def sessions_from_space(space: T.Dict[str, T.Any], label: str, n_envs: T.Optional[int], per_env: int,
                        rnd: random.Random) -> T.List[fd.Session]:
    """(A): sessions over the environments and statements a model-checking run exported."""
    envs = space['envs']
    evs = space['events']
    finds = [e for e in evs if e['op'] == 'find']
    others = [e for e in evs if e['op'] != 'find']
    chosen = envs if n_envs is None or n_envs >= len(envs) else rnd.sample(envs, n_envs)
    out: T.List[fd.Session] = []
    for env in chosen:
        for _ in range(per_env):
            u = rnd.random()
            if u < 0.3:          # one lookup, repeated (stability on the implementation)
                e = rnd.choice(finds)
                seq = [e, e] if rnd.random() < 0.7 else [e, e, e]
            elif u < 0.5:        # the check-if-found-else-override workflow and its violations
                e = rnd.choice(finds)
                o = rnd.choice([x for x in others if x['names'][0] in e['names']] or others)
                seq = [e, o, e]
            else:
                seq = []
                for _ in range(rnd.choice((2, 3, 3, 4))):
                    seq.append(rnd.choice(finds) if rnd.random() < 0.65 or not others else rnd.choice(others))
            out.append({'id': f'{label}{len(out)}', 'env': env, 'evs': seq})
    return out


def random_env(rnd: random.Random) -> T.Dict[str, T.Any]:
    cross = rnd.random() < 0.35
    dens = rnd.choice((0.15, 0.3, 0.5))

    def ver() -> int:
        return rnd.choice((1, 2, 3)) if rnd.random() < dens else 0

    env: T.Dict[str, T.Any] = {
        'wm': rnd.choice(('default', 'default', 'nofallback', 'forcefallback', 'nodownload', 'nopromote')),
        'cross': cross,
        'nat': {n: ver() for n in fd.NAMES},
        'crs': {n: (ver() if cross else 0) for n in fd.NAMES},
        'xd': {n: ver() for n in fd.NAMES},
        'path': {n: ver() for n in fd.NAMES},
        'src': {'root': {n: ver() for n in fd.NAMES}, 'sd': {n: ver() for n in fd.NAMES}},
        'prov': {n: rnd.choice(('none', 'none', 'ovr', 'ovr', 'noovr', 'broken')) for n in fd.NAMES},
        'subv': {n: rnd.choice((1, 2, 3)) for n in fd.NAMES},
        'mainv': rnd.choice((1, 2, 3)), 'projv': rnd.choice((1, 2, 3)),
    }
    env['fff'] = sorted(n for n in fd.NAMES if rnd.random() < 0.2)
    return env


def random_event(rnd: random.Random, env: T.Dict[str, T.Any]) -> T.Dict[str, T.Any]:
    native = env['cross'] and rnd.random() < 0.4 or (not env['cross'] and rnd.random() < 0.1)
    u = rnd.random()
    n = rnd.choice(fd.NAMES)
    base = {'req': 'true', 'native': native, 'con': 'any', 'dirs': False, 'site': 'root', 'dis': False, 'okind': ''}
    if u < 0.68:
        names = [n]
        if rnd.random() < 0.3:
            names.append(rnd.choice([x for x in fd.NAMES if x != n]))
        base.update({'op': 'find', 'names': names,
                     'req': rnd.choice(('true', 'true', 'true', 'false', 'false', 'enabled', 'auto', 'disabled')),
                     'con': rnd.choice(('any', 'any', 'ge2', 'lt2')), 'dirs': rnd.random() < 0.4,
                     'site': 'sd' if rnd.random() < 0.3 else 'root', 'dis': rnd.random() < 0.15})
    elif u < 0.86:
        base.update({'op': 'override', 'names': [n], 'okind': rnd.choice(('prog', 'prog', 'file'))})
    else:
        base.update({'op': 'sub', 'names': [n], 'req': rnd.choice(('true', 'false'))})
    return base


def random_sessions(count: int, rnd: random.Random) -> T.List[fd.Session]:
    """(B): longer sessions over a wider space than the model's."""
    out = []
    for i in range(count):
        env = random_env(rnd)
        evs = [random_event(rnd, env) for _ in range(rnd.randint(4, 9))]
        out.append({'id': f'B{i}', 'env': env, 'evs': evs})
    return out


# ---------------------------------------------------------------------------------------------
# judging

FIELDS = ('id', 'env', 'evs', 'obs', 'rc')


def tlc_judge(cases: T.List[T.Dict[str, T.Any]], nproc: int = 1) -> T.Tuple[T.List[T.Dict[str, T.Any]], T.List[common.TLCResult]]:
    """Run TraceFindProgram over the cases; returns the non-"ok" verdicts."""
    verdicts: T.List[T.Dict[str, T.Any]] = []
    results = []
    parts = [cases[i::nproc] for i in range(nproc)] if nproc > 1 and len(cases) > 200 else [cases]

    def one(part: T.List[T.Dict[str, T.Any]]) -> T.Tuple[T.List[T.Dict[str, T.Any]], common.TLCResult]:
        with scratch('x08t-') as d:
            tf = d / 'cases.json'
            tf.write_text(json.dumps([{k: c[k] for k in FIELDS} for c in part]))
            res = run_tlc(SPECS / 'findprog', 'TraceFindProgram', env={'TRACE_FILE': str(tf)}, timeout=3600)
            if not res.clean:
                raise MachineryError('TraceFindProgram did not complete cleanly:\n' + res.stdout[-2500:])
            if res.distinct != 2 * len(part):
                raise MachineryError(f'TraceFindProgram judged {res.distinct // 2} of {len(part)} cases')
            return res.json_lines(), res

    with ThreadPoolExecutor(max_workers=len(parts)) as ex:
        for vs, res in ex.map(one, [p for p in parts if p]):
            verdicts.extend(vs)
            results.append(res)
    return verdicts, results


def pair(o: T.Dict[str, T.Any], names: T.Sequence[str] = ()) -> str:
    pos = f"#{names.index(o['name']) + 1}" if len(names) > 1 and o.get('name') in names else ''
    return o['kind'] + (':' + o['src'] if o.get('src') else '') + pos


def signature(v: T.Dict[str, T.Any], c: T.Dict[str, T.Any]) -> str:
    """The failing statement, normalised: the law; for the laws about one mechanism what the specification itself
    says about the deviation; otherwise the shape of the statement and the expected / observed outcome classes."""
    step = v.get('step') or 0
    if not c or not step or step > len(c['evs']):
        return f"{v['clause']}@{'session' if c else '?'}"
    ev = c['evs'][step - 1]
    env = c['env']
    names = ev['names'] if ev['op'] == 'find' else ()
    exp = sorted({pair(o, names) for o in v.get('expected', [])})
    got = pair(v['got'], names)
    if v['clause'] == 'SystemOrder' and v.get('order'):
        # the observation is what the search order <order> (instead of the documented one) gives
        return 'SystemOrder|observed order of the system sources: ' + ' < '.join(v['order'])
    if ev['op'] == 'find':
        reqc = 'required' if ev['req'] in ('true', 'enabled') else ev['req'] if ev['req'] == 'disabled' else 'optional'
        if v['clause'] in ('NofallbackNeverConfigures', 'ForcedAppliesToEveryName', 'SubprojectsPerMachine'):
            return f"{v['clause']}|{reqc} lookup"
        provs = sorted({env['prov'][n] for n in ev['names']})
        forced = any(env['prov'][n] != 'none' and (env['wm'] == 'forcefallback' or n in env['fff']) for n in ev['names'])
        wm = 'forced' if forced else 'nofallback' if env['wm'] == 'nofallback' else 'default'
        shape = (f"find[{len(ev['names'])} name(s),{reqc},{'version' if ev['con'] != 'any' else 'anyversion'},"
                 f"{'dirs' if ev['dirs'] else 'nodirs'},{'native' if ev['native'] and env['cross'] else 'host'},"
                 f"prov={'+'.join(provs)},{wm}]")
    else:
        if v['clause'] == 'SubprojectsPerMachine':
            return 'SubprojectsPerMachine|subproject()'
        shape = ev['op'] + ('[native]' if ev['native'] and env['cross'] else '')
    return f"{v['clause']}|{shape}|expected={','.join(exp) or '-'}|got={got}"


def nontrivial(c: T.Dict[str, T.Any]) -> bool:
    kinds = {pair(o) for o in c['obs']}
    subs = {tuple(o['sub']) for o in c['obs']}
    return len(kinds) > 1 or len(subs) > 1 or any(k not in ('found:path', 'notfound') for k in kinds)


def run_and_judge(chk: Check, parts: T.List[T.Tuple[str, T.List[fd.Session], bool]], per_project: int) -> None:
    """parts: (label, sessions, with dud files).  All projects of all parts share one pool of workers."""
    jobs = []
    sessions: T.List[fd.Session] = []
    duds_of: T.Dict[str, bool] = {}
    for label, ss_all, duds in parts:
        rnd = random.Random(f'x08-layout-{chk.seed}-{label}')
        sessions += ss_all
        groups: T.Dict[T.Tuple[str, bool], T.List[fd.Session]] = {}
        for s in ss_all:
            duds_of[s['id']] = duds
            groups.setdefault((s['env']['wm'], bool(s['env']['cross'])), []).append(s)
        for (wm, cross), ss in sorted(groups.items()):
            rnd.shuffle(ss)
            for n, part in enumerate(common.chunks(ss, per_project)):
                jobs.append((f'{label}-{wm}-{int(cross)}-{n}', wm, cross, list(part), chk.seed, duds))
    observed: T.Dict[str, T.Dict[str, T.Any]] = {}
    totals = {'setups': 0, 'whole_run_died': 0, 'exit_status_observed': 0, 'unobserved': 0}
    jobs.sort(key=lambda j: -len(j[3]))
    with ThreadPoolExecutor(max_workers=common.NCPU) as ex:
        for done, stats in ex.map(fd.worker, jobs):
            observed.update(done)
            for k in totals:
                totals[k] += stats[k]
    chk.extra['meson_runs'] = dict(totals, sessions={label: len(ss) for label, ss, _ in parts})
    cases = []
    for s in sessions:
        o = observed.get(s['id'])
        if o is None:
            continue
        cases.append({'id': s['id'], 'env': s['env'], 'evs': s['evs'], 'obs': o['obs'], 'rc': o['rc'], 'died': o['died']})
    if len(cases) + totals['unobserved'] < len(sessions):
        raise MachineryError(f'X08: {len(sessions) - len(cases)} sessions were not observed')
    bad, results = tlc_judge(cases, nproc=4)
    for i, r in enumerate(results):
        chk.add_tlc(f'TraceFindProgram[{i}]', r, model=False)
    chk.traces += len(cases)
    chk.evaluations += sum(len(c['obs']) for c in cases)
    rejected = chk.extra.setdefault('sessions_rejected_by_signature', {})
    for c in cases:
        if nontrivial(c):
            chk.nontriv(fd.env_key(c['env']) + '|' + ';'.join(fd.ev_key(e) for e in c['evs']))
    for c in cases[:: max(1, len(cases) // 6)][:6]:
        chk.sample({'id': c['id'], 'environment': fd.env_key(c['env']), 'statements': [fd.ev_key(e) for e in c['evs']],
                    'observed': [pair(o) + (f"/{o['name']}/v{o['v']}" if o['kind'] == 'found' else '') for o in c['obs']],
                    'exit_status': c['rc']}, limit=9)
    by_id = {c['id']: c for c in cases}
    for v in bad:
        c = by_id.get(v['id'], {})
        sig = signature(v, c)
        rejected[sig] = rejected.get(sig, 0) + 1
        chk.violation(sig, {'verdict': v, 'env': c.get('env'), 'evs': c.get('evs'), 'observed': c.get('obs'),
                            'rc': c.get('rc'), 'seed': chk.seed, 'duds': duds_of.get(v['id'], False),
                            'statements': [fd.ev_key(e) for e in c.get('evs', [])]})
    for c in cases:
        if c['died']:
            chk.violation('WholeRunDied|' + fd.ev_key(c['evs'][len(c['obs']) - 1]),
                          {'what': 'an error inside subproject(..., required: false) ended the whole configuration',
                           'env': c['env'], 'evs': c['evs'], 'observed': c['obs'], 'rc': c['rc'], 'seed': chk.seed,
                           'duds': duds_of.get(c['id'], False)})
    if totals['unobserved']:
        chk.assumptions.append(f"{totals['unobserved']} sessions were left unobserved after repeated dying runs "
                               '(each dying run is itself reported)')


# ---------------------------------------------------------------------------------------------

def main(chk: Check) -> None:
    quick = chk.tier == 'quick'
    chk.rule = ('a session = one environment (where each name exists: overrides, wrap provider, [binaries], dirs, source '
                'directories, PATH; wrap mode, force_fallback_for, native/cross) + 2-9 statements; non-trivial = the observations of '
                'the session are not all the same, or a provider subproject was configured, or an answer is neither "found on '
                'PATH" nor "not found" (distinct abstract sessions)')
    rnd = random.Random(f'x08-sessions-{chk.seed}')
    runs = model_runs(chk.tier)

    def model(nc: T.Tuple[str, str]) -> common.TLCResult:
        return run_tlc(SPECS / 'findprog', 'FindProgram_MC', cfg_text=nc[1], collect=['findprog_space.json'], timeout=5400,
                       allow_violation=False)

    with ThreadPoolExecutor(max_workers=len(runs)) as ex:
        results = list(ex.map(model, runs))
    sessions: T.List[fd.Session] = []
    for (name, _), res in zip(runs, results):
        chk.add_tlc(f'FindProgram_MC[{name}]', res)
        space = json.loads(res.collected['findprog_space.json'])
        chk.extra[f'model_{name}'] = {'environments': len(space['envs']), 'statements': len(space['events'])}
        if name == 'deep':
            continue
        sessions += sessions_from_space(space, 'A' + name[0], 200 if quick else None, 3 if quick else 8, rnd)
    run_and_judge(chk, [('A', sessions, False),
                        ('B', random_sessions(1500 if quick else 12000, random.Random(f'x08-random-{chk.seed}')), True)],
                  40 if quick else 80)
    # the model-checking runs are exhaustive within their bounds; the sessions run through meson are a seeded sample
    # (thorough: every exported environment, 8 sessions each)
    chk.exhaustive = False
    chk.assumptions += [
        'one wrap per program name; the provider subproject overrides only that name (a provider that fails half way through '
        'several overrides is not modelled)',
        'find_program() calls name at most two alternatives; with three the implementation mixes the two documented nestings '
        '(sources of one name first / all names of one source first) in a way neither reading predicts',
        'open points of the documents are accepted every way (FindProgram!Readings): nesting of names and sources, whether a '
        'version mismatch ends the search of the system, whether an optional lookup uses the [provide] fallback, whether unused '
        'alternative names of a successful lookup count as "already found"',
        '[binaries] entries are absolute paths of existing programs (a missing or relative entry is not generated); names are '
        'plain file names (no absolute-path names, no file objects, no python3 / meson special cases)',
        'version_argument:, default_options:, override with an executable() target and programs whose --version fails are not '
        'generated; PATH has a single directory',
        'wrap_mode nodownload/nopromote behave like default (subproject sources are local)',
    ]


def replay(chk: Check, data: T.Dict[str, T.Any]) -> None:
    det = data['detail']
    ses = {'id': 'replay', 'env': det['env'], 'evs': det['evs']}
    done, _ = fd.worker(('replay', det['env']['wm'], bool(det['env']['cross']), [ses], det.get('seed', 0), det.get('duds', False)))
    o = done['replay']
    case = {'id': 'replay', 'env': ses['env'], 'evs': ses['evs'], 'obs': o['obs'], 'rc': o['rc']}
    bad, _ = tlc_judge([case])
    for v in bad:
        chk.violation(signature(v, case), {'verdict': v, 'env': case['env'], 'evs': case['evs'], 'observed': case['obs'],
                                           'rc': case['rc'], 'seed': det.get('seed', 0), 'duds': det.get('duds', False)})
    if o['died']:
        chk.violation('WholeRunDied|' + fd.ev_key(case['evs'][len(case['obs']) - 1]), {'env': case['env'], 'evs': case['evs']})


if __name__ == '__main__':
    sys.exit(common.run_check(main, PROP, replay=replay))
