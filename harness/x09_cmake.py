"""X09 - the text-processing parts of Meson's CMake interoperability behave as the CMake manual prescribes.

1. TLC model-checks specs/cmakeinterop/Genex_MC (every well-typed generator expression of a bounded space, rewritten in
   every order: total, confluent, the manual's algebraic laws) and CMakeFold_MC (every command sequence over a fixed
   alphabet up to a bound: fold = per-target slice, commuting commands, APPEND keeps, INTERFACE stays out, cache needs
   FORCE, delayed calls = moved calls).
2. (A) the model's expression space and the model's command alphabet (both exported by the TLC runs) are rendered to
   text / trace lines (json-v1 and human format) and given to the real ``parse_generator_expressions`` and
   ``CMakeTraceParser``; what they return is judged by TraceGenex / TraceCMakeFold (TLC).
3. (B) random larger expressions in random target tables, arbitrary `$<` text (totality, watchdog), random long command
   sequences (state observed after every command), and command sequences traced by the REAL cmake.
4. The real cmake is a second witness of the rule book wherever that is cheap (file(GENERATE) for expressions,
   get_property for folded state): cmake disagreeing with the spec is a machinery error, never a violation.
5. cmake_defines_to_args / _flags_to_list against CMakeHelpers (CMake-module.md; POSIX shell words, reusing Quoting).
"""
from __future__ import annotations

import itertools
import json
import random
import sys
import typing as T
from concurrent.futures import ProcessPoolExecutor, ThreadPoolExecutor

from . import common
from . import cmakeinterop_fold as F
from . import cmakeinterop_genex as G
from .common import Check, MachineryError, SPECS, run_tlc, scratch

PROP = 'X09'
FAM = SPECS / 'cmakeinterop'


# ---------------------------------------------------------------------------
# judging with TLC

def _run_trace_spec(module: str, payload: T.Any, n_cases: int, label: str) -> T.Tuple[T.Any, T.List[T.Dict[str, T.Any]]]:
    with scratch('x09-') as d:
        tf = d / 'cases.json'
        tf.write_text(json.dumps(payload))
        res = run_tlc(FAM, module, env={'TRACE_FILE': str(tf)}, timeout=3000, workers=4, heap='4g')
        if not res.clean:
            raise MachineryError(f'{module}[{label}] did not complete cleanly:\n' + res.stdout[-2000:])
        if res.distinct != 2 * n_cases:
            raise MachineryError(f'{module}[{label}] judged {res.distinct // 2} of {n_cases} cases')
        bad = res.json_lines()
        if bad:
            res1 = run_tlc(FAM, module, env={'TRACE_FILE': str(tf)}, timeout=3000, workers=1, heap='4g')
            bad = res1.json_lines()
    return res, bad


def judge(chk: Check, module: str, payloads: T.List[T.Tuple[T.Any, int]], label: str) -> T.List[T.Dict[str, T.Any]]:
    """Run the trace spec on every payload (a few TLC processes at a time); returns all non-ok verdicts."""
    out: T.List[T.Dict[str, T.Any]] = []
    with ThreadPoolExecutor(max_workers=4) as tp:
        futs = [tp.submit(_run_trace_spec, module, p, n, f'{label}#{k}') for k, (p, n) in enumerate(payloads)]
        for k, f in enumerate(futs):
            res, bad = f.result()
            chk.add_tlc(f'{module}[{label}#{k}]', res, model=False)
            chk.traces += payloads[k][1]
            out.extend(bad)
    return out


def _chunks(xs: T.List[T.Any], n: int) -> T.List[T.List[T.Any]]:
    return [xs[i:i + n] for i in range(0, len(xs), n)] or [[]]


# ---------------------------------------------------------------------------
# generator expressions

def _count_nodes(p: T.List[T.Dict[str, T.Any]]) -> int:
    return sum(0 if nd['k'] == 'lit' else 1 + sum(_count_nodes(q) for q in nd['a']) for nd in p)


def genex_signature(v: T.Dict[str, T.Any], c: T.Dict[str, T.Any]) -> str:
    if c.get('ty') == 'raw':
        t = c['t']
        shape = 'deep-nesting' if t.count('$<') > 300 else ('IF' if 'IF' in t else 'other')
        return f"genex:{v['clause']}:raw:{v.get('raised') or '-'}:{shape}"
    if v['bad']:
        b = v['bad'][0]
        sig = f"genex:{b['clause']}:{b['op']}/{b['arity']}:{b['cls']}"
        if b['cls'] == 'plain' or b['clause'] != 'Value':
            sig += f":exp={b['exp']}:got={b['got']}"
        return sig
    return f"genex:{v['clause']}:top:{c.get('text', '')[:120]}"


def genex_pipeline(chk: Check, ex: ProcessPoolExecutor, cases: T.List[T.Dict[str, T.Any]], ctxs: T.List[T.Dict[str, T.Any]],
                   label: str, tmp: T.Any, witness: bool = True) -> None:
    # the real code, in worker processes
    parts = list(ex.map(G.run_cases, _chunks(cases, 400), itertools.repeat(ctxs)))
    cases = [c for part in parts for c in part]
    # the real cmake as second witness (tree cases only)
    for c in cases:
        c['w'], c['wx'] = '', 'skip'
    if witness:
        jobs, index = [], []
        for cx in range(1, len(ctxs) + 1):
            mine = [c for c in cases if c['cx'] == cx and c['ty'] != 'raw']
            for k, part in enumerate(_chunks(mine, 1500)):
                if part:
                    jobs.append((ctxs[cx - 1], [c['text'] for c in part], str(tmp / f'w-{label}-{cx}-{k}')))
                    index.append(part)
        for part, res in zip(index, ex.map(G.cmake_witness, jobs)):
            for c, (val, st) in zip(part, res):
                c['w'], c['wx'] = val, st
    chk.evaluations += len(cases)
    for c in cases:
        if c['ty'] != 'raw' and _count_nodes(c['p']) >= 2:
            chk.nontriv('g:' + c['text'])
    for c in cases[:: max(1, len(cases) // 2)][:2]:
        chk.sample({'part': 'genex', 'id': c['id'], 'text': c.get('text', c.get('t')), 'meson': c['o'], 'raised': c['x'],
                    'cmake': c['w'] if c['wx'] == 'ok' else c['wx']}, limit=12)
    fields = ('id', 'cx', 'ty', 'p', 't', 'o', 'x', 'w', 'wx')
    payloads = []
    for part in _chunks(cases, 6000):
        payloads.append(({'ctxs': ctxs, 'cases': [{k: c.get(k, [] if k == 'p' else '') for k in fields} for c in part]}, len(part)))
    by_id = {c['id']: c for c in cases}
    for v in judge(chk, 'TraceGenex', payloads, label):
        c = by_id[v['id']]
        detail = {'verdict': v, 'text': c.get('text', c.get('t')), 'ctx': ctxs[c['cx'] - 1], 'case': {k: c.get(k) for k in fields}}
        if v['clause'] == 'WitnessDisagreesWithSpec':
            raise MachineryError('the real cmake disagrees with the rule book (spec fault, not a violation): '
                                 + json.dumps({'text': detail['text'], 'cmake': c['w'], 'cmake_status': c['wx'],
                                               'spec': v['expected'], 'ctx': detail['ctx']}))
        chk.violation(genex_signature(v, c), detail)


def part_genex(chk: Check, ex: ProcessPoolExecutor, tmp: T.Any) -> None:
    quick = chk.tier == 'quick'
    level = 2 if quick else 3
    cfg = ('SPECIFICATION Spec\nCONSTANTS Level = %d\nINVARIANT Total\nINVARIANT BoolIsBit\nINVARIANT SubjectReduction\n'
           'INVARIANT NormalForm\nINVARIANT StuckIsError\nINVARIANT PlainTextUnchanged\nINVARIANT NotNotIsBool\n'
           'INVARIANT BoolIdempotent\nINVARIANT DeMorgan\nINVARIANT IfIsTwoConditionals\nINVARIANT VersionTotalOrder\n'
           'INVARIANT EqualIsNumeric\nPROPERTY Terminates\nCHECK_DEADLOCK FALSE\nPOSTCONDITION EmitSpace\n' % level)
    res = run_tlc(FAM, 'Genex_MC', cfg_text=cfg, collect=['genex_space.json'], timeout=3400, allow_violation=False, heap='8g')
    chk.add_tlc(f'Genex_MC[Level={level}]', res)
    exported = json.loads(res.collected['genex_space.json'])
    ctx0, space = exported['ctx'], exported['space']
    chk.extra['genex_model_space'] = len(space)
    # (A) the model's space, in the model's context and in the same context with a Debug configuration
    ctxs = [ctx0, dict(ctx0, debug=True)]
    cases = [{'id': f'gA{i}', 'cx': 1, 'ty': s['ty'], 'p': s['p']} for i, s in enumerate(space)]
    cases += [{'id': f'gAd{i}', 'cx': 2, 'ty': s['ty'], 'p': json.loads(json.dumps(s['p']))} for i, s in enumerate(space)
              if 'TARGET_FILE' in json.dumps(s['p']) or 'TARGET_LINKER_FILE' in json.dumps(s['p'])]
    genex_pipeline(chk, ex, cases, ctxs, 'A', tmp)
    # (B) random larger expressions in random contexts
    n_ctx, per_ctx, n_raw = (30, 50, 3000) if quick else (400, 120, 60000)
    rnd = random.Random(chk.seed * 9176 + 11)
    ctxs, cases = [], []
    for cx in range(1, n_ctx + 1):
        ctx = G.random_ctx(rnd)
        ctxs.append(ctx)
        gen = G.Gen(rnd, ctx)
        for j in range(per_ctx):
            d = rnd.choice([2, 3, 3, 4, 5])
            p = gen.b(d) if rnd.random() < 0.4 else gen.s(d)
            if rnd.random() < 0.3:           # embedded in plain text, as in a real property value
                p = [G.lit(rnd.choice(['-I', '-D', 'lib', '/opt/', 'a;']))] + p + [G.lit(rnd.choice(['', '/x', ';b', '.so']))]
            cases.append({'id': f'gB{cx}.{j}', 'cx': cx, 'ty': 'b', 'p': p})
    genex_pipeline(chk, ex, cases, ctxs, 'B', tmp)
    # totality on arbitrary text: no exception, no hang; text without `$<` unchanged
    raw = [{'id': f'gR{j}', 'cx': 1, 'ty': 'raw', 't': t} for j, t in enumerate(G.raw_texts(rnd, n_raw))]
    for depth in (40, 300, 1200):
        raw.append({'id': f'gRdeep{depth}', 'cx': 1, 'ty': 'raw', 't': '$<1:' * depth + 'x' + '>' * depth})
        raw.append({'id': f'gRopen{depth}', 'cx': 1, 'ty': 'raw', 't': '$<BOOL:' * depth})
    genex_pipeline(chk, ex, raw, [ctx0], 'raw', tmp, witness=False)


# ---------------------------------------------------------------------------
# trace folding

def fold_signature(v: T.Dict[str, T.Any], c: T.Dict[str, T.Any]) -> str:
    fmt = c['fmt'].split('-')[0]
    return f"fold:{fmt}:{v['clause']}:{v['rule']}"


def _fold_payload(cases: T.List[T.Dict[str, T.Any]], alphabet: T.Any, prelude: T.Any) -> T.Tuple[T.Any, int]:
    out = []
    for c in cases:
        out.append({'id': c['id'], 'cmds': [] if c.get('ix') else c['cmds'], 'ix': [i + 1 for i in c.get('ix', [])],
                    'obs': c['obs'], 'w': c.get('w', [])})
    return ({'alphabet': alphabet, 'prelude': prelude, 'cases': out}, len(out))


def fold_report(chk: Check, verdicts: T.List[T.Dict[str, T.Any]], by_id: T.Dict[str, T.Dict[str, T.Any]]) -> T.Set[str]:
    failed = set()
    for v in verdicts:
        c = by_id[v['id']]
        failed.add(v['id'])
        detail = {'verdict': v, 'fmt': c['fmt'], 'cmds': c['cmds'], 'vn': c.get('vn'), 'ks': c.get('ks'), 'observed': c['obs'],
                  'cmake': c.get('w', [])}
        if v['clause'] == 'WitnessDisagreesWithSpec':
            raise MachineryError('the real cmake disagrees with the rule book (spec fault, not a violation): ' + json.dumps(detail)[:3000])
        chk.violation(fold_signature(v, c), detail)
    return failed


def part_fold(chk: Check, ex: ProcessPoolExecutor, tmp: T.Any) -> None:
    quick = chk.tier == 'quick'
    maxlen = 2 if quick else 3
    cfg = ('SPECIFICATION Spec\nCONSTANTS MaxLen = %d\n Preloaded = %s\nINVARIANT Total\nINVARIANT Incremental\nINVARIANT SliceLaw\n'
           'INVARIANT Commute\nINVARIANT DelayedIsMoved\nPROPERTY AppendKeeps\nPROPERTY InterfaceStaysOut\n'
           'PROPERTY CacheNeedsForce\nCHECK_DEADLOCK FALSE\nPOSTCONDITION EmitAlphabet\n')
    # from the state preload.cmake leaves (delayed commands pile up until a flush), then from the plain start
    res = run_tlc(FAM, 'CMakeFold_MC', cfg_text=cfg % (maxlen, 'TRUE'), timeout=3400, allow_violation=False, heap='8g')
    chk.add_tlc(f'CMakeFold_MC[MaxLen={maxlen},Preloaded]', res)
    res = run_tlc(FAM, 'CMakeFold_MC', cfg_text=cfg % (maxlen, 'FALSE'), collect=['fold_alphabet.json'], timeout=3400, allow_violation=False, heap='8g')
    chk.add_tlc(f'CMakeFold_MC[MaxLen={maxlen}]', res)
    exported = json.loads(res.collected['fold_alphabet.json'])
    alphabet, prelude, vn = exported['alphabet'], exported['prelude'], exported['vars']
    chk.extra['fold_alphabet_size'] = len(alphabet)
    rnd = random.Random(chk.seed * 7907 + 5)
    # (A) every sequence over the alphabet, shortest first; a sequence is dropped once a proper prefix was rejected
    # (its verdict would only repeat the prefix's), so every reported sequence is a minimal one
    failed: T.Set[T.Tuple[T.Tuple[int, ...], str]] = set()
    subsumed = 0
    for n in range(0, maxlen + 2):
        if n <= maxlen:
            seqs: T.Iterable[T.Tuple[int, ...]] = itertools.product(range(len(alphabet)), repeat=n)
        else:       # one level deeper than the exhaustive bound: a seeded sample
            seqs = [tuple(rnd.randrange(len(alphabet)) for _ in range(n)) for _ in range(1500 if quick else 20000)]
        cases = []
        for idx in seqs:
            for fmt in ('json', 'human'):
                if fmt == 'human' and any(alphabet[i]['h'] == 0 for i in idx):
                    continue
                if any((idx[:k], fmt) in failed for k in range(0, n)):
                    subsumed += 1
                    continue
                cmds = prelude + [alphabet[i]['c'] for i in idx]
                cases.append({'id': f'fA{n}:{".".join(map(str, idx))}:{fmt}', 'fmt': fmt, 'cmds': cmds, 'ix': list(idx), 'idx': idx,
                              'vn': vn, 'ks': [len(cmds)]})
        cases = [c for part in ex.map(F.run_cases, _chunks(cases, 300)) for c in part]
        _fold_account(chk, cases)
        by_id = {c['id']: c for c in cases}
        bad = fold_report(chk, judge(chk, 'TraceCMakeFold', [_fold_payload(p, alphabet, prelude) for p in _chunks(cases, 30000)], f'A{n}'), by_id)
        for i in bad:
            failed.add((by_id[i]['idx'], by_id[i]['fmt']))
    chk.extra['fold_sequences_subsumed_by_rejected_prefix'] = subsumed
    # (B) long random sequences that are valid CMake, observed after every command
    n_seq = 120 if quick else 3000
    cases = []
    for j in range(n_seq):
        human_ok = j % 3 == 0
        cmds = F.random_sequence(rnd, rnd.randint(6, 14), human_ok, spaces=not human_ok and j % 2 == 0)
        for fmt in (['json', 'human'] if human_ok else ['json']):
            cases.append({'id': f'fB{j}:{fmt}', 'fmt': fmt, 'cmds': cmds, 'vn': F.VAR_NAMES, 'ks': list(range(1, len(cmds) + 1))})
    # ... and sequences with Meson's delayed-call protocol (preload.cmake): a delayed command takes effect at the next flush
    for j in range(n_seq // 2):
        cmds = F.protocol_sequence(rnd, rnd.randint(5, 10))
        for fmt in ('json', 'human'):
            cases.append({'id': f'fP{j}:{fmt}', 'fmt': fmt, 'cmds': cmds, 'vn': F.VAR_NAMES, 'ks': list(range(1, len(cmds) + 1))})
    cases = [c for part in ex.map(F.run_cases, _chunks(cases, 20)) for c in part]
    _fold_account(chk, cases)
    fold_report(chk, judge(chk, 'TraceCMakeFold', [_fold_payload(p, alphabet, prelude) for p in _chunks(cases, 400)], 'B'),
                {c['id']: c for c in cases})
    # (B-real) the real cmake traces the sequence; the real parser folds cmake's own trace text; cmake's own state is the witness
    n_real = 40 if quick else 700
    jobs = []
    for j in range(n_real):
        human_ok = j % 2 == 0
        cmds = F.random_sequence(rnd, rnd.randint(5, 12), human_ok, spaces=False)
        jobs.append({'id': f'fR{j}', 'cmds': cmds, 'vn': F.VAR_NAMES, 'pn': F.PROP_NAMES, 'tmp': str(tmp / f'real-{j}'),
                     'fmts': ['json', 'human'] if human_ok else ['json']})
    cases = [c for r in ex.map(F.run_real_case, jobs) for c in r['cases']]
    _fold_account(chk, cases)
    chk.extra['fold_real_cmake_runs'] = sum(len(j['fmts']) for j in jobs)
    fold_report(chk, judge(chk, 'TraceCMakeFold', [_fold_payload(p, alphabet, prelude) for p in _chunks(cases, 400)], 'real'),
                {c['id']: c for c in cases})


def _fold_account(chk: Check, cases: T.List[T.Dict[str, T.Any]]) -> None:
    chk.evaluations += sum(len(c['obs']) for c in cases)
    for c in cases:
        last = c['obs'][-1]
        if any(t['props'] for t in last['tg']) and len(c['cmds']) >= 4:
            chk.nontriv('f:' + c['fmt'] + json.dumps(c['cmds']))
    for c in cases[:: max(1, len(cases) // 2)][:1]:
        chk.sample({'part': 'fold', 'id': c['id'], 'fmt': c['fmt'], 'cmds': c['cmds'][-3:], 'final_state': c['obs'][-1]}, limit=12)


# ---------------------------------------------------------------------------
# helpers of mesonbuild/cmake/common.py

def _helpers_worker(cases: T.List[T.Dict[str, T.Any]]) -> T.List[T.Dict[str, T.Any]]:
    common.use_repo_meson()
    from mesonbuild.cmake.common import cmake_defines_to_args, _flags_to_list
    G.quiet_meson()
    for c in cases:
        if c['kind'] == 'defines':
            raw = [{d['k']: (d['b'] if d['ty'] == 'bool' else d['n'] if d['ty'] == 'int' else d['s'])} for d in c['defs']]
            if c['grouped']:    # the same defines in one dictionary (keys are distinct)
                raw = [{k: v for d in raw for k, v in d.items()}]
            got, x = G.call_guarded(lambda: cmake_defines_to_args(raw))
            c['got'], c['x'] = ([str(g) for g in got] if not x else []), x
        else:
            text = ''.join(map(chr, c['s']))
            got, x = G.call_guarded(lambda: _flags_to_list(text))
            c['words'], c['x'] = ([[ord(ch) for ch in w] for w in got] if not x else []), x
    return cases


def _rand_fragment(rnd: random.Random) -> str:
    plain = 'abcXYZ019_=/.,:+-%@'
    words = []
    for _ in range(rnd.randint(0, 6)):
        w = ''
        for _ in range(rnd.randint(1, 3)):
            k = rnd.random()
            body = ''.join(rnd.choice(plain) for _ in range(rnd.randint(1, 6)))
            if k < 0.5:
                w += body
            elif k < 0.7:
                w += '"' + body + rnd.choice(['', ' ', ' x y', '\\"q\\"', "'"]) + body[:2] + '"'
            elif k < 0.85:
                w += "'" + body + rnd.choice(['', ' ', ' x y', '"']) + "'"
            else:
                w += body + '\\"' + body[:1] + '\\"'
        words.append(w)
    return rnd.choice(['', ' ']) + rnd.choice([' ', '  ']).join(words) + rnd.choice(['', ' '])


def part_helpers(chk: Check, ex: ProcessPoolExecutor) -> None:
    quick = chk.tier == 'quick'
    n = 1500 if quick else 40000
    rnd = random.Random(chk.seed * 4241 + 3)
    cases: T.List[T.Dict[str, T.Any]] = []
    names = ['FOO', 'BUILD_TESTING', 'CMAKE_BUILD_TYPE', 'SOME_OTHER_VAR', 'X_Y', 'CMAKE_TOOLCHAIN_FILE', 'opt1', 'WITH_ZLIB']
    for j in range(n):
        if j % 2 == 0:
            defs = []
            for k in rnd.sample(names, rnd.randint(0, 4)):
                ty = rnd.choice(['bool', 'bool', 'str', 'int'])
                defs.append({'k': k, 'ty': ty, 's': rnd.choice(['ON', 'Release', '', 'a b', '/usr/x', '1', 'true']) if ty == 'str' else '',
                             'n': rnd.choice([0, 1, 2, 42, -7, 1000000]) if ty == 'int' else 0, 'b': rnd.random() < 0.5 if ty == 'bool' else False})
            cases.append({'id': f'hD{j}', 'kind': 'defines', 'defs': defs, 'grouped': rnd.random() < 0.5, 's': [], 'words': [], 'got': []})
        else:
            cases.append({'id': f'hF{j}', 'kind': 'flags', 'defs': [], 'grouped': False, 's': [ord(ch) for ch in _rand_fragment(rnd)],
                          'words': [], 'got': []})
    cases = [c for part in ex.map(_helpers_worker, _chunks(cases, 500)) for c in part]
    chk.evaluations += len(cases)
    fields = ('id', 'kind', 'defs', 's', 'words', 'got', 'x')
    by_id = {c['id']: c for c in cases}
    for c in cases[:2]:
        chk.sample({'part': 'helpers', **{k: c[k] for k in ('id', 'kind', 'defs', 'got')}}, limit=12)
    for v in judge(chk, 'TraceCMakeHelpers', [([{k: c[k] for k in fields} for c in p], len(p)) for p in _chunks(cases, 20000)], 'helpers'):
        c = by_id[v['id']]
        if v['clause'] == 'OutsideSpecDomain':
            raise MachineryError('generated a fragment outside the shell-word domain: ' + repr(''.join(map(chr, c['s']))))
        if c['kind'] == 'flags':
            text = ''.join(map(chr, c['s']))
            kind = 'other-quote-inside-quotes' if ('"' in text and "'" in text) else 'plain'
            sig = f"helpers:{v['clause']}:{kind}"
            detail = {'verdict': v, 'fragment': text, 'meson': [''.join(map(chr, w)) for w in c['words']],
                      'expected': [''.join(map(chr, w)) for w in v['expected']], 'case': {k: c[k] for k in fields}}
        else:
            sig = f"helpers:{v['clause']}"
            detail = {'verdict': v, 'defines': c['defs'], 'meson': c['got'], 'case': {k: c[k] for k in fields}, 'grouped': c['grouped']}
        chk.violation(sig, detail)


# ---------------------------------------------------------------------------

def main(chk: Check) -> None:
    chk.rule = ('genex A: every expression of the TLC model space (exported), rendered and evaluated by the real code per node and '
                'as a whole, plus the real cmake; genex B: seeded random typed trees of depth 2-5 in random target tables, and '
                'arbitrary `$<` text for totality; fold A: every sequence over the exported command alphabet up to the bound in '
                'json-v1 and human trace format; fold B: seeded random valid command sequences observed after every command, and '
                'sequences traced by the real cmake. Non-trivial = an expression with >= 2 nested expression nodes / a sequence of '
                '>= 4 commands ending with a non-empty target property (distinct).')
    import os
    parts = os.environ.get('X09_PARTS', 'genex,fold,helpers').split(',')      # debugging aid; the check runs all parts
    chk.max_reported = int(os.environ.get('X09_MAX_REPORTED', chk.max_reported))
    with scratch('x09-main-') as tmp, ProcessPoolExecutor(max_workers=common.NCPU) as ex:
        if 'genex' in parts:
            part_genex(chk, ex, tmp)
        if 'fold' in parts:
            part_fold(chk, ex, tmp)
        if 'helpers' in parts:
            part_helpers(chk, ex)
    chk.exhaustive = True
    chk.assumptions += [
        'generator expressions: only the expressions generator.py lists as supported are judged by value; for every other '
        'expression and for input on which the manual prescribes an error only "no crash, no hang" is required (Meson documents '
        'no behaviour for them)',
        'EQUAL operands are decimal integers (cmake also reads C octal/hex/binary, which the manual does not mention; literals with '
        'leading zeros are limited to values below 8)',
        '$<BOOL:...> on lower/mixed-case "notfound" is not generated: the manual says case-insensitive, cmake 3.25 compares NOTFOUND '
        'case-sensitively',
        '$<TARGET_FILE...>: imported targets with IMPORTED_LOCATION[_DEBUG|_RELEASE] and configurations Debug/Release only; '
        'cmake_is_debug is an input (env stub), its mapping from Meson options is not judged (undocumented)',
        'non-ASCII text is not generated for LOWER_CASE/UPPER_CASE',
        'trace folding: PARENT_SCOPE, ENV{}, debug/optimized/general link keywords (handled downstream), OBJECT libraries, '
        'non-imported executables, add_custom_command, SOURCE-scope properties and -D prefixes of definitions are not generated; '
        'cache and normal variables use disjoint names (policy CMP0126 decides their interplay)',
        'human trace format (cmake < 3.17) is lossy: arguments contain no blank, a value is one argument, at most one include '
        'directory per command (two directories cannot be told from one containing a blank)',
        'message texts are not compared, only the number of recorded errors; INTERFACE_SYSTEM_INCLUDE_DIRECTORIES is not observed',
        'generator expressions inside folded property values are not generated (the two parts are judged separately)',
        '_flags_to_list: words of plain characters, double/single quoted runs and \\" escapes; a backslash before any other '
        'character, empty quoted words and newlines are not generated',
    ]


def replay(chk: Check, data: T.Dict[str, T.Any]) -> None:
    """Re-run one recorded case through the current code and judge it again."""
    det = data['detail']
    sig = data['signature']
    common.use_repo_meson()
    if sig.startswith('genex:'):
        c = det['case']
        c = {k: c[k] for k in ('id', 'cx', 'ty', 'p', 't')}
        c['cx'] = 1
        cases = G.run_cases([c], [det['ctx']])
        for x in cases:
            x['w'], x['wx'] = '', 'skip'
        fields = ('id', 'cx', 'ty', 'p', 't', 'o', 'x', 'w', 'wx')
        payload = {'ctxs': [det['ctx']], 'cases': [{k: x.get(k, '') for k in fields} for x in cases]}
        for v in judge(chk, 'TraceGenex', [(payload, 1)], 'replay'):
            chk.violation(genex_signature(v, cases[0]), {'verdict': v, 'text': det['text']})
    elif sig.startswith('fold:'):
        fmt = det['fmt']
        if fmt.endswith('-real'):
            with scratch('x09-replay-') as tmp:
                r = F.run_real_case({'id': 'replay', 'cmds': det['cmds'], 'vn': F.VAR_NAMES, 'pn': F.PROP_NAMES,
                                     'tmp': str(tmp / 'r'), 'fmts': [fmt.split('-')[0]]})
            cases = r['cases']
        else:
            cases = F.run_cases([{'id': 'replay', 'fmt': fmt, 'cmds': det['cmds'], 'vn': det['vn'], 'ks': det['ks']}])
        for v in judge(chk, 'TraceCMakeFold', [_fold_payload(cases, [], [])], 'replay'):
            chk.violation(fold_signature(v, cases[0]), {'verdict': v, 'cmds': det['cmds']})
    else:
        cases = _helpers_worker([dict(det['case'], grouped=det.get('grouped', False))])
        fields = ('id', 'kind', 'defs', 's', 'words', 'got', 'x')
        for v in judge(chk, 'TraceCMakeHelpers', [([{k: c[k] for k in fields} for c in cases], 1)], 'replay'):
            chk.violation(sig, {'verdict': v})


if __name__ == '__main__':
    sys.exit(common.run_check(main, PROP, replay=replay))
