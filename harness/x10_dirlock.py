"""X10 - the build-directory lock and the wrap lock: concurrent meson commands.

Specification: specs/dirlock/ (DirLockBase: decision table of entering a lock + the kernel objects; DirLock: N
concurrent `meson setup` commands on ONE build directory; WrapLock: N concurrent `meson setup` runs of different build
directories resolving the same wraps).

1. TLC model-checks the laws on the "documented" design (every interleaving, kills at any point) and must REFUTE a
   law for every plausible wrong design - among them "as_built", what the pinned tree does (vacuity guard).
2. (A) spec -> code: the model is run with run-to-block scheduling (Scheduled = TRUE); every maximal sequence of
   control actions (start a command, release a process from the gate it waits in, SIGKILL a process that waits in a
   gate) is exported by TLC and FORCED on real meson processes: project code blocks inside the critical section
   (run_command() in meson.build, a post-configuration script; a fake `git`/`patch` for the wrap lock) until the
   controller writes to a FIFO.  No timing, no strace.
   The decision table of entering a lock (action x optional x how the open ends x busy: DirLockBase!EnterOutcome)
   is compared cell by cell with the real DirectoryLock (TraceLockEnter).
3. (B) code -> spec: the controller also walks randomly (seeded, more processes and kills than the model bound);
   every run - forced or random - is recorded as JSON (control action, verdicts, which state files changed by inode /
   mtime_ns snapshots, the inode of the lock file, /proc/locks) and judged by TLC: TraceDirLock/SpecLaws evaluates the
   laws of DirLock on the observed states and names the first violated law, TraceDirLock/SpecAccept decides whether
   the trace is a behaviour of the documented design and names the first differing field (TraceWrapLock likewise).
"""
from __future__ import annotations

import concurrent.futures as cf
import json
import os
import random
import sys
import typing as T
from pathlib import Path

from . import common
from .common import Check, MachineryError, SPECS, run_tlc, scratch
from . import x10_procs as xp
from . import x10_wrap as xw

PROP = 'X10'
FAM = SPECS / 'dirlock'

# wrong designs of the build-directory lock -> the law TLC must refute first (order of the INVARIANT lines)
DIR_INVS = ['TypeOK', 'MutualExclusion', 'ConfigUnderLock', 'LoserClean', 'BusyOnlyWhenContended', 'NoStaleLock',
            'HolderHoldsKernelLock', 'CompleteWhenQuiet']
DIR_FAULTY = {
    'as_built': {'MutualExclusion', 'ConfigUnderLock', 'LoserClean'},
    'wipe_before_lock': {'MutualExclusion', 'ConfigUnderLock', 'LoserClean'},
    'setopt_without_lock': {'MutualExclusion', 'ConfigUnderLock'},
    'lock_after_first_mutation': {'MutualExclusion', 'ConfigUnderLock', 'LoserClean'},
    'unlock_before_last_mutation': {'MutualExclusion', 'ConfigUnderLock'},
    'action_ignore': {'MutualExclusion', 'ConfigUnderLock'},
    'lock_path_per_process': {'MutualExclusion'},
    'existence_check': {'BusyOnlyWhenContended', 'NoStaleLock'},
}
WRAP_INVS = ['TypeOK', 'FetchExclusive', 'FetchUnderLock', 'WaiterWaits', 'NeverHalfConfigured', 'ResolvedOnce',
             'NoStaleWait']
WRAP_FAULTY = {
    'waiter_proceeds_unlocked': {'FetchExclusive', 'FetchUnderLock', 'NeverHalfConfigured', 'ResolvedOnce'},
    'action_fail': {'WaiterWaits'},
    'check_before_lock': {'NeverHalfConfigured', 'ResolvedOnce'},
    'unlock_before_patch': {'FetchExclusive', 'FetchUnderLock', 'NeverHalfConfigured', 'ResolvedOnce'},
    'existence_check': {'NoStaleWait'},
}


def dir_cfg(design: str, np: int, kills: int, scheduled: bool, invs: T.Sequence[str]) -> str:
    return ('SPECIFICATION Spec\nCONSTANTS\n NP = %d\n Procs <- MCProcs\n ProcOrder <- MCProcOrder\n'
            ' Kinds = {"setup", "reconf", "wipe", "setopt"}\n DesignName = "%s"\n MaxKills = %d\n'
            ' InitConfigured = {TRUE, FALSE}\n Scheduled = %s\n' % (np, design, kills, 'TRUE' if scheduled else 'FALSE')
            + ''.join(f'INVARIANT {i}\n' for i in invs) + 'CHECK_DEADLOCK FALSE\nPOSTCONDITION Stats\n')


def wrap_cfg(design: str, np: int, kills: int, scheduled: bool, invs: T.Sequence[str], kill_in_fetch: bool = False,
             needs: str = 'MCNeedChoices', init: str = 'MCInitAny') -> str:
    return ('SPECIFICATION Spec\nCONSTANTS\n NP = %d\n Procs <- MCProcs\n ProcOrder <- MCProcOrder\n Wraps <- MCWraps\n'
            ' NeedChoices <- %s\n DesignName = "%s"\n MaxKills = %d\n KillInFetch = %s\n InitComplete <- %s\n'
            ' Scheduled = %s\n' % (np, needs, design, kills, 'TRUE' if kill_in_fetch else 'FALSE', init,
                                   'TRUE' if scheduled else 'FALSE')
            + ''.join(f'INVARIANT {i}\n' for i in invs) + 'CHECK_DEADLOCK FALSE\nPOSTCONDITION Stats\n')


# ---------------------------------------------------------------------------
# 1. model checking

def model_check(chk: Check, quick: bool) -> None:
    jobs: T.List[T.Tuple[str, str, str, T.Optional[T.Set[str]]]] = []
    np_doc = 2 if quick else 3
    jobs.append((f'DirLock_MC[documented,NP={np_doc},kills=1]', 'DirLock_MC', dir_cfg('documented', np_doc, 1, False, DIR_INVS), None))
    jobs.append((f'WrapLock_MC[documented,NP={np_doc},kills=1]', 'WrapLock_MC', wrap_cfg('documented', np_doc, 1, False, WRAP_INVS), None))
    for d, laws in DIR_FAULTY.items():
        jobs.append((f'DirLock_MC[{d},NP=2]', 'DirLock_MC', dir_cfg(d, 2, 1, False, DIR_INVS), laws))
    for d, laws in WRAP_FAULTY.items():
        jobs.append((f'WrapLock_MC[{d},NP=2]', 'WrapLock_MC', wrap_cfg(d, 2, 1, False, WRAP_INVS), laws))
    jobs.append(('WrapLock_MC[documented,KillInFetch,NP=2]', 'WrapLock_MC',
                 wrap_cfg('documented', 2, 1, False, WRAP_INVS, kill_in_fetch=True), {'NeverHalfConfigured', 'ResolvedOnce'}))

    def one(job: T.Tuple[str, str, str, T.Optional[T.Set[str]]]) -> T.Tuple[str, T.Any, T.Optional[T.Set[str]]]:
        name, mod, cfg, laws = job
        res = run_tlc(FAM, mod, cfg_text=cfg, workers=4, timeout=3000, allow_violation=laws is not None, heap='3g')
        return name, res, laws

    refuted = {}
    with cf.ThreadPoolExecutor(max_workers=4) as ex:
        for name, res, laws in ex.map(one, jobs):
            chk.add_tlc(name, res, model=True)
            if laws is None:
                if not res.clean:
                    raise MachineryError(f'{name}: the documented design violates a law: {res.invariant_violated}')
            else:
                if res.invariant_violated not in laws:
                    raise MachineryError(f'{name}: TLC was expected to refute one of {sorted(laws)}, got '
                                         f'{res.invariant_violated!r} (vacuous laws?)')
                refuted[name] = res.invariant_violated
    chk.extra['wrong_designs_refuted'] = refuted


def enter_table(chk: Check) -> None:
    """L5: every cell of DirLockBase!EnterOutcome against the real DirectoryLock (probe in its own process)."""
    import subprocess
    r = subprocess.run([common.PYTHON, '-m', 'harness.x10_enter_probe'], cwd=common.VERIF, stdout=subprocess.PIPE,
                       stderr=subprocess.PIPE, text=True, timeout=600)
    if r.returncode != 0:
        raise MachineryError('x10_enter_probe failed:\n' + r.stderr[-2000:])
    cases = json.loads(r.stdout)
    with scratch('x10-en-') as d:
        (d / 'cases.json').write_text(json.dumps(cases))
        res = run_tlc(FAM, 'TraceLockEnter', env={'TRACE_FILE': str(d / 'cases.json')}, workers=1, timeout=600, heap='2g')
    if res.distinct != 2 * len(cases):
        raise MachineryError(f'TraceLockEnter judged {res.distinct} states for {len(cases)} cases:\n' + res.stdout[-2000:])
    chk.add_tlc('TraceLockEnter', res, model=False)
    chk.evaluations += len(cases)
    chk.extra['enter_table_cells'] = len(cases)
    for v in res.json_lines():
        chk.violation(f'enter {v["id"]}: expected {v["expected"]} observed {v["observed"]}', {'kind': 'enter', 'verdict': v})
    chk.sample({'enter_table': [[c['id'], c['outcome']] for c in cases[:6]]})


# ---------------------------------------------------------------------------
# 2. schedules from the model

def export_schedules(chk: Check, np: int, kills: int) -> T.List[T.Dict[str, T.Any]]:
    res = run_tlc(FAM, 'DirLock_MC', cfg_text=dir_cfg('documented', np, kills, True, ['EmitSchedule']), workers=1,
                  timeout=1800, allow_violation=False, heap='3g')
    chk.add_tlc(f'DirLock_MC[schedules,NP={np},kills={kills}]', res, model=True)
    seen = {}
    for j in res.json_lines():
        seen[json.dumps(j['ctl'])] = j
    out = [seen[k] for k in sorted(seen)]
    if not out:
        raise MachineryError('TLC exported no schedule')
    return out


# ---------------------------------------------------------------------------
# 3. real processes

def run_schedule(job: T.Tuple[str, T.Dict[str, T.Any], int, str]) -> T.Dict[str, T.Any]:
    """Force the control actions of one exported schedule on real meson processes."""
    tid, sched, seed, tmp = job
    rnd = random.Random(f'{seed}/{tid}')
    ctl = sched['ctl']
    with scratch('x10-', ) as root:
        w = xp.World(root / 'w', ctl[0]['x'])
        segs = []
        note = ''
        try:
            for c in ctl[1:]:
                if c['a'] == 'start':
                    how = c.get('how')
                    if how is None:
                        how = rnd.choice(['setup', 'configure']) if c['x'] == 'setopt' else ''
                    if c['x'] in ('wipe', 'setopt') and not w.configured():
                        note = f'stopped before {c}: the directory is not configured'
                        break
                    segs.append(w.start(c['p'], c['x'], how))
                else:
                    if w.status(c['p']) != c['x']:
                        note = f'stopped before {c}: {c["p"]} is {w.status(c["p"])}'
                        break
                    segs.append(w.release(c['p'], c['x']) if c['a'] == 'release' else w.kill(c['p'], c['x']))
            outs = w.outputs()
        finally:
            w.close()
    return {'id': tid, 'init': ctl[0]['x'], 'segs': segs, 'note': note, 'outputs': outs,
            'model_ex': sched.get('ex', [])}


def run_random(job: T.Tuple[str, int, int, int, str]) -> T.Dict[str, T.Any]:
    """A seeded random walk of the controller over what the REAL processes allow (not derived from the model)."""
    tid, seed, np, maxkills, tmp = job
    rnd = random.Random(f'{seed}/{tid}')
    init = rnd.choice(['configured', 'configured', 'fresh'])
    with scratch('x10-') as root:
        w = xp.World(root / 'w', init)
        segs: T.List[T.Dict[str, T.Any]] = []
        kills = 0
        started = 0
        try:
            while True:
                at = [(p, w.status(p)) for p in xp.PROCS[:started] if w.status(p) in ('G1', 'G2')]
                acts: T.List[T.Tuple[str, str, str]] = []
                if started < np:
                    kinds = ['setup', 'reconf', 'reconf'] + (['wipe', 'wipe', 'setopt', 'setopt'] if w.configured() else [])
                    # starting while somebody waits in a gate is what makes contention: weight it
                    acts += [('start', xp.PROCS[started], rnd.choice(kinds))] * (3 if at else 1)
                for p, g in at:
                    acts.append(('release', p, g))
                    if kills < maxkills:
                        acts.append(('kill', p, g))
                if not acts:
                    break
                a, p, x = rnd.choice(acts)
                if a == 'start':
                    started += 1
                    segs.append(w.start(p, x, rnd.choice(['setup', 'configure']) if x == 'setopt' else ''))
                elif a == 'release':
                    segs.append(w.release(p, x))
                else:
                    kills += 1
                    segs.append(w.kill(p, x))
            outs = w.outputs()
        finally:
            w.close()
    return {'id': tid, 'init': init, 'segs': segs, 'note': '', 'outputs': outs, 'model_ex': []}


# ---------------------------------------------------------------------------
# 4. verdicts (TLC)

SEG_FIELDS = ('a', 'p', 'x', 'status', 'present', 'delta', 'muts', 'lockino', 'lockchanged', 'holds')


def judge(chk: Check, traces: T.List[T.Dict[str, T.Any]], label: str) -> T.Dict[str, T.Dict[str, T.Any]]:
    """Both trace specifications over all traces; returns id -> {'laws': verdict, 'accept': verdict}."""
    if not traces:
        return {}
    proj = [{'id': t['id'], 'init': t['init'], 'segs': [{f: s[f] for f in SEG_FIELDS} for s in t['segs']]} for t in traces]
    out: T.Dict[str, T.Dict[str, T.Any]] = {t['id']: {} for t in traces}
    with scratch('x10-tr-') as d:
        tf = d / 'traces.json'
        tf.write_text(json.dumps(proj))
        for mode, cfg in (('laws', 'TraceDirLock_Laws.cfg'), ('accept', 'TraceDirLock_Accept.cfg')):
            res = run_tlc(FAM, 'TraceDirLock', cfg=cfg, env={'TRACE_FILE': str(tf)}, workers=1, timeout=1800, heap='3g')
            if not res.finished or res.invariant_violated or res.deadlock:
                raise MachineryError(f'TraceDirLock/{mode} did not finish:\n' + res.stdout[-3000:])
            chk.add_tlc(f'TraceDirLock[{mode},{label}]', res, model=False)
            for v in res.json_lines():
                if v.get('mode') == mode and v['id'] in out:
                    old = out[v['id']].get(mode)
                    if old is not None and (old['clause'], old['seg']) != (v['clause'], v['seg']):
                        raise MachineryError(f'TraceDirLock/{mode} gave two verdicts for {v["id"]}: {old} / {v}')
                    out[v['id']][mode] = v
            for t in traces:
                if mode not in out[t['id']]:
                    raise MachineryError(f'TraceDirLock/{mode} gave no verdict for trace {t["id"]}:\n' + res.stdout[-2000:])
    return out


def report(chk: Check, traces: T.List[T.Dict[str, T.Any]], verdicts: T.Dict[str, T.Dict[str, T.Any]]) -> None:
    for t in traces:
        v = verdicts[t['id']]
        chk.traces += 1
        chk.evaluations += len(t['segs'])
        if contended(t):
            chk.nontriv([[s['a'], s['p'], s['x'], s['how']] for s in t['segs']])
        bad = None
        if v['laws']['clause'] != 'ok':
            bad = ('laws', v['laws'])
        elif v['accept']['clause'] != 'ok':
            bad = ('accept', v['accept'])
        if bad is None:
            continue
        mode, vv = bad
        seg = t['segs'][vv['seg'] - 1]
        sig = f'{mode} {vv["clause"]}|{seg["cmd"]}|{seg["a"]}'
        chk.violation(sig, {'trace': strip(t), 'verdict': v, 'kind': 'dirlock',
                            'ctl': [{'a': 'init', 'p': '', 'x': t['init']}] +
                                   [{'a': s['a'], 'p': s['p'], 'x': s['x'], 'how': s['how']} for s in t['segs']]})


def contended(t: T.Dict[str, T.Any]) -> bool:
    """Non-trivial: some command was started while another process waited inside its critical section, or a holder was killed."""
    for i, s in enumerate(t['segs']):
        if s['a'] == 'kill':
            return True
        if s['a'] == 'start' and i > 0 and any(v in ('G1', 'G2') for q, v in t['segs'][i - 1]['status'].items() if q != s['p']):
            return True
    return False


def strip(t: T.Dict[str, T.Any]) -> T.Dict[str, T.Any]:
    return {k: v for k, v in t.items() if k != 'outputs'} | {'outputs': t.get('outputs', {})}


# ---------------------------------------------------------------------------

def main(chk: Check) -> None:
    quick = chk.tier == 'quick'
    rnd = random.Random(chk.seed)
    chk.rule = ('one trace = one real run of 2-4 meson commands on one build directory (or of 2-3 `meson setup` runs of '
                'different build directories over one source tree with wraps) under a controller; non-trivial = a command '
                'was started while another process waited inside its critical section, or a lock holder was killed '
                '(distinct control histories)')
    common.sany(FAM, 'TraceDirLock')
    common.sany(FAM, 'TraceWrapLock')
    enter_table(chk)
    # the model-checking runs (JVMs) overlap with the runs of the real processes (mostly waiting for meson)
    mex = cf.ThreadPoolExecutor(max_workers=1)
    fm = mex.submit(model_check, chk, quick)

    nthreads = max(2, min(8, common.NCPU // 2))
    tmp = os.environ.get('TMPDIR', '/tmp')
    # (A) schedules of the model forced on real processes
    s2 = export_schedules(chk, 2, 1)
    chk.extra['schedules_np2'] = len(s2)
    jobs = [(f'A2:{i}', s, chk.seed, tmp) for i, s in enumerate(s2)]
    if quick:
        jobs = rnd.sample(jobs, min(len(jobs), 56))
    else:
        s3 = export_schedules(chk, 3, 1)
        chk.extra['schedules_np3'] = len(s3)
        j3 = [(f'A3:{i}', s, chk.seed, tmp) for i, s in enumerate(s3)]
        jobs += rnd.sample(j3, min(len(j3), 300))
    nb = 24 if quick else 150
    bjobs = [(f'B:{i}', chk.seed, rnd.choice([2, 3, 3, 4]), 2, tmp) for i in range(nb)]
    traces: T.List[T.Dict[str, T.Any]] = []
    with cf.ThreadPoolExecutor(max_workers=nthreads) as ex:
        fa = [ex.submit(run_schedule, j) for j in jobs]
        fb = [ex.submit(run_random, j) for j in bjobs]
        wraps = xw.submit_all(ex, chk, quick, rnd, tmp)
        for f in fa + fb:
            traces.append(f.result())
        wtraces = [f.result() for f in wraps]
    fm.result()
    mex.shutdown()
    chk.extra['dirlock_traces'] = {'forced_schedules': len(jobs), 'random_walks': len(bjobs)}
    verdicts = judge(chk, traces, 'A+B')
    report(chk, traces, verdicts)
    for t in traces[:: max(1, len(traces) // 4)][:4]:
        chk.sample({'id': t['id'], 'init': t['init'],
                    'segments': [[s['a'], s['p'], s['x'], s['status'], s['delta'], s['holds']] for s in t['segs']],
                    'verdict': {m: verdicts[t['id']][m]['clause'] for m in ('laws', 'accept')}})
    xw.judge_and_report(chk, wtraces)
    chk.exhaustive = False
    chk.extra['all_np2_dirlock_schedules_forced'] = not quick
    chk.assumptions += [
        'readers (meson introspect / test / install / compile) take no lock and the documentation promises none: they '
        'are not generated',
        'log files (meson-logs/) are not state of the directory: a command that finds the lock busy truncates '
        'meson-log.txt before it looks at the lock; not judged',
        'the state of the directory is projected to four files: meson-private/coredata.dat, build.ninja, '
        'meson-private/cmd_line.txt, meson-info/*; a change is a different inode / mtime_ns / ctime_ns / size',
        'processes are only stopped in gates that run project code (run_command in meson.build, post-configuration '
        'script; fake git / patch for wraps): interleavings inside meson\'s own steps are covered by the model only',
        'reading coredata.dat before the lock is taken (Environment() in MesonApp.generate) is not modelled',
        '`meson setup --wipe` and `-Dopt=v` are only started on a directory that has a coredata.dat',
        'wrap lock: [wrap-git] wraps with diff_files (the gates are a fake git and a fake patch on PATH); a kill '
        'inside the fetch (tree half there) belongs to C10 and is not generated',
        'POSIX only (flock); the msvcrt implementation is not exercised',
    ]


def replay(chk: Check, data: T.Dict[str, T.Any]) -> None:
    det = data['detail']
    if det.get('kind') == 'wraplock':
        xw.replay(chk, det)
        return
    if det.get('kind') == 'enter':
        enter_table(chk)
        return
    sched = {'ctl': det['ctl'], 'ex': []}
    t = run_schedule(('replay', sched, chk.seed, os.environ.get('TMPDIR', '/tmp')))
    report(chk, [t], judge(chk, [t], 'replay'))


if __name__ == '__main__':
    sys.exit(common.run_check(main, PROP, replay=replay))
