"""X10 helper (runs as its own process): every cell of the lock decision table against the real DirectoryLock.

Prints a JSON list of cases [id, a, opt, o, busy, outcome]; the outcome is classified from outside the object (exception
class, a probe lock through a second open file, /proc/locks for the blocked call) - the verdict is TLC's
(TraceLockEnter.tla)."""
from __future__ import annotations

import fcntl
import json
import os
import sys
import tempfile
import threading
import time
import typing as T

from . import common
from .x10_procs import proc_locks


def probe_held(path: str) -> bool:
    """Does somebody hold the lock of the file at path?  (a second open file; flock locks belong to open files)"""
    fd = os.open(path, os.O_RDWR)
    try:
        try:
            fcntl.flock(fd, fcntl.LOCK_EX | fcntl.LOCK_NB)
        except BlockingIOError:
            return True
        fcntl.flock(fd, fcntl.LOCK_UN)
        return False
    finally:
        os.close(fd)


def one(a: str, opt: bool, o: str, busy: bool) -> str:
    common.use_repo_meson()
    from mesonbuild.utils.platform import DirectoryLock, DirectoryLockAction
    from mesonbuild.utils.core import MesonException
    with tempfile.TemporaryDirectory() as d:
        directory = d
        if o == 'enoent':
            directory = os.path.join(d, 'missing')
        elif o == 'eisdir':
            os.mkdir(os.path.join(d, 'lock'))
        elif o == 'eother':
            directory = os.path.join(d, 'afile')
            with open(directory, 'w', encoding='utf-8'):
                pass
        path = os.path.join(directory, 'lock')
        holder = None
        if busy:
            holder = DirectoryLock(d, 'lock', DirectoryLockAction.FAIL, 'holder')
            holder.__enter__()
        lock = DirectoryLock(directory, 'lock', DirectoryLockAction[a], 'busy-message', optional=opt)
        result: T.List[str] = []

        def attempt() -> None:
            try:
                lock.__enter__()
            except FileNotFoundError:
                result.append('raise_notfound')
            except IsADirectoryError:
                result.append('raise_isdir')
            except MesonException as e:
                result.append('raise_busy' if 'busy-message' in str(e) else 'raise_other_meson')
            except OSError:
                result.append('raise_oserror')
            else:
                result.append('returned')

        t = threading.Thread(target=attempt, daemon=True)
        t.start()
        waited = False
        t0 = time.monotonic()
        while t.is_alive():
            _, waits = proc_locks()
            if waits.get(os.getpid()):
                waited = True           # the call blocks in flock(): let the holder go
                assert holder is not None
                holder.__exit__(None, None, None)
                holder = None
                t.join(60)
                break
            if time.monotonic() - t0 > 60:
                return 'hangs'
            time.sleep(0.005)
        t.join(60)
        out = result[0] if result else 'hangs'
        if out == 'returned':
            # the probe must not see the holder's lock: only meaningful when the holder is gone or never was
            if holder is not None:
                holder.__exit__(None, None, None)
                holder = None
            held = os.path.exists(path) and not os.path.isdir(path) and probe_held(path)
            out = ('wait_then_locked' if waited else 'locked') if held else 'proceed_unlocked'
            lock.__exit__(None, None, None)
        if holder is not None:
            holder.__exit__(None, None, None)
        return out


def main() -> int:
    cases = []
    for a in ('IGNORE', 'WAIT', 'FAIL'):
        for opt in (False, True):
            for o in ('ok', 'enoent', 'eisdir', 'eother'):
                for busy in ((False, True) if o == 'ok' else (False,)):
                    cases.append({'id': f'{a}/{"optional" if opt else "required"}/{o}/{"busy" if busy else "free"}',
                                  'a': a, 'opt': opt, 'o': o, 'busy': busy, 'outcome': one(a, opt, o, busy)})
    json.dump(cases, sys.stdout)
    return 0


if __name__ == '__main__':
    sys.exit(main())
