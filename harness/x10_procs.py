"""X10 helper: a controller that drives several real ``meson`` processes on one build directory through *gates*.

A gate is project code that meson runs inside its critical section - ``run_command()`` while the interpreter evaluates
``meson.build`` (gate G1) and a post-configuration script (gate G2).  The gate script touches a marker file and then
blocks reading a FIFO until the controller writes to it, so the controller can hold a process inside the critical
section, start other commands meanwhile and look at what they do.  Nothing depends on timing: after a control action
(start / release / kill) the controller waits until the process it acted on waits in a gate or has ended (the other
processes are blocked in their gates), then takes a snapshot:

* the state files (coredata.dat, build.ninja, cmd_line.txt, meson-info/*) by inode / mtime_ns / ctime_ns / size,
* the inode at meson-private/meson.lock,
* who holds (or waits for) an advisory lock according to /proc/locks,
* the verdict of every process that has ended.

The snapshots are *projected* to the vocabulary of specs/dirlock/DirLock.tla here; every verdict about them is computed
by TLC (TraceDirLock.tla).
"""
from __future__ import annotations

import errno
import os
import signal
import stat
import subprocess
import time
import typing as T
from pathlib import Path

from . import common
from .common import MachineryError

PROCS = ['P1', 'P2', 'P3', 'P4']
BUSY_MSG = 'Some other Meson process is already using this build directory'
ALREADY_MSG = 'Directory already configured'
WAIT_LIMIT = float(os.environ.get('X10_WAIT_LIMIT', '600'))

GATE_SH = '''#!/bin/sh
# X10 gate: project code that runs inside the critical section of a meson command.
g="$1"
[ -n "$X10_CTL" ] || exit 0
: > "$X10_CTL/$X10_PROC.$g.at"
read x < "$X10_CTL/$X10_PROC.$g.go"
exit 0
'''

MESON_BUILD = '''project('x10dirlock', meson_version: '>=1.1')
gate = find_program('{gate}')
run_command(gate, 'G1', check: true)
meson.add_postconf_script(gate, 'G2')
configure_file(output: 'tag.txt', configuration: {{'tag': get_option('tag')}})
'''
MESON_OPTIONS = "option('tag', type: 'string', value: 't0')\n"

# abstract kind -> how the command line is spelled
CMDS = {
    ('setup', ''): 'meson setup',
    ('reconf', ''): 'meson setup --reconfigure',
    ('wipe', ''): 'meson setup --wipe',
    ('setopt', 'setup'): 'meson setup <configured dir> -Dopt=v',
    ('setopt', 'configure'): 'meson configure <dir> -Dopt=v',
}


def base_env() -> T.Dict[str, str]:
    e = dict(os.environ)
    for k in list(e):
        if k.startswith('MESON') or k.startswith('X10_') or k in ('DESTDIR', 'CFLAGS', 'LDFLAGS', 'CC', 'CXX'):
            del e[k]
    e['NINJA'] = str(common.VERIF / 'tools' / 'ninja-stub')
    e['LC_ALL'] = 'C.UTF-8'
    e['PYTHONDONTWRITEBYTECODE'] = '1'
    e['PYTHONHASHSEED'] = '0'
    return e


def proc_locks() -> T.Tuple[T.Dict[int, T.Set[int]], T.Dict[int, T.Set[int]]]:
    """/proc/locks -> (pid -> inodes whose flock it holds, pid -> inodes whose flock it waits for)."""
    held: T.Dict[int, T.Set[int]] = {}
    waits: T.Dict[int, T.Set[int]] = {}
    try:
        text = Path('/proc/locks').read_text()
    except OSError as e:
        raise MachineryError(f'/proc/locks is not readable: {e}')
    for line in text.splitlines():
        parts = line.split()
        if len(parts) < 6:
            continue
        blocked = parts[1] == '->'
        if blocked:
            parts = parts[:1] + parts[2:]
        if parts[1] != 'FLOCK':
            continue
        try:
            pid = int(parts[4])
            ino = int(parts[5].split(':')[2])
        except (ValueError, IndexError):
            continue
        (waits if blocked else held).setdefault(pid, set()).add(ino)
    return held, waits


def file_sig(p: Path) -> T.Optional[T.Tuple[int, int, int, int]]:
    try:
        st = os.stat(p)
    except OSError:
        return None
    return (st.st_ino, st.st_mtime_ns, st.st_ctime_ns, st.st_size)


class Proc:
    def __init__(self, name: str, kind: str, how: str, popen: 'subprocess.Popen[bytes]', out: Path):
        self.name = name
        self.kind = kind
        self.how = how
        self.popen = popen
        self.out = out
        self.released: T.Set[str] = set()
        self.killed = False
        self.verdict: T.Optional[str] = None
        self.rc: T.Optional[int] = None


class World:
    """One source tree, one build directory, up to four commands P1..P4."""

    def __init__(self, root: Path, init: str):
        self.root = root
        self.src = root / 'src'
        self.bld = root / 'b'
        self.ctl = root / 'ctl'
        for d in (self.src, self.bld, self.ctl):
            d.mkdir(parents=True)
        gate = root / 'gate.sh'
        gate.write_text(GATE_SH)
        gate.chmod(0o755)
        (self.src / 'meson.build').write_text(MESON_BUILD.format(gate=gate))
        (self.src / 'meson.options').write_text(MESON_OPTIONS)
        self.procs: T.Dict[str, Proc] = {}
        self.inos: T.Dict[int, int] = {}
        self.lock_fd: T.Optional[int] = None
        self.blocked: T.Set[str] = set()
        self.muts: T.Dict[str, T.Set[str]] = {p: set() for p in PROCS}
        self.ntag = 0
        self.init = init
        if init == 'configured':
            r = subprocess.run(self.argv('setup', ''), env=base_env(), stdout=subprocess.PIPE, stderr=subprocess.STDOUT,
                               cwd=root)
            if r.returncode != 0 or not (self.bld / 'meson-private' / 'coredata.dat').exists():
                raise MachineryError('the initial meson setup failed:\n' + r.stdout.decode(errors='replace')[-2000:])
        self.sigs = self.snapshot()
        self.lock_ino()          # number the lock file of the initial configuration

    # -- rendering
    def argv(self, kind: str, how: str) -> T.List[str]:
        base = [common.PYTHON, str(common.REPO / 'meson.py')]
        if kind == 'setup':
            return base + ['setup', str(self.bld), str(self.src)]
        if kind == 'reconf':
            return base + ['setup', '--reconfigure', str(self.bld), str(self.src)]
        if kind == 'wipe':
            return base + ['setup', '--wipe', str(self.bld), str(self.src)]
        if kind == 'setopt':
            self.ntag += 1
            if how == 'configure':
                return base + ['configure', str(self.bld), f'-Dtag=v{self.ntag}']
            return base + ['setup', str(self.bld), str(self.src), f'-Dtag=v{self.ntag}']
        raise MachineryError('unknown kind ' + kind)

    # -- observation
    def paths(self) -> T.Dict[str, Path]:
        return {'coredata': self.bld / 'meson-private' / 'coredata.dat', 'ninja': self.bld / 'build.ninja',
                'cmdline': self.bld / 'meson-private' / 'cmd_line.txt', 'info': self.bld / 'meson-info'}

    def snapshot(self) -> T.Dict[str, T.Any]:
        out: T.Dict[str, T.Any] = {}
        for f, p in self.paths().items():
            if f == 'info':
                try:
                    names = sorted(os.listdir(p))
                except OSError:
                    names = []
                out[f] = tuple((n, file_sig(p / n)) for n in names) if 'meson-info.json' in names else None
                out['info_any'] = tuple((n, file_sig(p / n)) for n in names)
            else:
                out[f] = file_sig(p)
        return out

    def number(self, raw: int) -> int:
        if raw not in self.inos:
            self.inos[raw] = len(self.inos) + 1
        return self.inos[raw]

    def lock_ino(self, held_raw: T.Collection[int] = ()) -> T.Tuple[int, bool]:
        """(number of the inode at the lock path, was the lock file removed or replaced since the last look).

        The controller keeps the lock file it saw last open (read-only, it never locks it): an inode number cannot
        be reused while it is open, and st_nlink == 0 tells that the file was unlinked."""
        path = self.bld / 'meson-private' / 'meson.lock'
        changed = False
        if self.lock_fd is not None:
            st = os.fstat(self.lock_fd)
            try:
                cur = os.stat(path)
            except OSError:
                cur = None
            if st.st_nlink == 0 or cur is None or (cur.st_ino, cur.st_dev) != (st.st_ino, st.st_dev):
                changed = True
                os.close(self.lock_fd)
                self.lock_fd = None
                if st.st_ino not in held_raw:
                    self.inos.pop(st.st_ino, None)
        if self.lock_fd is None:
            try:
                self.lock_fd = os.open(path, os.O_RDONLY)
            except OSError:
                return 0, changed
        return self.number(os.fstat(self.lock_fd).st_ino), changed

    def status(self, p: str) -> str:
        pr = self.procs.get(p)
        if pr is None:
            return 'idle'
        if pr.killed:
            return 'killed'
        if pr.verdict is not None:
            return pr.verdict
        rc = pr.popen.poll()
        if rc is not None:
            pr.rc = rc
            text = pr.out.read_text(errors='replace')
            if rc == 0:
                pr.verdict = 'already' if (pr.kind == 'setup' and ALREADY_MSG in text) else 'ok'
            elif rc == 1 and BUSY_MSG in text:
                pr.verdict = 'busy'
            else:
                pr.verdict = 'error'
            return pr.verdict
        for g in ('G2', 'G1'):
            if g not in pr.released and (self.ctl / f'{p}.{g}.at').exists():
                return g
        return 'running'

    def lock_waiters(self) -> T.Set[str]:
        """Processes that wait for an advisory lock (a blocked FLOCK entry in /proc/locks) held by a process in a gate."""
        held, waits = proc_locks()
        out = set()
        for q, pr in self.procs.items():
            if pr.killed or pr.popen.poll() is not None:
                continue
            for ino in waits.get(pr.popen.pid, ()):
                if any(ino in held.get(o.popen.pid, ()) and self.status(r) in ('G1', 'G2')
                       for r, o in self.procs.items() if r != q):
                    out.add(q)
        return out

    def wait_quiet(self, p: str = '') -> None:
        """Until every live process waits in a gate (or, seen twice in a row, for a lock whose holder waits in a gate)."""
        t0 = time.monotonic()
        delay = 0.005
        last: T.Optional[T.Set[str]] = None
        while True:
            running = {q for q in self.procs if self.status(q) == 'running'}
            if not running:
                self.blocked = set()
                return
            w = self.lock_waiters()
            if running <= w and last == w:
                self.blocked = w
                return
            last = w if running <= w else None
            if time.monotonic() - t0 > WAIT_LIMIT:
                raise MachineryError(f'{sorted(running)} neither reached a gate nor ended within {WAIT_LIMIT}s')
            time.sleep(delay)
            delay = min(0.05, delay * 1.5)

    def observe(self, a: str, p: str, x: str) -> T.Dict[str, T.Any]:
        status = {q: ('blocked' if q in self.blocked else self.status(q)) for q in PROCS}
        for q, s in status.items():
            if s == 'running':
                raise MachineryError(f'{q} is running at an observation point (after {a} {p} {x})')
        new = self.snapshot()
        delta = sorted(f for f in ('coredata', 'ninja', 'cmdline', 'info') if new[f] != self.sigs[f])
        # files in meson-info without a meson-info.json also count as a change of the introspection data
        if 'info' not in delta and new['info_any'] != self.sigs['info_any']:
            delta = sorted(delta + ['info'])
        self.sigs = new
        self.muts[p] |= set(delta)
        held, _waits = proc_locks()
        holds = {}
        raw_holds = {}
        for q in PROCS:
            pr = self.procs.get(q)
            inos = held.get(pr.popen.pid, set()) if (pr is not None and status[q] in ('G1', 'G2')) else set()
            if len(inos) > 1:
                raise MachineryError(f'{q} holds more than one advisory lock: {inos}')
            raw_holds[q] = next(iter(inos)) if inos else 0
        lockino, changed = self.lock_ino({i for v in held.values() for i in v})
        holds = {q: (self.number(r) if r else 0) for q, r in raw_holds.items()}
        pr = self.procs.get(p)
        return {'a': a, 'p': p, 'x': x, 'how': pr.how if pr else '', 'cmd': CMDS[(pr.kind, pr.how)] if pr else '',
                'status': status,
                'present': sorted(f for f in ('coredata', 'ninja', 'cmdline', 'info') if new[f] is not None),
                'delta': delta, 'muts': {q: sorted(self.muts[q]) for q in PROCS},
                'lockino': lockino, 'lockchanged': changed, 'holds': holds}

    def configured(self) -> bool:
        return (self.bld / 'meson-private' / 'coredata.dat').exists()

    # -- control actions
    def start(self, p: str, kind: str, how: str) -> T.Dict[str, T.Any]:
        if p in self.procs:
            raise MachineryError(p + ' started twice')
        for g in ('G1', 'G2'):
            os.mkfifo(self.ctl / f'{p}.{g}.go')
        env = base_env()
        env['X10_CTL'] = str(self.ctl)
        env['X10_PROC'] = p
        out = self.ctl / f'{p}.out'
        with open(out, 'wb') as f:
            po = subprocess.Popen(self.argv(kind, how), env=env, stdout=f, stderr=subprocess.STDOUT,
                                  stdin=subprocess.DEVNULL, cwd=self.root, start_new_session=True)
        self.procs[p] = Proc(p, kind, how, po, out)
        self.wait_quiet(p)
        return self.observe('start', p, kind)

    def release(self, p: str, g: str) -> T.Dict[str, T.Any]:
        pr = self.procs[p]
        if self.status(p) != g:
            raise MachineryError(f'{p} is not at gate {g}')
        fifo = self.ctl / f'{p}.{g}.go'
        t0 = time.monotonic()
        while True:
            try:
                fd = os.open(fifo, os.O_WRONLY | os.O_NONBLOCK)
                break
            except OSError as e:
                if e.errno != errno.ENXIO:
                    raise
                # the gate script has touched its marker but has not opened the fifo yet
                if pr.popen.poll() is not None or time.monotonic() - t0 > WAIT_LIMIT:
                    raise MachineryError(f'nobody reads the gate {g} of {p}')
                time.sleep(0.005)
        try:
            os.write(fd, b'go\n')
        finally:
            os.close(fd)
        pr.released.add(g)
        self.wait_quiet(p)
        return self.observe('release', p, g)

    def kill(self, p: str, g: str) -> T.Dict[str, T.Any]:
        pr = self.procs[p]
        if self.status(p) != g:
            raise MachineryError(f'{p} is not at gate {g}')
        self._killpg(pr)
        pr.killed = True
        return self.observe('kill', p, g)

    @staticmethod
    def _killpg(pr: Proc) -> None:
        try:
            os.killpg(pr.popen.pid, signal.SIGKILL)      # the meson process and the gate script it waits for
        except ProcessLookupError:
            pass
        pr.popen.wait()

    def close(self) -> None:
        if self.lock_fd is not None:
            os.close(self.lock_fd)
            self.lock_fd = None
        for pr in self.procs.values():
            if pr.popen.poll() is None:
                self._killpg(pr)

    def outputs(self) -> T.Dict[str, str]:
        return {p: pr.out.read_text(errors='replace')[-1500:] for p, pr in self.procs.items()}


def is_fifo(p: Path) -> bool:
    try:
        return stat.S_ISFIFO(os.stat(p).st_mode)
    except OSError:
        return False
