"""X10, part 2: the wrap lock (subprojects/.wraplock) - controller, schedules, verdicts.

N real ``meson setup`` processes configure DIFFERENT build directories over ONE source tree whose subprojects w1, w2
come from ``[wrap-git]`` wrap files with ``diff_files``.  The download and the patch step run external programs - a
fake ``git`` and a fake ``patch`` first on PATH - and these are the gates: ``git clone`` waits before it creates
anything (gate dl), creates the directory with the build file only, waits (gate mid), writes the rest; ``patch`` waits
(gate patch) and completes the tree.  The build file of the subproject records what tree it was evaluated against.
A process that waits for the lock is recognised in /proc/locks (a blocked FLOCK entry) - no timing.
"""
from __future__ import annotations

import errno
import json
import os
import random
import signal
import subprocess
import time
import typing as T
from pathlib import Path

from . import common
from .common import Check, MachineryError, SPECS, run_tlc, scratch
from . import x10_procs as xp

FAM = SPECS / 'dirlock'
PROCS = ['P1', 'P2', 'P3']
WRAPS = ['w1', 'w2']
GATES = ['dl', 'mid', 'patch']

GATE_FN = '''gate() {
  : > "$X10_CTL/$X10_PROC.$1_$2.at"
  read x < "$X10_CTL/$X10_PROC.$1_$2.go"
}
'''
FAKE_GIT = '''#!/bin/sh
# X10 fake git: `git clone <url> <dir>` is the download + extraction of a wrap, with gates
''' + GATE_FN + '''
while [ "$1" = "-c" ]; do shift; shift; done
case "$1" in
  clone)
    w="$3"
    gate dl "$w"
    mkdir "$w" || exit 1
    cp "$X10_ROOT/sub.meson.build" "$w/meson.build"
    gate mid "$w"
    echo body > "$w/body.txt"
    exit 0;;
  *) exit 1;;
esac
'''
FAKE_PATCH = '''#!/bin/sh
# X10 fake patch: applies the diff file of a wrap (cwd = the subproject), with a gate
''' + GATE_FN + '''
w=$(basename "$PWD")
gate patch "$w"
echo patched > patched.txt
: > "$X10_CTL/$X10_PROC.fetched_$w"
exit 0
'''
PROBE = '''#!/bin/sh
# what does the tree of the subproject look like when its build file is evaluated?
w=$(basename "$PWD")
if [ -e body.txt ] && [ -e patched.txt ]; then s=complete; elif [ -e body.txt ]; then s=unpacked; else s=partial; fi
echo "$s" > "$X10_CTL/$X10_PROC.saw_$w"
exit 0
'''
MAIN_BUILD = '''project('x10wrap', meson_version: '>=1.1')
foreach w : get_option('needs').split(',')
  if w != ''
    subproject(w)
  endif
endforeach
'''
SUB_BUILD = '''project('x10sub')
run_command('{probe}', check: true)
'''


def tree_state(d: Path) -> str:
    if not (d / 'meson.build').exists():
        return 'absent'
    if (d / 'body.txt').exists() and (d / 'patched.txt').exists():
        return 'complete'
    if (d / 'body.txt').exists():
        return 'unpacked'
    return 'partial'


class WProc:
    def __init__(self, name: str, popen: 'subprocess.Popen[bytes]', out: Path, needs: T.List[str]):
        self.name = name
        self.popen = popen
        self.out = out
        self.needs = needs
        self.released: T.Set[str] = set()
        self.killed = False
        self.verdict: T.Optional[str] = None


class WrapWorld:
    def __init__(self, root: Path, init: T.Sequence[str]):
        self.root = root
        self.src = root / 'src'
        self.ctl = root / 'ctl'
        self.bin = root / 'bin'
        sp = self.src / 'subprojects'
        for d in (self.src, self.ctl, self.bin, sp / 'packagefiles'):
            d.mkdir(parents=True)
        for name, text in (('git', FAKE_GIT), ('patch', FAKE_PATCH)):
            (self.bin / name).write_text(text)
            (self.bin / name).chmod(0o755)
        probe = root / 'probe.sh'
        probe.write_text(PROBE)
        probe.chmod(0o755)
        (root / 'sub.meson.build').write_text(SUB_BUILD.format(probe=probe))
        (self.src / 'meson.build').write_text(MAIN_BUILD)
        (self.src / 'meson.options').write_text("option('needs', type: 'string', value: '')\n")
        for w in WRAPS:
            (sp / f'{w}.wrap').write_text(f'[wrap-git]\nurl = x10://{w}\nrevision = head\ndiff_files = {w}.diff\n')
            (sp / 'packagefiles' / f'{w}.diff').write_text('--- a/patched.txt\n+++ b/patched.txt\n')
        self.init = sorted(init)
        for w in self.init:
            d = sp / w
            d.mkdir()
            (d / 'meson.build').write_text(SUB_BUILD.format(probe=probe))
            (d / 'body.txt').write_text('body\n')
            (d / 'patched.txt').write_text('patched\n')
        self.procs: T.Dict[str, WProc] = {}

    def env(self, p: str) -> T.Dict[str, str]:
        e = xp.base_env()
        e['PATH'] = f'{self.bin}:{e.get("PATH", "/usr/bin:/bin")}'
        e['X10_CTL'] = str(self.ctl)
        e['X10_PROC'] = p
        e['X10_ROOT'] = str(self.root)
        return e

    # -- observation
    def wraplock(self) -> int:
        try:
            return os.stat(self.src / 'subprojects' / '.wraplock').st_ino
        except OSError:
            return -1

    def status(self, p: str, waits: T.Dict[int, T.Set[int]]) -> T.Tuple[str, str, str]:
        pr = self.procs.get(p)
        if pr is None:
            return ('idle', '', '')
        if pr.killed:
            return ('killed', '', '')
        if pr.verdict is None:
            rc = pr.popen.poll()
            if rc is not None:
                pr.verdict = 'ok' if rc == 0 else 'failed'
        if pr.verdict is not None:
            return (pr.verdict, '', '')
        for w in WRAPS:
            for g in reversed(GATES):
                key = f'{g}_{w}'
                if key not in pr.released and (self.ctl / f'{p}.{key}.at').exists():
                    return ('gate', g, w)
        if self.wraplock() in waits.get(pr.popen.pid, ()):
            return ('blocked', 'lock', '')
        return ('running', '', '')

    def look(self) -> T.Tuple[T.Dict[str, T.Tuple[str, str, str]], T.Dict[str, bool]]:
        held, waits = xp.proc_locks()
        st = {p: self.status(p, waits) for p in PROCS}
        wl = self.wraplock()
        # (every process also holds the lock of its own build directory: only the wrap lock counts here)
        holds = {p: bool(p in self.procs and st[p][0] in ('gate', 'blocked', 'running')
                         and wl in held.get(self.procs[p].popen.pid, ())) for p in PROCS}
        return st, holds

    def wait_quiet(self) -> T.Tuple[T.Dict[str, T.Tuple[str, str, str]], T.Dict[str, bool]]:
        """Until every live process waits in a gate or - while a process that waits in a gate holds the lock - for the
        lock.  Looked at twice with the same result: a waiter whose blocker just ended is about to run."""
        t0 = time.monotonic()
        delay = 0.005
        last = None
        while True:
            st, holds = self.look()
            quiet = all(s[0] != 'running' for s in st.values())
            if quiet and any(s[0] == 'blocked' for s in st.values()):
                quiet = any(holds[p] and st[p][0] == 'gate' for p in PROCS)
            if quiet and last == (st, holds):
                return st, holds
            last = (st, holds) if quiet else None
            if time.monotonic() - t0 > xp.WAIT_LIMIT:
                raise MachineryError(f'the processes did not come to rest within {xp.WAIT_LIMIT}s: {st} {holds}')
            time.sleep(delay)
            delay = min(0.05, delay * 1.5)

    def observe(self, a: str, p: str, needs: T.List[str], gate: str, w: str) -> T.Dict[str, T.Any]:
        st, holds = self.wait_quiet()
        sp = self.src / 'subprojects'
        saw = {}
        for q in PROCS:
            pairs = []
            for x in WRAPS:
                f = self.ctl / f'{q}.saw_{x}'
                if f.exists():
                    pairs.append([x, f.read_text().strip()])
            saw[q] = pairs
        return {'a': a, 'p': p, 'needs': needs, 'gate': gate, 'w': w,
                'st': {q: st[q][0] for q in PROCS}, 'atg': {q: st[q][1] for q in PROCS}, 'atw': {q: st[q][2] for q in PROCS},
                'holds': holds, 'tree': {x: tree_state(sp / x) for x in WRAPS}, 'saw': saw,
                'started': {x: sum(1 for q in PROCS if (self.ctl / f'{q}.dl_{x}.at').exists()) for x in WRAPS},
                'fetched': {x: sum(1 for q in PROCS if (self.ctl / f'{q}.fetched_{x}').exists()) for x in WRAPS}}

    # -- control actions
    def start(self, p: str, needs: T.List[str]) -> T.Dict[str, T.Any]:
        for w in WRAPS:
            for g in GATES:
                os.mkfifo(self.ctl / f'{p}.{g}_{w}.go')
        out = self.ctl / f'{p}.out'
        argv = [common.PYTHON, str(common.REPO / 'meson.py'), 'setup', '--backend=none', str(self.root / f'b{p}'),
                str(self.src), '-Dneeds=' + ','.join(needs)]
        with open(out, 'wb') as f:
            po = subprocess.Popen(argv, env=self.env(p), stdout=f, stderr=subprocess.STDOUT, stdin=subprocess.DEVNULL,
                                  cwd=self.root, start_new_session=True)
        self.procs[p] = WProc(p, po, out, needs)
        return self.observe('start', p, needs, '', '')

    def at(self, p: str) -> T.Tuple[str, str, str]:
        _, waits = xp.proc_locks()
        return self.status(p, waits)

    def release(self, p: str, g: str, w: str) -> T.Dict[str, T.Any]:
        pr = self.procs[p]
        fifo = self.ctl / f'{p}.{g}_{w}.go'
        t0 = time.monotonic()
        while True:
            try:
                fd = os.open(fifo, os.O_WRONLY | os.O_NONBLOCK)
                break
            except OSError as e:
                if e.errno != errno.ENXIO:
                    raise
                if pr.popen.poll() is not None or time.monotonic() - t0 > xp.WAIT_LIMIT:
                    raise MachineryError(f'nobody reads the gate {g} {w} of {p}')
                time.sleep(0.005)
        try:
            os.write(fd, b'go\n')
        finally:
            os.close(fd)
        pr.released.add(f'{g}_{w}')
        return self.observe('release', p, [], g, w)

    def kill(self, p: str, g: str, w: str) -> T.Dict[str, T.Any]:
        pr = self.procs[p]
        try:
            os.killpg(pr.popen.pid, signal.SIGKILL)
        except ProcessLookupError:
            pass
        pr.popen.wait()
        pr.killed = True
        return self.observe('kill', p, [], g, w)

    def close(self) -> None:
        for pr in self.procs.values():
            if pr.popen.poll() is None:
                try:
                    os.killpg(pr.popen.pid, signal.SIGKILL)
                except ProcessLookupError:
                    pass
                pr.popen.wait()

    def outputs(self) -> T.Dict[str, str]:
        return {p: pr.out.read_text(errors='replace')[-1500:] for p, pr in self.procs.items()}


GNAME = {'gout_dl': 'dl', 'gout_mid': 'mid', 'gout_patch': 'patch', 'wlock': 'lock'}


def norm_ctl(ctl: T.List[T.Dict[str, T.Any]]) -> T.List[T.Dict[str, T.Any]]:
    out = []
    for c in ctl:
        if c['a'] == 'start':
            out.append({'a': 'start', 'p': c['p'], 'needs': list(c.get('needs', c.get('x', []))), 'gate': '', 'w': ''})
        else:
            if 'gate' in c:
                out.append({'a': c['a'], 'p': c['p'], 'needs': [], 'gate': c['gate'], 'w': c['w']})
            else:
                op, w = c['x']
                out.append({'a': c['a'], 'p': c['p'], 'needs': [], 'gate': GNAME[op], 'w': w if GNAME[op] != 'lock' else ''})
    return out


def run_schedule(job: T.Tuple[str, T.List[str], T.List[T.Dict[str, T.Any]]]) -> T.Dict[str, T.Any]:
    tid, init, ctl = job
    segs: T.List[T.Dict[str, T.Any]] = []
    note = ''
    with scratch('x10w-') as root:
        w = WrapWorld(root / 'w', init)
        try:
            for c in ctl:
                if c['a'] == 'start':
                    segs.append(w.start(c['p'], c['needs']))
                    continue
                st = w.at(c['p'])
                if c['gate'] == 'lock':
                    ok = st[0] == 'blocked'
                else:
                    ok = st == ('gate', c['gate'], c['w'])
                if not ok:
                    note = f'stopped before {c}: {c["p"]} is {st}'
                    break
                segs.append(w.release(c['p'], c['gate'], c['w']) if c['a'] == 'release' else w.kill(c['p'], c['gate'], c['w']))
            outs = w.outputs()
        finally:
            w.close()
    return {'id': tid, 'init': sorted(init), 'segs': segs, 'note': note, 'outputs': outs}


def run_random(job: T.Tuple[str, int, int, int]) -> T.Dict[str, T.Any]:
    tid, seed, np, maxkills = job
    rnd = random.Random(f'{seed}/{tid}')
    init = rnd.choice([[], [], ['w1'], ['w2']])
    segs: T.List[T.Dict[str, T.Any]] = []
    with scratch('x10w-') as root:
        w = WrapWorld(root / 'w', init)
        kills = 0
        started = 0
        try:
            while True:
                _, waits = xp.proc_locks()
                sts = {p: w.status(p, waits) for p in PROCS[:started]}
                gated = [(p, s) for p, s in sts.items() if s[0] == 'gate']
                blocked = [p for p, s in sts.items() if s[0] == 'blocked']
                acts: T.List[T.Tuple[str, str, T.Any]] = []
                if started < np:
                    needs = rnd.choice([['w1'], ['w2'], ['w1', 'w2'], ['w2', 'w1'], ['w1']])
                    acts += [('start', PROCS[started], needs)] * (3 if gated else 1)
                for p, s in gated:
                    acts.append(('release', p, s))
                    if kills < maxkills and s[1] == 'dl':           # a kill inside the fetch belongs to C10
                        acts.append(('kill', p, s))
                for p in blocked:
                    if kills < maxkills:
                        acts.append(('kill', p, ('blocked', 'lock', '')))
                if not acts:
                    break
                a, p, x = rnd.choice(acts)
                if a == 'start':
                    started += 1
                    segs.append(w.start(p, x))
                elif a == 'release':
                    segs.append(w.release(p, x[1], x[2]))
                else:
                    kills += 1
                    segs.append(w.kill(p, x[1], x[2]))
            outs = w.outputs()
        finally:
            w.close()
    return {'id': tid, 'init': sorted(init), 'segs': segs, 'note': '', 'outputs': outs}


# ---------------------------------------------------------------------------

def export_schedules(chk: Check, np: int, kills: int, needs: str, init: str) -> T.List[T.Dict[str, T.Any]]:
    from .x10_dirlock import wrap_cfg
    res = run_tlc(FAM, 'WrapLock_MC', cfg_text=wrap_cfg('documented', np, kills, True, ['EmitSchedule'], needs=needs, init=init),
                  workers=1, timeout=1800, allow_violation=False, heap='3g')
    chk.add_tlc(f'WrapLock_MC[schedules,NP={np},kills={kills},{needs}]', res, model=True)
    seen = {}
    for j in res.json_lines():
        key = json.dumps([sorted(_setlist(j['had'])), j['ctl']])
        seen[key] = {'init': sorted(_setlist(j['had'])), 'ctl': norm_ctl(j['ctl']), 'ex': j['ex']}
    if not seen:
        raise MachineryError('TLC exported no wrap schedule')
    return [seen[k] for k in sorted(seen)]


def _setlist(x: T.Any) -> T.List[str]:
    return list(x) if isinstance(x, (list, tuple)) else []


def submit_all(ex: T.Any, chk: Check, quick: bool, rnd: random.Random, tmp: str) -> T.List[T.Any]:
    scheds = export_schedules(chk, 2, 1, 'MCNeedChoices', 'MCInitAny')
    chk.extra['wrap_schedules_np2'] = len(scheds)
    jobs = [(f'WA2:{i}', s['init'], s['ctl']) for i, s in enumerate(scheds)]
    # schedules in which nobody ever waits for anybody are many and all alike: keep a few
    inter = [j for j in jobs if _interesting(j[2])]
    rest = [j for j in jobs if not _interesting(j[2])]
    n_i, n_r, n_b = (22, 4, 10) if quick else (200, 30, 60)
    pick = rnd.sample(inter, min(len(inter), n_i)) + rnd.sample(rest, min(len(rest), n_r))
    if not quick:
        s3 = export_schedules(chk, 3, 1, 'MCNeedOne', 'MCInitNone')
        chk.extra['wrap_schedules_np3'] = len(s3)
        j3 = [(f'WA3:{i}', s['init'], s['ctl']) for i, s in enumerate(s3)]
        pick += rnd.sample(j3, min(len(j3), 60))
    chk.extra['wraplock_traces'] = {'forced_schedules': len(pick), 'random_walks': n_b}
    futs = [ex.submit(run_schedule, j) for j in pick]
    futs += [ex.submit(run_random, (f'WB:{i}', chk.seed, rnd.choice([2, 3, 3]), 2)) for i in range(n_b)]
    return futs


def _interesting(ctl: T.List[T.Dict[str, T.Any]]) -> bool:
    """A process is started while another one waits in a gate."""
    live_gate = False
    for i, c in enumerate(ctl):
        if c['a'] == 'start' and i > 0 and ctl[i - 1]['a'] in ('start', 'release') and i < len(ctl) - 1:
            live_gate = True
    return live_gate


SEG_FIELDS = ('a', 'p', 'needs', 'gate', 'w', 'st', 'atg', 'atw', 'holds', 'tree', 'saw', 'started', 'fetched')


def judge(chk: Check, traces: T.List[T.Dict[str, T.Any]], label: str) -> T.Dict[str, T.Dict[str, T.Any]]:
    if not traces:
        return {}
    proj = [{'id': t['id'], 'init': t['init'], 'segs': [{f: s[f] for f in SEG_FIELDS} for s in t['segs']]} for t in traces]
    out: T.Dict[str, T.Dict[str, T.Any]] = {t['id']: {} for t in traces}
    with scratch('x10-tr-') as d:
        tf = d / 'traces.json'
        tf.write_text(json.dumps(proj))
        for mode, cfg in (('laws', 'TraceWrapLock_Laws.cfg'), ('accept', 'TraceWrapLock_Accept.cfg')):
            res = run_tlc(FAM, 'TraceWrapLock', cfg=cfg, env={'TRACE_FILE': str(tf)}, workers=1, timeout=1800, heap='3g')
            if not res.finished or res.invariant_violated or res.deadlock:
                raise MachineryError(f'TraceWrapLock/{mode} did not finish:\n' + res.stdout[-3000:])
            chk.add_tlc(f'TraceWrapLock[{mode},{label}]', res, model=False)
            for v in res.json_lines():
                if v.get('mode') != mode or v['id'] not in out:
                    continue
                old = out[v['id']].get(mode)
                # accept: some order of the waiters agrees ("ok") - otherwise the difference that comes latest
                if old is None or (old['clause'] != 'ok' and (v['clause'] == 'ok' or v['seg'] > old['seg'])):
                    out[v['id']][mode] = v
            for t in traces:
                if mode not in out[t['id']]:
                    raise MachineryError(f'TraceWrapLock/{mode} gave no verdict for trace {t["id"]}:\n' + res.stdout[-2000:])
    return out


def report(chk: Check, traces: T.List[T.Dict[str, T.Any]], verdicts: T.Dict[str, T.Dict[str, T.Any]]) -> None:
    for t in traces:
        v = verdicts[t['id']]
        chk.traces += 1
        chk.evaluations += len(t['segs'])
        if any(s == 'blocked' for sg in t['segs'] for s in sg['st'].values()) or any(sg['a'] == 'kill' for sg in t['segs']):
            chk.nontriv(['wrap', t['init']] + [[s['a'], s['p'], s['needs'], s['gate'], s['w']] for s in t['segs']])
        bad = None
        if v['laws']['clause'] != 'ok':
            bad = ('laws', v['laws'])
        elif v['accept']['clause'] != 'ok':
            bad = ('accept', v['accept'])
        if bad is None:
            continue
        mode, vv = bad
        seg = t['segs'][vv['seg'] - 1]
        sig = f'wraplock {mode} {vv["clause"]}|{seg["a"]} {seg["gate"]}'
        chk.violation(sig, {'kind': 'wraplock', 'trace': t, 'verdict': v, 'init': t['init'],
                            'ctl': [{f: s[f] for f in ('a', 'p', 'needs', 'gate', 'w')} for s in t['segs']]})


def judge_and_report(chk: Check, traces: T.List[T.Dict[str, T.Any]]) -> None:
    verdicts = judge(chk, traces, 'A+B')
    report(chk, traces, verdicts)
    for t in traces[:: max(1, len(traces) // 2)][:2]:
        chk.sample({'id': t['id'], 'init': t['init'],
                    'segments': [[s['a'], s['p'], s['needs'], s['gate'], s['w'], s['st'], s['tree'], s['saw']] for s in t['segs']],
                    'verdict': {m: verdicts[t['id']][m]['clause'] for m in ('laws', 'accept')}})


def replay(chk: Check, det: T.Dict[str, T.Any]) -> None:
    t = run_schedule(('replay', det['init'], det['ctl']))
    report(chk, [t], judge(chk, [t], 'replay'))
